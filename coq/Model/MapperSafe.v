(* C09: what makes a ToX/FromX plan SAFE (no nil dereference for any input),
   as a decidable check on the plan against the two struct declarations, and
   the typing of input values.  Proofs/MapperSafeProofs.v proves that a safe
   plan never panics on well-typed values; the correspondence evaluates
   [plans_safe] on the plan of every sampled pair.  No proofs here. *)
From Coq Require Import String Ascii List Bool Arith ZArith.
From Shoot Require Import Base.Str Model.MapVal Model.Mapper Model.MapperEval.
Import ListNotations.
Local Open Scope string_scope.
Local Open Scope list_scope.

(* every plain field reachable through embedded structs, with the embedded
   pointers one must pass (shortest first); paths are relative to the struct *)
Record rleaf := { rl_path : path; rl_ty : ty; rl_hops : list path }.

Definition rl_under (n : string) (ptr : bool) (l : rleaf) : rleaf :=
  {| rl_path := n :: rl_path l; rl_ty := rl_ty l;
     rl_hops := (if ptr then [[n]] else []) ++ map (cons n) (rl_hops l) |}.

Fixpoint rleaves (e : env) (fuel : nat) (fs : list sfield) : list rleaf :=
  match fuel with
  | O => []
  | S fuel' =>
      flat_map (fun f =>
        if sf_emb f then
          match sf_ty f with
          | TNamed p n =>
              match lookup_decl e p n with
              | Some (DStruct gs) => map (rl_under (sf_name f) false) (rleaves e fuel' gs)
              | _ => []
              end
          | TPtr (TNamed p n) =>
              match lookup_decl e p n with
              | Some (DStruct gs) => map (rl_under (sf_name f) true) (rleaves e fuel' gs)
              | _ => []
              end
          | _ => []
          end
        else [{| rl_path := [sf_name f]; rl_ty := sf_ty f; rl_hops := [] |}]) fs
  end.

(* the embedded-pointer positions of a struct, with the struct type they point to *)
Fixpoint rhops (e : env) (fuel : nat) (fs : list sfield) : list (path * ty) :=
  match fuel with
  | O => []
  | S fuel' =>
      flat_map (fun f =>
        if sf_emb f then
          match sf_ty f with
          | TNamed p n =>
              match lookup_decl e p n with
              | Some (DStruct gs) => map (fun h => (sf_name f :: fst h, snd h)) (rhops e fuel' gs)
              | _ => []
              end
          | TPtr (TNamed p n) =>
              match lookup_decl e p n with
              | Some (DStruct gs) =>
                  ([sf_name f], TNamed p n) :: map (fun h => (sf_name f :: fst h, snd h)) (rhops e fuel' gs)
              | _ => []
              end
          | _ => []
          end
        else []) fs
  end.

Definition mem_path (p : path) (l : list path) : bool := existsb (path_eqb p) l.

Fixpoint find_leaf (ls : list rleaf) (p : path) : option rleaf :=
  match ls with
  | [] => None
  | l :: r => if path_eqb (rl_path l) p then Some l else find_leaf r p
  end.

Fixpoint list_eqb {A} (eqb : A -> A -> bool) (a b : list A) : bool :=
  match a, b with
  | [], [] => true
  | x :: a', y :: b' => eqb x y && list_eqb eqb a' b'
  | _, _ => false
  end.

(* [zf] is enough fuel for zero_val on t (it never runs out on a named type) *)
Fixpoint zero_wf (e : env) (zf : nat) (t : ty) : bool :=
  match t with
  | TNamed p n =>
      match zf with
      | O => false
      | S f =>
          match lookup_decl e p n with
          | Some (DBasic _) => true
          | Some (DStruct fs) => forallb (fun sf => zero_wf e f (sf_ty sf)) fs
          | None => false
          end
      end
  | _ => true
  end.


Definition proper_prefix (q p : path) : bool := path_prefix q p && negb (path_eqb q p).

(* allocation list: every entry is an embedded-pointer position of the written
   struct with its type, and the embedded pointers above it come earlier *)
Fixpoint alloc_ok (whops : list (path * ty)) (done : list path) (al : list (path * ty)) : bool :=
  match al with
  | [] => true
  | (p, t) :: r =>
      existsb (fun h => path_eqb (fst h) p && ty_eqb (snd h) t) whops
      && forallb (fun h => negb (proper_prefix (fst h) p) || mem_path (fst h) done) whops
      && alloc_ok whops (p :: done) r
  end.

(* a guard list checks parents before children *)
Fixpoint chain_ok (all : list path) (done : list path) (g : list path) : bool :=
  match g with
  | [] => true
  | h :: r => forallb (fun q => negb (proper_prefix q h) || mem_path q done) all && chain_ok all (h :: done) r
  end.

(* what a strategy requires of the type that is read *)
Definition read_type_ok (pe : penv) (to_dir : bool) (h : strategy) (t : ty) : bool :=
  match h with
  | SMap sp dp sn dn | SEach sp dp sn dn =>
      let rp := if to_dir then sp else dp in
      let rn := if to_dir then TNamed PSrc sn else TNamed PDst dn in
      let el := if rp then TPtr rn else rn in
      ty_eqb t (match h with SEach _ _ _ _ => TSlice el | _ => el end)
      && match find_plans pe sn with Some tp => String.eqb (tp_dst tp) dn | None => false end
  | _ => true
  end.

(* a mapper method is not called through a pointer-embedded mapper *)
Definition func_ok (mh : option path) (h : strategy) : bool :=
  match h, mh with SFunc _, Some _ => false | _, _ => true end.

Definition stmt_ok (pe : penv) (to_dir : bool) (mh : option path) (rls wls : list rleaf) (whops : list (path * ty))
           (allocd : list path) (s : stmt) : bool :=
  negb (r_acc (st_src s)) && negb (r_acc (st_dst s)) && func_ok mh (st_how s)
  && match find_leaf rls (r_path (st_src s)), find_leaf wls (r_path (st_dst s)) with
     | Some rl, Some wl =>
         list_eqb path_eqb (st_guard s) (rl_hops rl)
         && chain_ok (rl_hops rl) [] (rl_hops rl)
         && forallb (fun h => mem_path h allocd) (rl_hops wl)
         (* no other leaf lives below the written leaf *)
         && forallb (fun l' => negb (proper_prefix (r_path (st_dst s)) (rl_path l'))) wls
         && read_type_ok pe to_dir (st_how s) (rl_ty rl)
         (* writing the leaf cannot disturb an embedded pointer: no embedded position at or below it *)
         && forallb (fun h => negb (path_prefix (r_path (st_dst s)) (fst h))) whops
     | _, _ => false
     end.

Definition plan_safe (e : env) (fuel : nat) (pe : penv) (to_dir : bool) (mh : option path)
           (rfs wfs : list sfield) (pl : plan) : bool :=
  match pl_ctor pl with
  | Some _ => false
  | None =>
      let whops := rhops e fuel wfs in
      (* FromX starts from a zero value: the receiver's previous content is untyped *)
      (to_dir || pl_reset pl)
      && alloc_ok whops [] (pl_alloc pl)
      && forallb (fun a => zero_wf e fuel (snd a)) (pl_alloc pl)
      && forallb (stmt_ok pe to_dir mh (rleaves e fuel rfs) (rleaves e fuel wfs) whops (map fst (pl_alloc pl))) (pl_stmts pl)
  end.

Definition decl_fields (e : env) (p : pkg) (n : string) : list sfield :=
  match lookup_decl e p n with Some (DStruct fs) => fs | _ => [] end.

Definition is_struct_decl (e : env) (p : pkg) (n : string) : bool :=
  match lookup_decl e p n with Some (DStruct _) => true | _ => false end.

(* ------------------------------------------------------- typing of values *)
Definition basic_val (b : basic) (v : val) : Prop :=
  match b with
  | BString => exists s, v = VStr s
  | BBool => exists x, v = VBool x
  | _ => exists z, v = VInt z
  end.

(* v is a value of type t *)
Inductive has_ty (e : env) : val -> ty -> Prop :=
| HT_basic : forall b v, basic_val b v -> has_ty e v (TBasic b)
| HT_ptr_nil : forall t, has_ty e VNil (TPtr t)
| HT_ptr : forall x t, has_ty e x t -> has_ty e (VPtr x) (TPtr t)
| HT_slice_nil : forall t, has_ty e VNil (TSlice t)
| HT_slice : forall xs t, Forall (fun x => has_ty e x t) xs -> has_ty e (VList xs) (TSlice t)
| HT_map : forall v k t, has_ty e v (TMap k t)
| HT_named_basic : forall p n b v, lookup_decl e p n = Some (DBasic b) -> basic_val b v -> has_ty e v (TNamed p n)
| HT_struct : forall p n fs kvs,
    lookup_decl e p n = Some (DStruct fs) ->
    Forall2 (fun kv sf => fst kv = sf_name sf /\ has_ty e (snd kv) (sf_ty sf)) kvs fs ->
    has_ty e (VStruct kvs) (TNamed p n).

(* struct declarations have pairwise distinct field names (Go enforces it) *)
Fixpoint nodup_strs (l : list string) : bool :=
  match l with
  | [] => true
  | x :: r => negb (existsb (String.eqb x) r) && nodup_strs r
  end.
Definition env_ok (e : env) : bool :=
  forallb (fun d => match snd d with DStruct fs => nodup_strs (map sf_name fs) | DBasic _ => true end) e.

(* every generated mapper of the pair is safe, in both directions *)
Definition plans_safe (e : env) (fuel : nat) (pe : penv) : bool :=
  forallb (fun tp =>
    plan_safe e fuel pe true (tp_mapper_hop tp) (decl_fields e PSrc (tp_src tp)) (decl_fields e PDst (tp_dst tp)) (tp_to tp)
    && plan_safe e fuel pe false (tp_mapper_hop tp) (decl_fields e PDst (tp_dst tp)) (decl_fields e PSrc (tp_src tp)) (tp_from tp)
    && is_struct_decl e PSrc (tp_src tp) && is_struct_decl e PDst (tp_dst tp)
    && zero_wf e fuel (TNamed PSrc (tp_src tp)) && zero_wf e fuel (TNamed PDst (tp_dst tp))) pe
  && env_ok e.


(* a decidable type check of values (sound for has_ty, see MapperSafeProofs.has_ty_b_sound);
   used for Examples and to validate the inputs of the correspondence run *)
Definition basic_val_b (b : basic) (v : val) : bool :=
  match b, v with
  | BString, VStr _ => true
  | BBool, VBool _ => true
  | BString, _ => false
  | BBool, _ => false
  | _, VInt _ => true
  | _, _ => false
  end.

Fixpoint has_ty_b (e : env) (fuel : nat) (v : val) (t : ty) {struct fuel} : bool :=
  match fuel with
  | O => false
  | S f =>
      match t with
      | TBasic b => basic_val_b b v
      | TPtr t' => match v with VNil => true | VPtr x => has_ty_b e f x t' | _ => false end
      | TSlice t' => match v with VNil => true | VList xs => forallb (fun x => has_ty_b e f x t') xs | _ => false end
      | TMap _ _ => true
      | TNamed p n =>
          match lookup_decl e p n with
          | Some (DBasic b) => basic_val_b b v
          | Some (DStruct fs) =>
              match v with
              | VStruct kvs =>
                  (fix go (kvs : list (string * val)) (fs : list sfield) : bool :=
                     match kvs, fs with
                     | [], [] => true
                     | kv :: kvs', sf :: fs' =>
                         String.eqb (fst kv) (sf_name sf) && has_ty_b e f (snd kv) (sf_ty sf) && go kvs' fs'
                     | _, _ => false
                     end) kvs fs
              | _ => false
              end
          | None => false
          end
      end
  end.
