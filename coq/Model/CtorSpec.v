(* Declarative vocabulary for the constructor properties: what the property text
   speaks about (occurrences of fields in the struct graph, "marked shoot: new",
   "excluded", "carries a default"), defined from the spec grammar only -- never
   from shoot's flattened list -- and the decidable guards of the theorems.
   No proofs in this file. *)
From Coq Require Import String Ascii List Bool Arith.
From Shoot Require Import Base.Str Base.GoVal Model.Transfer Model.CtorDirective Model.Ctor.
Import ListNotations.
Local Open Scope string_scope.

Definition is_some {A} (o : option A) : bool := match o with Some _ => true | None => false end.

(* every field occurrence of depth < fuel below the struct, by depth level *)
Definition all_occ (pkg : pkg_spec) (fuel : nat) (si : sinst) : list (path * tfield) :=
  flat_map (fun n => level pkg n si []) (seq 0 fuel).

Definition occ_name (o : path * tfield) : ident := fst (fst (snd o)).
Definition occ_ty (o : path * tfield) : ty := snd (fst (snd o)).
Definition occ_emb (o : path * tfield) : bool := snd (snd o).

(* an embedded struct (or pointer to struct): an inner node of the embedding tree *)
Definition occ_is_node (pkg : pkg_spec) (o : path * tfield) : bool :=
  occ_emb o && is_some (struct_of pkg (occ_ty o)).

Fixpoint find_occ (p : path) (l : list (path * tfield)) : option (path * tfield) :=
  match l with
  | [] => None
  | o :: r => if path_eqb (fst o) p then Some o else find_occ p r
  end.

(* the top-level declaration a path starts in *)
Definition decl_has_name (n : ident) (fd : fdecl) : bool :=
  match fd_names fd with
  | [] => String.eqb (short_name (fd_ty fd)) n
  | ns => existsb (String.eqb n) ns
  end.
Definition top_decl (sd : sdecl) (p : path) : option fdecl :=
  match p with
  | [] => None
  | n :: _ => find (decl_has_name n) (sd_fields sd)
  end.

(* "the type has a field marked shoot: new" *)
Definition has_new_spec (sd : sdecl) : bool :=
  existsb (fun fd => parse_new_comment (fd_doc fd)) (sd_fields sd).

(* "the field (or the embedded field it is promoted from) is marked shoot: new" *)
Definition marked_new (sd : sdecl) (p : path) : bool :=
  match top_decl sd p with Some fd => parse_new_comment (fd_doc fd) | None => false end.

(* "_-prefixed or tagged new:"-"" for a field declared directly in the struct *)
Definition excluded_decl (fd : fdecl) (n : ident) : bool := String.prefix "_" n || tag_is_dash (fd_tag fd).
Definition excluded_top (sd : sdecl) (p : path) : bool :=
  match p with
  | [n] => match top_decl sd p with
           | Some fd => match fd_names fd with [] => false | _ => excluded_decl fd n end
           | None => false
           end
  | _ => false
  end.

(* "the field carries a def= directive" (directives exist on the fields of the struct itself only) *)
Definition def_text (sd : sdecl) (p : path) : string :=
  match p with
  | [n] => match top_decl sd p with
           | Some fd => match fd_names fd with [] => "" | _ => parse_def (fd_doc fd) end
           | None => ""
           end
  | _ => ""
  end.

(* ------------------------------------------------------------------ guards *)
(* the embedding depth is below fuel: no occurrence at depth fuel *)
Definition depth_bounded (pkg : pkg_spec) (fuel : nat) (sd : sdecl) : bool :=
  match level pkg fuel (self_inst sd) [] with [] => true | _ => false end.

(* every field name that occurs is a legal selector on T (no same-depth
   ambiguity at the shallowest depth) *)
Definition unambiguous (pkg : pkg_spec) (fuel : nat) (sd : sdecl) : bool :=
  forallb (fun o => is_some (resolve pkg fuel sd (occ_name o))) (all_occ pkg fuel (self_inst sd)).

(* embedded fields are structs or pointers to structs (an embedded MyInt or an
   embedded interface is ignored by shoot but is a field for Go) *)
Definition no_embedded_nonstruct (pkg : pkg_spec) (fuel : nat) (sd : sdecl) : bool :=
  forallb (fun o => negb (occ_emb o) || is_some (struct_of pkg (occ_ty o))) (all_occ pkg fuel (self_inst sd)).

(* no excluded-class field (_-prefixed, new:"-") in a struct that is embedded:
   the filters of extractTopFiels do not exist below the top level
   (finding K_ctor_promoted_underscore) *)
Definition struct_clean (sd' : sdecl) : bool :=
  forallb (fun fd => forallb (fun n => negb (excluded_decl fd n)) (fd_names fd)) (sd_fields sd').
Definition no_promoted_excluded (pkg : pkg_spec) (fuel : nat) (sd : sdecl) : bool :=
  forallb (fun o => if occ_emb o then match struct_of pkg (occ_ty o) with
                                      | Some (sd', _) => struct_clean sd'
                                      | None => true end
                    else true) (all_occ pkg fuel (self_inst sd)).

(* a def= directive on an excluded field is dropped together with the field
   (finding K_ctor_excluded_def) *)
Definition no_excluded_def (sd : sdecl) : bool :=
  forallb (fun fd => String.eqb (parse_def (fd_doc fd)) "" ||
                     forallb (fun n => negb (excluded_decl fd n)) (fd_names fd)) (sd_fields sd).

(* an excluded field of the struct shadows nothing for shoot, but it does for Go
   (finding K_ctor_excluded_shadow): its name must not occur below the top level *)
Definition excluded_names (sd : sdecl) : list ident :=
  flat_map (fun fd => filter (excluded_decl fd) (fd_names fd)) (sd_fields sd).
Definition no_excluded_shadow (pkg : pkg_spec) (fuel : nat) (sd : sdecl) : bool :=
  forallb (fun o => Nat.eqb (length (fst o)) 1 || negb (existsb (String.eqb (occ_name o)) (excluded_names sd)))
          (all_occ pkg fuel (self_inst sd)).

(* constraints are identifiers (finding K_ctor_generic_constraint) *)
Definition ident_constraints (sd : sdecl) : bool :=
  forallb (fun g => match tp_con g with CIdent _ => true | COther _ => false end) (sd_tparams sd).

(* no pointer to pointer among the struct's own field types (qualifiedName trims every star) *)
Definition no_double_ptr (sd : sdecl) : bool :=
  forallb (fun fd => match fd_ty fd with TPtr (TPtr _) => false | _ => true end) (sd_fields sd).

(* field names of every struct in the closure are distinct (Go rejects the package otherwise) *)
Fixpoint nodup_str (l : list string) : bool :=
  match l with
  | [] => true
  | x :: r => negb (existsb (String.eqb x) r) && nodup_str r
  end.
Definition fields_distinct (si : sinst) : bool := nodup_str (map (fun tf : tfield => fst (fst tf)) (struct_fields si)).
Definition sinst_of (pkg : pkg_spec) (t : ty) : list sinst :=
  match struct_of pkg t with Some si => [si] | None => [] end.
Definition wf_structs (pkg : pkg_spec) (fuel : nat) (sd : sdecl) : bool :=
  fields_distinct (self_inst sd) &&
  forallb (fun o => if occ_emb o then forallb fields_distinct (sinst_of pkg (occ_ty o)) else true)
          (all_occ pkg fuel (self_inst sd)).

Definition go_keywords : list string :=
  ["break"; "default"; "func"; "interface"; "select"; "case"; "defer"; "go"; "map"; "struct"; "chan";
   "else"; "goto"; "package"; "switch"; "const"; "fallthrough"; "if"; "range"; "type"; "continue";
   "for"; "import"; "return"; "var"].

(* the leaves Go can select on T by their bare name, in declaration order *)
Definition selectable_leaves (pkg : pkg_spec) (fuel : nat) (sd : sdecl) : list path :=
  filter (fun p => match resolve pkg fuel sd (last p "") with
                   | Some q => path_eqb p q
                   | None => false end)
         (leaf_paths pkg fuel (self_inst sd) []).

(* parameter names would be distinct, non-empty and no Go keywords
   (K_ctor_keyword_param: field Type -> parameter type) *)
Definition param_names_ok (pkg : pkg_spec) (fuel : nat) (sd : sdecl) : bool :=
  let ps := map (fun p => to_camel_case (last p "")) (selectable_leaves pkg fuel sd) in
  nodup_str ps && forallb (fun p => negb (String.eqb p "") && negb (existsb (String.eqb p) go_keywords)) ps.

(* Go's export rule: a struct of another package can only be built and read through its
   exported fields; shoot flattens the unexported ones as well and the generated NewT does
   not compile (finding K_ctor_foreign_unexported) *)
Definition foreign_fields_exported (pkg : pkg_spec) (fuel : nat) (sd : sdecl) : bool :=
  forallb (fun o => if occ_emb o then match struct_of pkg (occ_ty o) with
                                      | Some (sd', args) =>
                                          String.eqb (sd_pkg sd') "" ||
                                          forallb (fun tf : tfield => is_exported (fst (fst tf))) (struct_fields (sd', args))
                                      | None => true end
                    else true) (all_occ pkg fuel (self_inst sd)).

(* a new:"-" tag on an EMBEDDED field is ignored by shoot: the promoted fields stay
   parameters (finding K_ctor_embed_tag_ignored) *)
Definition embed_tags_clean (sd' : sdecl) : bool :=
  forallb (fun fd => match fd_names fd with [] => negb (tag_is_dash (fd_tag fd)) | _ => true end) (sd_fields sd').
Definition no_tagged_embed (pkg : pkg_spec) (fuel : nat) (sd : sdecl) : bool :=
  embed_tags_clean sd &&
  forallb (fun o => if occ_emb o then match struct_of pkg (occ_ty o) with
                                      | Some (sd', _) => embed_tags_clean sd'
                                      | None => true end
                    else true) (all_occ pkg fuel (self_inst sd)).

(* a def= directive written in the declaration of an embedded struct is not seen when the
   embedding type is generated: the promoted field is left zero (finding K_ctor_promoted_def_ignored) *)
Definition decl_any_def (sd' : sdecl) : bool :=
  existsb (fun fd => match fd_names fd with [] => false | _ => negb (String.eqb (parse_def (fd_doc fd)) "") end)
          (sd_fields sd').
Definition no_promoted_def (pkg : pkg_spec) (fuel : nat) (sd : sdecl) : bool :=
  forallb (fun o => if occ_emb o then match struct_of pkg (occ_ty o) with
                                      | Some (sd', _) => negb (decl_any_def sd')
                                      | None => true end
                    else true) (all_occ pkg fuel (self_inst sd)).

(* the guard of the C02 theorems and of the comparison stream.  [c02_guard_core] is the part
   the proofs use; the three last conjuncts keep inputs out on which the MODEL is not a
   description of a compilable program (export rule) or on which the declarative vocabulary
   of this file would have to take a side (tag on an embed, default of a promoted field) *)
Definition c02_guard_core (pkg : pkg_spec) (fuel : nat) (sd : sdecl) : bool :=
  depth_bounded pkg fuel sd && wf_structs pkg fuel sd && unambiguous pkg fuel sd &&
  no_embedded_nonstruct pkg fuel sd && no_promoted_excluded pkg fuel sd && no_excluded_def sd &&
  no_excluded_shadow pkg fuel sd &&
  ident_constraints sd && no_double_ptr sd && param_names_ok pkg fuel sd.

Definition c02_guard (pkg : pkg_spec) (fuel : nat) (sd : sdecl) : bool :=
  c02_guard_core pkg fuel sd &&
  foreign_fields_exported pkg fuel sd && no_tagged_embed pkg fuel sd && no_promoted_def pkg fuel sd.
