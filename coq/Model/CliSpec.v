(* The declarative reading of C16, written over package-level declarations only
   and without reference to the code's AST walkers (Model/Cli.v).  Which file a
   type is declared in, which declarations are eligible for a subcommand, which
   names may be given to -type, and which files (with which types) a command
   line must produce.  Also the decidable guards used by the theorems: the
   well-formedness of a skeleton and the input classes of the open findings.
   No proofs in this file. *)
From Coq Require Import List String Ascii Bool Arith.
From Shoot Require Import Model.Cli.
Import ListNotations.
Local Open Scope string_scope.

(* the file whose package-level declarations include a type named T ("" if none) *)
Definition declares (T : string) (f : file) : bool :=
  existsb (fun t => ts_name t =? T) (top_specs f).
Definition decl_file (p : pkg) (T : string) : string :=
  match find (declares T) (p_files p) with
  | Some f => f_name f
  | None => ""
  end.

Definition dest_has_struct (p : pkg) (T : string) : bool :=
  existsb (fun t => (ts_name t =? T) && is_struct t) (p_dest p).

(* a package-level declaration the subcommand can generate for *)
Definition eligible (c : subcmd) (p : pkg) (t : tspec) : bool :=
  match c with
  | CNew => is_struct t && negb (has_prefix "_" (ts_name t))
  | CEnum => ts_int t && negb (ts_alias t) && negb (Nat.eqb (consts_of p (ts_name t)) 0)
  | CRest => is_rest_iface t
  | CMap => is_struct t && dest_has_struct p (ts_name t)
  end.

(* ... and that -file / -type=* pick up by themselves (map lists exported structs only) *)
Definition listable (c : subcmd) (p : pkg) (t : tspec) : bool :=
  eligible c p t && match c with CMap => is_exported (ts_name t) | _ => true end.

(* T names an eligible package-level declaration *)
Definition nameable (c : subcmd) (p : pkg) (T : string) : bool :=
  existsb (fun t => (ts_name t =? T) && eligible c p t) (pkg_specs p).

(* output names as the property words them *)
Definition per_type_name (c : subcmd) (src T : string) : string :=
  trim_go src ++ "." ++ shootcmd c ++ "." ++ type_part T ++ ".go".
Definition all_in_one_name (c : subcmd) (src : string) : string :=
  trim_go src ++ "." ++ shootcmd c ++ ".go".

Fixpoint nodupb (l : list string) : bool :=
  match l with
  | [] => true
  | x :: l' => negb (mem x l') && nodupb l'
  end.

Inductive expect :=
| EFail                      (* a diagnostic, non-zero exit, no file *)
| EFiles (files : srcmap).   (* exit 0 and exactly these files, each holding exactly these types in this order *)

Definition file_named (p : pkg) (n : string) : list tspec :=
  match find (fun f => f_name f =? n) (p_files p) with
  | Some f => top_specs f
  | None => []
  end.

(* -file must be an existing .go file below the package directory.  When it is not
   one of the files of the package (a _test.go file, a file excluded by a build
   constraint, a file of a sub-directory) no declaration of it belongs to the
   package, so "the eligible types declared in f.go" are none: nothing is generated. *)
Definition file_arg_ok (fl : cflags) (p : pkg) : bool :=
  (fl_file fl =? "") || (ends_with ".go" (fl_file fl) && mem (fl_file fl) (map f_name (p_files p) ++ p_others p)%list).

(* what a command line must produce *)
Definition spec (c : subcmd) (fl : cflags) (p : pkg) : expect :=
  if negb (file_arg_ok fl p) then EFail
  else if fl_specified fl then
    let L := fl_types fl in
    if forallb (nameable c p) L &&
       ((fl_file fl =? "") || forallb (fun T => decl_file p T =? fl_file fl) L) &&
       nodupb (map (fun T => per_type_name c (decl_file p T) T) L)        (* two types for one file: a diagnostic *)
    then EFiles (map (fun T => (per_type_name c (decl_file p T) T, [T])) L)
    else EFail
  else
    let pool := if fl_file fl =? "" then pkg_specs p else file_named p (fl_file fl) in
    let sel := map ts_name (filter (listable c p) pool) in
    if fl_sep fl then
      (if nodupb (map (fun T => per_type_name c (decl_file p T) T) sel)
       then EFiles (map (fun T => (per_type_name c (decl_file p T) T, [T])) sel) else EFail)
    else match sel with
         | [] => EFiles []
         | _ => EFiles [(all_in_one_name c (if fl_file fl =? "" then all_in_one_file fl p else fl_file fl), sel)]
         end.

(* --------------------------------------------------------------- guards *)

(* a Go identifier over ASCII: a letter or `_`, then letters, digits, `_` *)
Definition is_letter (c : ascii) : bool :=
  let n := nat_of_ascii c in
  (Nat.leb 65 n && Nat.leb n 90) || (Nat.leb 97 n && Nat.leb n 122) || Nat.eqb n 95.
Definition is_digit (c : ascii) : bool :=
  let n := nat_of_ascii c in Nat.leb 48 n && Nat.leb n 57.
Fixpoint all_chars (f : ascii -> bool) (s : string) : bool :=
  match s with
  | EmptyString => true
  | String c s' => f c && all_chars f s'
  end.
Definition is_ident (s : string) : bool :=
  match s with
  | EmptyString => false
  | String c s' => is_letter c && all_chars (fun d => is_letter d || is_digit d) s'
  end.

(* a file name the go tool considers: not empty, not starting with `.` or `_` *)
Definition visible_file (n : string) : bool :=
  negb (n =? "") && negb (has_prefix "." n) && negb (has_prefix "_" n).

(* a skeleton of the grammar: the package-level type names are identifiers and
   pairwise distinct (as the Go compiler demands; function-local types are
   unconstrained), file names are visible to the go tool and pairwise distinct *)
Definition wf_pkgb (p : pkg) : bool :=
  nodupb (map ts_name (pkg_specs p)) &&
  forallb is_ident (map ts_name (pkg_specs p)) &&
  nodupb (map f_name (p_files p)) &&
  forallb visible_file (map f_name (p_files p)).

(* the flag record of a real command line: an explicit -type list forces one file per type *)
Definition flags_okb (fl : cflags) : bool := implb (fl_specified fl) (fl_sep fl).

(* the selection of a listing mode, as the spec sees it *)
Definition spec_selection (c : subcmd) (fl : cflags) (p : pkg) : list string :=
  map ts_name (filter (listable c p) (if fl_file fl =? "" then pkg_specs p else file_named p (fl_file fl))).

(* input classes of the open findings (see known_findings/):
   K_star_no_generate_line -type=* and no //go:generate line ends with the command line
   K_star_sep_file         -type=* -sep and a selected type declared outside the file of the //go:generate line
   (K_enum_missing_silent, K_local_type_listed, K_lower_collision were repaired in /repo: their
    classes are inside the theorems now) *)
Definition star_mode (fl : cflags) : bool := negb (fl_specified fl) && (fl_file fl =? "").

Definition k_star_no_generate_line (c : subcmd) (fl : cflags) (p : pkg) : bool :=
  star_mode fl && (all_in_one_file fl p =? "") && negb (Nat.eqb (List.length (spec_selection c fl p)) 0).

Definition k_star_sep_file (c : subcmd) (fl : cflags) (p : pkg) : bool :=
  star_mode fl && fl_sep fl &&
  existsb (fun T => negb (decl_file p T =? all_in_one_file fl p)) (spec_selection c fl p).

Definition known_class (c : subcmd) (fl : cflags) (p : pkg) : bool :=
  k_star_no_generate_line c fl p || k_star_sep_file c fl p.

(* does an outcome of the model (or an observation of the implementation) meet the expectation? *)
Definition types_eqb (v v' : list string) : bool :=
  Nat.eqb (List.length v) (List.length v') && forallb (fun xy => fst xy =? snd xy) (combine v v').

(* a srcmap is a Go map (and a directory listing): compared without order *)
Definition has_entry (m : srcmap) (kv : string * list string) : bool :=
  existsb (fun kv' => (fst kv' =? fst kv) && types_eqb (snd kv') (snd kv)) m.
Definition srcmap_same (a b : srcmap) : bool :=
  Nat.eqb (List.length a) (List.length b) && forallb (has_entry b) a && forallb (has_entry a) b.

(* same multiset of strings (the message lists the files in map-iteration order) *)
Fixpoint remove_one (x : string) (l : list string) : option (list string) :=
  match l with
  | [] => None
  | y :: l' => if x =? y then Some l'
               else match remove_one x l' with Some r => Some (y :: r) | None => None end
  end.
Fixpoint perm_eqb (a b : list string) : bool :=
  match a with
  | [] => match b with [] => true | _ => false end
  | x :: a' => match remove_one x b with Some b' => perm_eqb a' b' | None => false end
  end.

(* "output for a type declared in src.go is written to src.shoot<cmd>...": the
   name of a written file starts with the base name of a source file of the package *)
Definition anchored (c : subcmd) (p : pkg) (n : string) : bool :=
  existsb (fun f => has_prefix (trim_go (f_name f) ++ "." ++ shootcmd c ++ ".") n) (p_files p).

Definition meets (c : subcmd) (p : pkg) (o : outcome) (e : expect) : bool :=
  match o, e with
  | Failed _, EFail => true
  | Done files listed, EFiles fs =>
      srcmap_same files fs && perm_eqb listed (map fst fs) && forallb (anchored c p) (map fst files)
  | _, _ => false
  end.
