(* C15: the declarative reading of C05 (Model/MapperSpec.v) lifted to sides that
   are flat `shoot new -getset` types: an unexported field x takes part under the
   name Pascal(x); it can be READ iff it has a getter, WRITTEN iff it has a setter
   or is a constructor parameter; exported fields as before.  "The values that
   arrive are those C05 prescribes for plain exported fields": spec15_to/from
   run the C05 rules on these accessible fields and place the values in the
   real (unexported) fields.  [guard15] is the class on which the code is claimed
   to do this (it excludes the open findings).  No proofs here. *)
From Coq Require Import String Ascii List Bool Arith ZArith.
From Shoot Require Import Base.Str Model.Transfer Model.MapVal Model.Mapper Model.MapperEval Model.MapperSpec.
Import ListNotations.
Local Open Scope string_scope.
Local Open Scope list_scope.

Record aleaf := { al_leaf : leaf; al_read : bool; al_write : bool; al_ctor : bool; al_setter : bool }.

Definition has_acc (accs : list accessor) (set : bool) (name : string) : bool :=
  existsb (fun a => Bool.eqb (ac_set a) set && String.eqb (ac_name a) name) accs.

Definition has_acc_path (accs : list accessor) (set : bool) (p : path) : bool :=
  existsb (fun a => Bool.eqb (ac_set a) set && path_eqb (ac_path a) p) accs.

(* the fields of one side as the property sees them.  A shoot-new side may embed
   (shoot-new) base structs: their fields take part through the promoted accessors
   and the nested constructor literal. *)
Definition side15 (e : env) (fuel : nat) (p : pkg) (n : string) (accs : list accessor) (ctor : list cparam)
  : list aleaf :=
  match accs, ctor with
  | [], [] => map (fun l => {| al_leaf := l; al_read := true; al_write := true; al_ctor := false; al_setter := false |})
                  (visible e fuel p n)
  | _, _ =>
      match struct_fields e p n with
      | None => []
      | Some fs =>
          flat_map (fun l =>
            if String.eqb (l_tag l) "-" then [] else
            let exported := is_exported (l_name l) in
            let nm := if exported then l_name l else to_pascal_case (l_name l) in
            (* a parameter below `&Base{...}` is not recognised by the mapper (cp_field = "") *)
            let isctor := existsb (fun c => path_eqb (cp_path c) (l_path l) && negb (String.eqb (cp_field c) "")) ctor in
            let setter := has_acc_path accs true (l_path l) in
            [{| al_leaf := {| l_name := nm; l_path := l_path l; l_ty := l_ty l; l_depth := l_depth l;
                              l_hops := l_hops l; l_tag := l_tag l |};
                al_read := exported || has_acc_path accs false (l_path l);
                al_write := exported || setter || isctor;
                al_ctor := isctor;
                al_setter := setter || exported |}]) (leaves_of e fuel [] 0 [] fs)
      end
  end.

Definition src15 (e : env) (fuel : nat) (jb : job) := side15 e fuel PSrc (j_src jb) (j_src_acc jb) (j_src_ctor jb).
Definition dst15 (e : env) (fuel : nat) (jb : job) := side15 e fuel PDst (j_dst jb) (j_dst_acc jb) (j_dst_ctor jb).

(* source tags as written, keyed by the name under which the field takes part (its own
   name if exported, Pascal(x) for an unexported x).  shoot keys by the Pascal form of
   every name and compares the Pascal form of the tag only: K_map_tag_underscore,
   guard [tag_guard15] *)
Definition tags15 (e : env) (jb : job) : tagmap :=
  match struct_fields e PSrc (j_src jb) with
  | None => []
  | Some fs =>
      rev (flat_map (fun f => if negb (sf_emb f) && negb (String.eqb (sf_tag f) "") && negb (String.eqb (sf_tag f) "-")
                              then [(if is_exported (sf_name f) then sf_name f else to_pascal_case (sf_name f), sf_tag f)]
                              else []) fs)
  end.

Definition pairs15 (e : env) (fuel : nat) (jb : job) (to_dir : bool) : list (aleaf * aleaf * strategy) :=
  let tm := tags15 e jb in
  let ss := src15 e fuel jb in
  let ds := dst15 e fuel jb in
  let ws := if to_dir then ds else ss in
  let rs := if to_dir then ss else ds in
  let nm (w r : aleaf) := if to_dir then names_match tm (j_ic jb) (l_name (al_leaf r)) (l_name (al_leaf w))
                          else names_match tm (j_ic jb) (l_name (al_leaf w)) (l_name (al_leaf r)) in
  flat_map (fun w =>
    if negb (al_write w) then [] else
    match filter (fun r => al_read r && nm w r
                           && match choose e (j_funcs jb) to_dir (l_ty (al_leaf r)) (l_ty (al_leaf w)) with
                              | Some _ => true | None => false end) rs with
    | r :: _ => match choose e (j_funcs jb) to_dir (l_ty (al_leaf r)) (l_ty (al_leaf w)) with
                | Some h => [(w, r, h)] | None => [] end
    | [] => []
    end) ws.

Section Spec15.
  Variable e : env.
  Variable zf : nat.
  Variable U : usem.
  Variable jobs : list job.

  Definition strip (prs : list (aleaf * aleaf * strategy)) : list (leaf * leaf * strategy) :=
    map (fun x => (al_leaf (fst (fst x)), al_leaf (snd (fst x)), snd x)) prs.

  (* when the constructor call is used (some parameter receives a mapped value) its
     literal allocates every embedded pointer struct of the written type *)
  Definition ctor_used (jb : job) (to_dir : bool) : bool :=
    let ss := src15 e zf jb in
    let ds := dst15 e zf jb in
    let ws := if to_dir then ds else ss in
    let rs := if to_dir then ss else ds in
    (* makeCtorMatch: ToX uses the source tag map, FromX none (K_map_ctor_from_tag) *)
    let tm := if to_dir then tags15 e jb else [] in
    existsb (fun w =>
      al_ctor w &&
      existsb (fun r =>
        al_read r
        && (if to_dir then names_match tm (j_ic jb) (l_name (al_leaf r)) (l_name (al_leaf w))
            else names_match tm (j_ic jb) (l_name (al_leaf r)) (l_name (al_leaf w)))
        && (let rt := l_ty (al_leaf r) in let wt := l_ty (al_leaf w) in
            type_equals rt wt
            || (convertible e rt wt && negb (may_mis_conv e rt wt))
            || existsb (fun fn => type_equals (mf_param fn) rt && type_equals (mf_result fn) wt) (j_funcs jb))) rs) ws.

  Definition all_hops (ws : list aleaf) : list (path * ty) :=
    fold_left (fun acc w => fold_left (fun acc h => if existsb (fun h' => path_eqb (fst h') (fst h)) acc then acc else acc ++ [h])
                                      (l_hops (al_leaf w)) acc) ws [].

  Definition start_value (w0 : val) (ws : list aleaf) (jb : job) (to_dir : bool) : option val :=
    if ctor_used jb to_dir then alloc_hops e zf w0 (all_hops ws) else Some w0.

  Fixpoint spec15_to (fuel : nat) (tn : string) (recv : val) : option val :=
    match fuel with
    | O => None
    | S fuel' =>
        match find_job jobs tn, recv with
        | Some jb, VNil => Some VNil
        | Some jb, VPtr s =>
            match start_value (zero_val e zf (TNamed PDst (j_dst jb))) (dst15 e zf jb) jb true with
            | None => None
            | Some d0 =>
                match write_pairs e zf U (fun n y => opt_out (spec15_to fuel' n y)) PDst true s d0
                                  (strip (pairs15 e zf jb true)) with
                | Some d => Some (VPtr d)
                | None => None
                end
            end
        | _, _ => None
        end
    end.

  Fixpoint spec15_from (fuel : nat) (tn : string) (arg : val) : option val :=
    match fuel with
    | O => None
    | S fuel' =>
        match find_job jobs tn, arg with
        | Some jb, VNil => Some VNil
        | Some jb, VPtr d =>
            match start_value (zero_val e zf (TNamed PSrc (j_src jb))) (src15 e zf jb) jb false with
            | None => None
            | Some s0 =>
                match write_pairs e zf U (fun n y => opt_out (spec15_from fuel' n y)) PSrc false d s0
                                  (strip (pairs15 e zf jb false)) with
                | Some s => Some (VPtr s)
                | None => None
                end
            end
        | _, _ => None
        end
    end.
End Spec15.

(* ------------------------------------------------------------------ guard *)
(* a shoot-new side: no map:"-" tag (K_map_dash_accessor), leaf names unique, embedded fields are declared
   structs, and below an embedded POINTER only exported fields: an accessor promoted through a nil embedded
   pointer panics (K_map_promoted_accessor_nil) *)
Definition sn_side (e : env) (fuel : nat) (p : pkg) (n : string) (accs : list accessor) : bool :=
  match struct_fields e p n with
  | Some fs =>
      let ls := leaves_of e fuel [] 0 [] fs in
      forallb (fun l => negb (String.eqb (l_tag l) "-") && (Nat.eqb (l_depth l) 0 || String.eqb (l_tag l) "")) ls
      && forallb (fun l => Nat.eqb (length (filter (fun l' => String.eqb (l_name l') (l_name l)) ls)) 1) ls
      && forallb (fun l => match l_hops l with [] => true | _ => is_exported (l_name l) end) ls
      && forallb (fun x => negb (String.eqb (fst x) "")) (embedded_names e fuel 0 fs)
      && emb_structs e fuel fs
  | None => false
  end.

Definition applicable_b (e : env) (fns : list mfunc) (to_dir : bool) (rt wt : ty) (h : strategy) : bool :=
  match h with
  | SFunc _ => existsb (fun fn => type_equals (mf_param fn) rt && type_equals (mf_result fn) wt) fns
  | SAssign => type_equals rt wt
  | SConv _ _ => negb (type_equals rt wt) && convertible e rt wt && negb (may_mis_conv e rt wt)
  | _ => false
  end.

(* per direction: what the open findings exclude *)
Definition dir_guard15 (e : env) (fuel : nat) (jobs : list job) (jb : job) (to_dir : bool) : bool :=
  let ss := src15 e fuel jb in
  let ds := dst15 e fuel jb in
  let ws := if to_dir then ds else ss in
  let rs := if to_dir then ss else ds in
  let tm := tags15 e jb in
  let nm (w r : aleaf) := if to_dir then names_match tm (j_ic jb) (l_name (al_leaf r)) (l_name (al_leaf w))
                          else names_match tm (j_ic jb) (l_name (al_leaf w)) (l_name (al_leaf r)) in
  (* K_map_setonly_read: no field that can be written but not read faces a writable counterpart *)
  forallb (fun r => al_read r || negb (al_setter r && negb (is_exported (last (l_path (al_leaf r)) "")))
                    || negb (existsb (fun w => al_write w && nm w r) ws)) rs
  (* one-to-one name matching *)
  && forallb (fun w => Nat.leb (length (filter (fun r => nm w r) rs)) 1) ws
  && forallb (fun r => Nat.leb (length (filter (fun w => nm w r) ws)) 1) rs
  && forallb (fun x =>
       let '(w, r, h) := x in
       (* K_map_ctor_from_tag: FromX matches the source constructor parameters without the tag map *)
       (to_dir || negb (al_ctor w && negb (al_setter w))
        || match tm_get tm (l_name (al_leaf w)) with None => true | Some _ => false end)
       &&
       (* K_map_ctor_arg_unguarded: a constructor argument is read without nil guard *)
       (negb (al_ctor w) || match h with SMap _ _ _ _ | SEach _ _ _ _ => true | _ => match l_hops (al_leaf r) with [] => true | _ => false end end)
       &&
       let rt := l_ty (al_leaf r) in
       let wt := l_ty (al_leaf w) in
       match h with
       | SMap _ _ n1 n2 | SEach _ _ n1 n2 =>
           (* K_map_ctor_no_submap: a sub-struct value needs a setter (constructors get the zero value) *)
           (negb (al_ctor w) || al_setter w)
           && is_struct e PSrc n1 && is_struct e PDst n2
           && match find_job jobs n1 with Some j => String.eqb (j_dst j) n2 | None => false end
       | SFunc _ =>
           (* K_map_mapper_ptr_embedded: the method is selected through a pointer-embedded mapper *)
           match j_mapper_hop jb with None => true | Some _ => false end
           &&
           (* K_map_ctor_func_nil_receiver: FromX evaluates the mapper method on its (possibly nil) receiver *)
           (to_dir || negb (al_ctor w))
           (* K_map_ctor_func_last: with several methods of one signature the constructor takes the LAST, the passes the first *)
           && (negb (al_ctor w)
               || Nat.leb (length (filter (fun fn => type_equals (mf_param fn) rt && type_equals (mf_result fn) wt) (j_funcs jb))) 1)
           (* K_map_ctor_priority: constructors prefer assignment/conversion to the mapper method *)
           && (negb (al_ctor w) || negb (applicable_b e (j_funcs jb) to_dir rt wt SAssign
                                     || applicable_b e (j_funcs jb) to_dir rt wt (SConv rt wt)))
       | SConv _ t =>
           (* K_map_ctor_ptr_conv, K_map_src_named_qualified *)
           negb (al_ctor w && match t with TPtr _ => true | _ => false end)
           && (to_dir || negb (match t with TNamed PSrc _ | TPtr (TNamed PSrc _) => true | _ => false end))
       | SAssign => true
       end) (pairs15 e fuel jb to_dir).

(* K_map_tag_underscore on a shoot-new side: a tagged EXPORTED field is its own Pascal form,
   and the tag reaches every destination name it names *)
Definition tag_guard15 (e : env) (fuel : nat) (jb : job) : bool :=
  match struct_fields e PSrc (j_src jb) with
  | None => true
  | Some fs =>
      forallb (fun f =>
        sf_emb f || String.eqb (sf_tag f) "" || String.eqb (sf_tag f) "-"
        || ((negb (is_exported (sf_name f)) || String.eqb (to_pascal_case (sf_name f)) (sf_name f))
            && forallb (fun d => negb (same_name (j_ic jb) (sf_tag f) (l_name (al_leaf d)))
                                 || same_name (j_ic jb) (to_pascal_case (sf_tag f)) (l_name (al_leaf d)))
                       (dst15 e fuel jb))) fs
  end.

(* the guard knows which directions are generated (-way): a clause only the missing
   direction needs does not exclude the pair *)
Definition job_guard15_w (w : way) (e : env) (fuel : nat) (jobs : list job) (jb : job) : bool :=
  if plain_job jb then job_guard_w w e fuel jobs jb
  else
    tag_guard15 e fuel jb &&
    (match j_src_acc jb, j_src_ctor jb with [], [] => side_guard e fuel PSrc (j_src jb) | _, _ => sn_side e fuel PSrc (j_src jb) (j_src_acc jb) end)
    && (match j_dst_acc jb, j_dst_ctor jb with [], [] => side_guard e fuel PDst (j_dst jb) | _, _ => sn_side e fuel PDst (j_dst jb) (j_dst_acc jb) end)
    && match j_manual_to jb, j_manual_from jb with None, None => true | _, _ => false end
    && (negb (has_to w) || dir_guard15 e fuel jobs jb true)
    && (negb (has_from w) || dir_guard15 e fuel jobs jb false).

Definition job_guard15 := job_guard15_w WBoth.

Definition pair_guard15_w (w : way) (e : env) (fuel : nat) (jobs : list job) : bool :=
  forallb (job_guard15_w w e fuel jobs) jobs.

Definition pair_guard15 (e : env) (fuel : nat) (jobs : list job) : bool := pair_guard15_w WBoth e fuel jobs.

(* ------------------------------------------------ names and storage *)
(* the storage a written reference touches: a plain field its own path, a setter
   the path of its backing field as `shoot new -getset` generated it *)
Definition write_path (accs : list accessor) (r : fref) : option path :=
  if r_acc r then acc_path accs (r_name r) else Some (r_path r).

(* everything that can be written on one side, by name: plain exported fields,
   setters, constructor parameters bound to a field (named like the setter of that
   field; a parameter the constructor body does not store in a field of the type
   itself has cp_field = "" and is called "Set": it never receives a mapped value) *)
Definition writables (fl : list field) (accs : list accessor) (ctor : list cparam) : list (string * path) :=
  map (fun f => (f_name f, f_path f)) fl
  ++ map (fun a => (ac_name a, ac_path a)) (filter ac_set accs)
  ++ map (fun c => (f_name (ctor_field c), cp_path c)) (filter (fun c => negb (String.eqb (cp_field c) "")) ctor).

(* the storage determines the name: no two setters (or a setter and a plain field,
   or a parameter and a differently named setter) write the same path *)
Definition path_det (l : list (string * path)) : bool :=
  forallb (fun x => forallb (fun y => negb (path_eqb (snd x) (snd y)) || String.eqb (fst x) (fst y)) l) l.

(* what the tables `shoot new -getset` produces always satisfy; the theorems on
   write PATHS need it, since accessor and parameter tables are otherwise free *)
Definition tables_wf (jb : job) : bool :=
  match parse_fields (j_env jb) (j_fuel jb) PSrc (j_src jb) true,
        parse_fields (j_env jb) (j_fuel jb) PDst (j_dst jb) false with
  | Some ps, Some pd =>
      path_det (writables (exported_of (p_fields pd)) (j_dst_acc jb) (j_dst_ctor jb))
      && path_det (writables (exported_of (p_fields ps)) (j_src_acc jb) (j_src_ctor jb))
  | _, _ => true
  end.
