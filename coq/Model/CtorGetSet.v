(* Model of `shoot new -getset` (accessors and accessor interfaces):
     parseGetSet / parseGetterSetter            fields.go:176-199, 404-427   (field part is in Model/Ctor.v)
     makeGetSet                                  getset.go:9-103
     FindGetterSetterIfac / AssignableToIface    internal/shoot/getsetiface.go
     the accessor / interface part of constructor.tmpl (lines 77-90, 130-153)
     the overlay reload between the types of one run (generatorbase.go:359-363)
   written literally, plus
     * the PACKAGE VIEW: what the loaded package shows of earlier shoot output (for every struct
       whose generated file is visible: its accessor methods and its <T>Getter / <T>Setter
       interfaces), threaded through the types of one run as the overlay does;
     * Go's method sets: the complete method set of an accessor interface (embedded interfaces
       resolved in the view) and the selector rule for METHODS on *T (shallowest depth that has a
       field or a method of that name, unique there), defined independently of makeGetSet;
     * the meaning of the emitted accessors on Base/GoVal values;
     * the declarative accessor table of the property text and the decidable guards.
   No proofs in this file.  Used by C03 and C11. *)
From Coq Require Import String Ascii List Bool Arith ZArith.
From Shoot Require Import Base.Str Base.GoVal Model.Transfer Model.CtorDirective Model.Ctor Model.CtorSpec.
Import ListNotations.
Local Open Scope string_scope.

(* ------------------------------------------------------- type-level directive *)
(* parseGetterSetter: a doc comment with neither or both words means both *)
Definition parse_getter_setter (doc : string) : bool * bool :=
  let '(g, s) := parse_getter_setter_doc doc in
  if Bool.eqb g s then (true, true) else (g, s).

(* g.getter, g.setter after parseFields: reset to true/true by MakeData, read from the
   GenDecl doc only under -getset (no doc comment: Text() = "" gives both, like nil) *)
Definition type_switch (fl : ctor_flags) (sd : sdecl) : bool * bool :=
  if fl_getset fl then parse_getter_setter (sd_doc sd) else (true, true).

(* ------------------------------------------------------------- accessor names *)
Definition getter_name (f : ident) : string := to_pascal_case f.
Definition setter_name (f : ident) : string := "Set" ++ to_pascal_case f.

(* ------------------------------------------------------ methods and the view *)
Inductive mkind := MGet | MSet | MOther.
Definition mkind_eqb (a b : mkind) : bool :=
  match a, b with MGet, MGet => true | MSet, MSet => true | MOther, MOther => true | _, _ => false end.

(* shoot.Func{Name, Param | Result}; gm_field is a ghost component: the field the accessor reads / writes *)
Record gs_method := { gm_name : string; gm_kind : mkind; gm_ty : ty; gm_field : ident }.

(* an entry of GetterList / SetterList; af_ty is a ghost component (the entry's type, the
   template prints TypeMap[name]) *)
Record acc_field := { af_name : ident; af_ty : ty }.

(* what makeGetSet hands to the template *)
Record gs_data := {
  gs_getters : list acc_field;               (* GetterList *)
  gs_setters : list acc_field;               (* SetterList *)
  gs_get_ifaces : list (ident * list ty);    (* GetterIfaces: <E>Getter[args], kept as (E, args) *)
  gs_set_ifaces : list (ident * list ty);    (* SetterIfaces *)
  gs_methods : list gs_method                (* g.getsetMethods *)
}.

Definition empty_gs : gs_data :=
  {| gs_getters := []; gs_setters := []; gs_get_ifaces := []; gs_set_ifaces := []; gs_methods := [] |}.

(* one generated file `new -getset` wrote for a struct of the package, as the loaded package shows it *)
Record ventry := { ve_name : ident; ve_tparams : list ident; ve_data : gs_data }.
Definition view := list ventry.

Fixpoint find_ventry (v : view) (n : ident) : option ventry :=
  match v with
  | [] => None
  | e :: r => if String.eqb (ve_name e) n then Some e else find_ventry r n
  end.

Definition is_nil {A} (l : list A) : bool := match l with [] => true | _ => false end.

(* {{if or .GetterIfaces .GetterList}} : the interface is declared at all *)
Definition iface_declared (getter : bool) (d : gs_data) : bool :=
  if getter then negb (is_nil (gs_get_ifaces d)) || negb (is_nil (gs_getters d))
  else negb (is_nil (gs_set_ifaces d)) || negb (is_nil (gs_setters d)).

Definition acc_method (getter : bool) (s : list (ident * ty)) (a : acc_field) : gs_method :=
  {| gm_name := if getter then getter_name (af_name a) else setter_name (af_name a);
     gm_kind := if getter then MGet else MSet;
     gm_ty := subst s (af_ty a); gm_field := af_name a |}.

(* the complete method set of the interface <E>Getter[args] (<E>Setter[args]): its explicit methods and,
   transitively, those of the interfaces it embeds.  fuel bounds the nesting of interfaces. *)
Fixpoint iface_methods (v : view) (fuel : nat) (getter : bool) (e : ident) (args : list ty) : list gs_method :=
  match fuel with
  | O => []
  | S fuel' =>
      match find_ventry v e with
      | None => []
      | Some ve =>
          let d := ve_data ve in
          if iface_declared getter d then
            let s := combine (ve_tparams ve) args in
            (flat_map (fun ia : ident * list ty => iface_methods v fuel' getter (fst ia) (map (subst s) (snd ia)))
                      (if getter then gs_get_ifaces d else gs_set_ifaces d)
             ++ map (acc_method getter s) (if getter then gs_getters d else gs_setters d))%list
          else []
      end
  end.

(* the accessor methods declared on *E in E's generated file, for the instance E[args] *)
Definition own_methods (v : view) (si : sinst) : list gs_method :=
  let '(sd, args) := si in
  if String.eqb (sd_pkg sd) "" then
    match find_ventry v (sd_name sd) with
    | Some ve =>
        let s := combine (tparam_names sd) args in
        (map (acc_method true s) (gs_getters (ve_data ve)) ++ map (acc_method false s) (gs_setters (ve_data ve)))%list
    | None => []
    end
  else [].

(* the accessor methods at embedding depth n below the struct instance, with the path of the
   embedded struct that declares them (mirrors Ctor.level) *)
Fixpoint methods_at (pkg : pkg_spec) (v : view) (n : nat) (si : sinst) (pre : path) : list (path * gs_method) :=
  match n with
  | O => map (fun m => (pre, m)) (own_methods v si)
  | S n' =>
      flat_map (fun tf : tfield => let '(nm, ft, emb) := tf in
        if emb then match struct_of pkg ft with
                    | Some si' => methods_at pkg v n' si' (pre ++ [nm])%list
                    | None => []
                    end
        else []) (struct_fields si)
  end.

Definition method_candidates (pkg : pkg_spec) (v : view) (n : nat) (si : sinst) (m : string) : list (path * gs_method) :=
  filter (fun pm => String.eqb (gm_name (snd pm)) m) (methods_at pkg v n si []).

(* Go's selector rule for x.m on an addressable x of the struct type: the shallowest depth with a
   field or method named m; legal only if it is a single method there.  Depths d .. d+fuel-1. *)
Fixpoint find_method_from (pkg : pkg_spec) (v : view) (si : sinst) (m : string) (d fuel : nat) : option (path * gs_method) :=
  match fuel with
  | O => None
  | S fuel' =>
      match candidates pkg d si m, method_candidates pkg v d si m with
      | [], [] => find_method_from pkg v si m (S d) fuel'
      | [], [pm] => Some pm
      | _, _ => None
      end
  end.

Definition find_method (pkg : pkg_spec) (v : view) (fuel : nat) (si : sinst) (m : string) : option (path * gs_method) :=
  find_method_from pkg v si m 0 fuel.

Definition sig_eqb (a b : gs_method) : bool :=
  String.eqb (gm_name a) (gm_name b) && mkind_eqb (gm_kind a) (gm_kind b) &&
  String.eqb (type_string (gm_ty a)) (type_string (gm_ty b)).

(* types.AssignableTo(ptr E, I): every method of I is in the method set of *E with the same signature *)
Definition implements (pkg : pkg_spec) (v : view) (fuel : nat) (si : sinst) (ms : list gs_method) : bool :=
  forallb (fun m => match find_method pkg v fuel si (gm_name m) with
                    | Some pm => sig_eqb m (snd pm)
                    | None => false end) ms.

(* ----------------------------------------------------------------- makeGetSet *)
Definition type_args (t : ty) : list ty :=
  match t with
  | TNamed _ _ a => a
  | TPtr (TNamed _ _ a) => a
  | _ => []
  end.

(* FindGetterSetterIfac: the type <name>Getter (<name>Setter) of the package scope *)
Definition find_iface (v : view) (name : ident) (getter : bool) : option ventry :=
  match find_ventry v name with
  | Some ve => if iface_declared getter (ve_data ve) then Some ve else None
  | None => None
  end.

(* AssignableToIface(f.typ, I): None = (nil, false); Some (args, ok) = (I[args], ok).  The
   constraints of the interface are copies of the struct's own, so instantiation succeeds
   whenever the numbers of type parameters agree. *)
Definition assignable_to_iface (pkg : pkg_spec) (v : view) (fuel : nat) (t : ty) (ve : ventry) (getter : bool)
  : option (list ty * bool) :=
  match struct_of pkg t with
  | None => None
  | Some si =>
      let args := type_args t in
      if Nat.eqb (length (ve_tparams ve)) (length args)
      then Some (args, implements pkg v fuel si (iface_methods v fuel getter (ve_name ve) args))
      else None
  end.

Record gs_acc := {
  ga_once : list ident;
  ga_get : list acc_field; ga_set : list acc_field;
  ga_geti : list (ident * list ty); ga_seti : list (ident * list ty);
  ga_methods : list gs_method
}.

Definition empty_gs_acc : gs_acc :=
  {| ga_once := []; ga_get := []; ga_set := []; ga_geti := []; ga_seti := []; ga_methods := [] |}.

Definition kind_is (k : mkind) (m : gs_method) : bool := mkind_eqb (gm_kind m) k.

(* the embedded-entry branch, getter half *)
Definition embed_get (pkg : pkg_spec) (v : view) (fuel : nat) (f : field) (a : gs_acc) : gs_acc :=
  match find_iface v (f_name f) true with
  | None => a
  | Some ve =>
      match assignable_to_iface pkg v fuel (f_ty f) ve true with
      | Some (args, true) =>
          {| ga_once := ga_once a; ga_get := ga_get a; ga_set := ga_set a;
             ga_geti := (ga_geti a ++ [(f_name f, args)])%list; ga_seti := ga_seti a;
             ga_methods := (ga_methods a ++ filter (kind_is MGet) (iface_methods v fuel true (f_name f) args))%list |}
      | _ => a
      end
  end.

(* the embedded-entry branch, setter half (`else { continue }` when not assignable) *)
Definition embed_set (pkg : pkg_spec) (v : view) (fuel : nat) (f : field) (a : gs_acc) : gs_acc :=
  match find_iface v (f_name f) false with
  | None => a
  | Some ve =>
      match assignable_to_iface pkg v fuel (f_ty f) ve false with
      | Some (args, true) =>
          {| ga_once := ga_once a; ga_get := ga_get a; ga_set := ga_set a;
             ga_geti := ga_geti a; ga_seti := (ga_seti a ++ [(f_name f, args)])%list;
             ga_methods := (ga_methods a ++ filter (kind_is MSet) (iface_methods v fuel false (f_name f) args))%list |}
      | _ => a
      end
  end.

Definition add_once (n : ident) (a : gs_acc) : gs_acc :=
  {| ga_once := n :: ga_once a; ga_get := ga_get a; ga_set := ga_set a; ga_geti := ga_geti a; ga_seti := ga_seti a;
     ga_methods := ga_methods a |}.

Definition add_get (f : field) (a : gs_acc) : gs_acc :=
  {| ga_once := ga_once a; ga_get := (ga_get a ++ [{| af_name := f_name f; af_ty := f_ty f |}])%list; ga_set := ga_set a;
     ga_geti := ga_geti a; ga_seti := ga_seti a; ga_methods := ga_methods a |}.
Definition add_set (f : field) (a : gs_acc) : gs_acc :=
  {| ga_once := ga_once a; ga_get := ga_get a; ga_set := (ga_set a ++ [{| af_name := f_name f; af_ty := f_ty f |}])%list;
     ga_geti := ga_geti a; ga_seti := ga_seti a; ga_methods := ga_methods a |}.

(* the loop of makeGetSet over g.fields: every NAME is visited once, first occurrence wins *)
Fixpoint make_getset_loop (pkg : pkg_spec) (v : view) (fuel : nat) (getter setter : bool)
         (fields : list field) (a : gs_acc) : gs_acc :=
  match fields with
  | [] => a
  | f :: r =>
      if existsb (String.eqb (f_name f)) (ga_once a) then make_getset_loop pkg v fuel getter setter r a
      else
        let a0 := add_once (f_name f) a in
        if f_embedded f then
          let a1 := if getter then embed_get pkg v fuel f a0 else a0 in
          let a2 := if setter then embed_set pkg v fuel f a1 else a1 in
          make_getset_loop pkg v fuel getter setter r a2
        else
          let a1 := if f_get f && getter then add_get f a0 else a0 in
          let a2 := if f_set f && setter then add_set f a1 else a1 in
          make_getset_loop pkg v fuel getter setter r a2
  end.

Definition make_getset (pkg : pkg_spec) (v : view) (fuel : nat) (fl : ctor_flags) (sd : sdecl) (fields : list field)
  : gs_data :=
  let '(getter, setter) := type_switch fl sd in
  let a := make_getset_loop pkg v fuel getter setter fields empty_gs_acc in
  {| gs_getters := ga_get a; gs_setters := ga_set a; gs_get_ifaces := ga_geti a; gs_set_ifaces := ga_seti a;
     gs_methods := ga_methods a |}.

(* the analysis of one type: flatten, makeGetSet, makeNew *)
Definition getset_of (pkg : pkg_spec) (v : view) (fl : ctor_flags) (fuel : nat) (sd : sdecl)
  : cres (list field * gs_data * new_data) :=
  match flatten pkg fl fuel sd with
  | COk (fields, has_new) => COk (fields, make_getset pkg v fuel fl sd fields, make_new sd has_new fields)
  | CFatal m => CFatal m
  | COutOfFuel => COutOfFuel
  end.

(* ------------------------------------------------------- what the template emits *)
Definition assoc_s (k : ident) (m : list (ident * string)) : string :=
  match assoc k m with Some s => s | None => "" end.

(* accessor methods declared on *T: (name, kind, printed type = TypeMap[field]), {{if .GetSet}} *)
Definition emitted_accessors (fl : ctor_flags) (nd : new_data) (d : gs_data) : list (string * mkind * string) :=
  if fl_getset fl then
    (map (fun a => (getter_name (af_name a), MGet, assoc_s (af_name a) (nd_type_map nd))) (gs_getters d) ++
     map (fun a => (setter_name (af_name a), MSet, assoc_s (af_name a) (nd_type_map nd))) (gs_setters d))%list
  else [].

(* the printed name of an embedded accessor interface: types.TypeString(named, qualifier) *)
Definition iface_ref_string (getter : bool) (ia : ident * list ty) : string :=
  type_string (TNamed "" (fst ia ++ (if getter then "Getter" else "Setter")) (snd ia)).

(* the interface declaration <T>Getter / <T>Setter: None when it is not emitted, else
   (type parameters, embedded interfaces in order, explicit methods in order) *)
Definition emitted_iface (fl : ctor_flags) (nd : new_data) (d : gs_data) (getter : bool)
  : option (list (string * string) * list string * list (string * mkind * string)) :=
  if fl_getset fl && iface_declared getter d then
    Some (tparams_flat (nd_tparams nd),
          map (iface_ref_string getter) (if getter then gs_get_ifaces d else gs_set_ifaces d),
          map (fun a => (if getter then getter_name (af_name a) else setter_name (af_name a),
                         if getter then MGet else MSet, assoc_s (af_name a) (nd_type_map nd)))
              (if getter then gs_getters d else gs_setters d))
  else None.

(* ------------------------------------------------ several types in one run (overlay) *)
Fixpoint view_put (v : view) (e : ventry) : view :=
  match v with
  | [] => [e]
  | x :: r => if String.eqb (ve_name x) (ve_name e) then e :: r else x :: view_put r e
  end.

Definition ventry_of (sd : sdecl) (nd : new_data) (d : gs_data) : ventry :=
  {| ve_name := sd_name sd; ve_tparams := map fst (tparams_flat (nd_tparams nd)); ve_data := d |}.

(* Generate: the types in command-line order; after each type that reports stale (= -getset) its
   output goes into the overlay and the package is loaded again, so later types see it.
   (One output file per type: -type=<list>; the all-in-one modes key the overlay differently,
   finding K_aio_overlay_stale.)  A fatal error of any type ends the run with nothing written. *)
Fixpoint run_getset (pkg : pkg_spec) (fl : ctor_flags) (fuel : nat) (order : list ident) (v : view)
  : cres (list (ident * gs_data * new_data) * view) :=
  match order with
  | [] => COk ([], v)
  | t :: rest =>
      match find_struct pkg "" t with
      | None => CFatal ("type not exists: " ++ t)
      | Some sd =>
          match getset_of pkg v fl fuel sd with
          | COk (_, d, nd) =>
              let v' := if fl_getset fl then view_put v (ventry_of sd nd d) else v in
              match run_getset pkg fl fuel rest v' with
              | COk (out, vf) => COk ((t, d, nd) :: out, vf)
              | CFatal m => CFatal m
              | COutOfFuel => COutOfFuel
              end
          | CFatal m => CFatal m
          | COutOfFuel => COutOfFuel
          end
      end
  end.

(* ------------------------------------------------------- meaning of the accessors *)
(* v.M() / v.SetM(x) on a value of the struct type (or a pointer to it): Go selects the method by
   its rule, the receiver is the embedded struct that declares it, the body reads / assigns the
   field.  A nil embedded pointer on the way is Panic. *)
Definition accessor_path (pm : path * gs_method) : path := (fst pm ++ [gm_field (snd pm)])%list.

Definition call_get (pkg : pkg_spec) (v : view) (fuel : nat) (sd : sdecl) (x : val) (m : string) : res val :=
  match find_method pkg v fuel (self_inst sd) m with
  | Some pm => match gm_kind (snd pm) with MGet => lookup x (accessor_path pm) | _ => Stuck end
  | None => Stuck
  end.

Definition call_set (pkg : pkg_spec) (v : view) (fuel : nat) (sd : sdecl) (x : val) (m : string) (w : val) : res val :=
  match find_method pkg v fuel (self_inst sd) m with
  | Some pm => match gm_kind (snd pm) with MSet => update x (accessor_path pm) w | _ => Stuck end
  | None => Stuck
  end.

(* ------------------------------------------------ the declarative accessor table *)
(* what the field directive calls for: neither word or both words = both *)
Definition dir_get_set (doc : string) : bool * bool :=
  let '(g, s) := parse_getset_comment doc in
  if Bool.eqb g s then (true, true) else (g, s).

(* the accessors the property text grants the field n of declaration fd of struct sd *)
Definition wants (fl : ctor_flags) (sd : sdecl) (fd : fdecl) (n : ident) : bool * bool :=
  if negb (fl_getset fl) then (false, false)
  else if is_exported n then (false, false)
  else (fst (dir_get_set (fd_doc fd)) && fst (type_switch fl sd),
        snd (dir_get_set (fd_doc fd)) && snd (type_switch fl sd)).

Definition spec_accessors (fl : ctor_flags) (sd : sdecl) (getter : bool) : list acc_field :=
  flat_map (fun fd =>
    flat_map (fun n => if (if getter then fst (wants fl sd fd n) else snd (wants fl sd fd n))
                       then [{| af_name := n; af_ty := fd_ty fd |}] else []) (fd_names fd)) (sd_fields sd).

(* "exported field with a directive": the run is refused *)
Definition directive_on_exported (sd : sdecl) : bool :=
  existsb (fun fd => existsb (fun n => is_exported n && negb (excluded_decl fd n) &&
                                       (fst (parse_getset_comment (fd_doc fd)) || snd (parse_getset_comment (fd_doc fd))))
                             (fd_names fd)) (sd_fields sd).

(* the view as the property text sees it: for every struct that was generated before, the
   accessor table (no interfaces): enough to say which method Go selects for a name *)
Definition spec_entry (fl : ctor_flags) (sd : sdecl) : ventry :=
  {| ve_name := sd_name sd; ve_tparams := tparam_names sd;
     ve_data := {| gs_getters := spec_accessors fl sd true; gs_setters := spec_accessors fl sd false;
                   gs_get_ifaces := []; gs_set_ifaces := []; gs_methods := [] |} |}.

(* ------------------------------------------------------------------ guards *)
(* no field of the struct itself is excluded from the constructor: shoot drops such a field
   before it looks at the accessors (finding K_getset_excluded_field) *)
Definition no_excluded_fields (sd : sdecl) : bool := struct_clean sd.

(* no occurrence with the name of a field of the struct itself PRECEDES that field in depth-first declaration
   order (below an embedded field declared before it, or that embedded field itself): makeGetSet visits every
   name once, first occurrence wins (finding K_getset_once_shadow).  A field that shadows a promoted one declared
   AFTER it is fine. *)
Definition own_names (sd : sdecl) : list ident := flat_map fd_names (sd_fields sd).

(* every name that occurs in the closure of an embedded field of type t, the field itself included *)
Definition names_below (pkg : pkg_spec) (fuel : nat) (t : ty) : list ident :=
  short_name t ::
  match struct_of pkg t with
  | Some si => flat_map (fun n => map occ_name (level pkg n si [])) (seq 0 fuel)
  | None => []
  end.

Fixpoint own_first (pkg : pkg_spec) (fuel : nat) (fds : list fdecl) (seen : list ident) : bool :=
  match fds with
  | [] => true
  | fd :: r =>
      match fd_names fd with
      | [] => own_first pkg fuel r (names_below pkg fuel (fd_ty fd) ++ seen)%list
      | ns => forallb (fun n => negb (existsb (String.eqb n) seen)) ns && own_first pkg fuel r seen
      end
  end.

Definition own_names_fresh (pkg : pkg_spec) (fuel : nat) (sd : sdecl) : bool := own_first pkg fuel (sd_fields sd) [].

(* no plain field of the closure carries the name of an embedded struct of the closure (the
   once-per-name visit would then skip the embedded struct, or the field) *)
Definition embedded_names_fresh (pkg : pkg_spec) (fuel : nat) (sd : sdecl) : bool :=
  let occ := all_occ pkg fuel (self_inst sd) in
  let embs := map occ_name (filter (fun o => occ_is_node pkg o) occ) in
  forallb (fun o => occ_is_node pkg o || negb (existsb (String.eqb (occ_name o)) embs)) occ.

(* every member name (field, embedded field, accessor method) in the embedding closure *)
Definition struct_occs (pkg : pkg_spec) (fuel : nat) (sd : sdecl) : list (path * sinst) :=
  ([], self_inst sd) ::
  flat_map (fun o => if occ_emb o then match struct_of pkg (occ_ty o) with
                                       | Some si => [(fst o, si)]
                                       | None => [] end
                     else []) (all_occ pkg fuel (self_inst sd)).

Definition member_names (pkg : pkg_spec) (v : view) (fuel : nat) (sd : sdecl) : list string :=
  (map occ_name (all_occ pkg fuel (self_inst sd)) ++
   flat_map (fun ps => map gm_name (own_methods v (snd ps))) (struct_occs pkg fuel sd))%list.

Definition count_str (x : string) (l : list string) : nat := length (filter (String.eqb x) l).

(* every accessor method name of the closure is the name of exactly one member: no accessor is
   hidden by a field, clashes with another accessor, or is ambiguous *)
Definition accessor_names_unique (pkg : pkg_spec) (v : view) (fuel : nat) (sd : sdecl) : bool :=
  let ms := member_names pkg v fuel sd in
  forallb (fun ps => forallb (fun m => Nat.eqb (count_str (gm_name m) ms) 1) (own_methods v (snd ps)))
          (struct_occs pkg fuel sd).

(* accessor names are non-empty exported identifiers *)
Definition accessor_fields_ok (fl : ctor_flags) (sd : sdecl) : bool :=
  forallb (fun a => match af_name a with
                    | String c _ => is_lower c
                    | EmptyString => false end)
          (spec_accessors fl sd true ++ spec_accessors fl sd false).

(* no accessor is named like a method the template declares anyway (finding K_ctor_method_name_collision: a field
   `shootNew`, or `with` / `setDefault` under -opt, `marshalJSON` under -json: method declared twice) *)
Definition reserved_methods : list string := ["ShootNew"; "With"; "SetDefault"; "MarshalJSON"; "UnmarshalJSON"].
Definition accessor_names_free (fl : ctor_flags) (sd : sdecl) : bool :=
  forallb (fun a => negb (existsb (String.eqb (getter_name (af_name a))) reserved_methods))
          (spec_accessors fl sd true) &&
  forallb (fun a => negb (existsb (String.eqb (setter_name (af_name a))) reserved_methods))
          (spec_accessors fl sd false).

Definition c03_guard (pkg : pkg_spec) (fl : ctor_flags) (fuel : nat) (sd : sdecl) : bool :=
  c02_guard pkg fuel sd && no_excluded_fields sd && own_names_fresh pkg fuel sd &&
  embedded_names_fresh pkg fuel sd && accessor_fields_ok fl sd && accessor_names_free fl sd.

(* the type the template prints for a field of the struct itself (TypeMap): qualifiedName strips the
   leading stars of the printed type and remembers whether there was one *)
Definition star_of_ty (t : ty) : string :=
  let '(qn, isptr) := qualified_name t in (if isptr then "*" else "") ++ qn.

(* the accessor names of the struct itself are pairwise distinct and no field of the struct carries one *)
Definition own_accessor_names (fl : ctor_flags) (sd : sdecl) : list string :=
  (map (fun a => getter_name (af_name a)) (spec_accessors fl sd true) ++
   map (fun a => setter_name (af_name a)) (spec_accessors fl sd false))%list.
Definition own_accessor_names_ok (fl : ctor_flags) (sd : sdecl) : bool :=
  nodup_str (own_accessor_names fl sd) &&
  forallb (fun n => negb (existsb (fun tf : tfield => String.eqb (fst (fst tf)) n) (struct_fields (self_inst sd))))
          (own_accessor_names fl sd).

(* ---------------------------------------------- guards of the "*T satisfies" theorem *)
(* no accessor of the embedding closure is hidden on *T: each is selected by its own name (no field or
   shallower / same-depth method of that name), with its own signature *)
Definition accessors_visible (pkg : pkg_spec) (v : view) (fuel : nat) (sd : sdecl) : bool :=
  forallb (fun ps : path * sinst =>
             forallb (fun m => match find_method pkg v (S fuel) (self_inst sd) (gm_name m) with
                               | Some pm => sig_eqb m (snd pm)
                               | None => false end) (own_methods v (snd ps)))
          (struct_occs pkg fuel sd).

(* the struct is not one of its own embedded structs (acyclic embedding) *)
Definition not_self_embedded (pkg : pkg_spec) (fuel : nat) (sd : sdecl) : bool :=
  forallb (fun o => match (if occ_emb o then struct_of pkg (occ_ty o) else None) with
                    | Some (sd', _) => negb (String.eqb (sd_pkg sd') "" && String.eqb (sd_name sd') (sd_name sd))
                    | None => true end)
          (all_occ pkg fuel (self_inst sd)).

(* the interface <e>Getter (<e>Setter) of the view has a nesting depth below fuel and does not, transitively,
   embed the interface of t (false when the fuel runs out: the guard really bounds the view) *)
Fixpoint iface_ok (v : view) (fuel : nat) (getter : bool) (t e : ident) : bool :=
  match fuel with
  | O => false
  | S fuel' =>
      negb (String.eqb e t) &&
      match find_ventry v e with
      | None => true
      | Some ve => forallb (fun ia : ident * list ty => iface_ok v fuel' getter t (fst ia))
                           (if getter then gs_get_ifaces (ve_data ve) else gs_set_ifaces (ve_data ve))
      end
  end.

(* ... for the interfaces of every embedded struct of the closure: a condition on the INPUT (package view and
   struct graph) *)
Definition view_ok (pkg : pkg_spec) (v : view) (fuel : nat) (sd : sdecl) : bool :=
  forallb (fun o => negb (occ_is_node pkg o) ||
                    (iface_ok v fuel true (sd_name sd) (occ_name o) && iface_ok v fuel false (sd_name sd) (occ_name o)))
          (all_occ pkg fuel (self_inst sd)).
