(* Model of `shoot new -json`:
     makeJson                                  json.go:11-93 (tag transform, needJSON, JSONList, JSONTagMap,
                                               JSONGetterList / JSONSetterList incl. promoted accessors found by NAME in
                                               g.getsetMethods, ExportedList)
     the JSON part of constructor.tmpl          lines 94-128: the shadow struct _json_T, MarshalJSON (getters and exported
                                               fields into the shadow struct), UnmarshalJSON (setters and exported fields
                                               out of it)
   written literally, plus the meaning of the emitted MarshalJSON / UnmarshalJSON on Base/GoVal values, with
   encoding/json reduced to "an object is an association list of (key, value)" (the laws it needs are Section
   variables of the proofs), the declarative key table of the property text and the decidable guards.
   No proofs in this file. *)
From Coq Require Import String Ascii List Bool Arith ZArith.
From Shoot Require Import Base.Str Base.GoVal Model.Transfer Model.CtorDirective Model.Ctor Model.CtorSpec Model.CtorOpt
                          Model.CtorGetSet.
Import ListNotations.
Local Open Scope string_scope.

(* the -tagcase transform (camel is the default) *)
Definition tag_trans (tc : tagcase) (s : string) : string :=
  match tc with
  | TagPascal => to_pascal_case s
  | TagCamel => to_camel_case s
  | TagLower => lower s
  | TagUpper => upper s
  end.

Record json_data := {
  jd_json : bool;                       (* JSON: the JSON part is emitted at all *)
  jd_list : list ident;                 (* JSONList *)
  jd_tags : list (ident * string);      (* JSONTagMap *)
  jd_getters : list ident;              (* JSONGetterList *)
  jd_setters : list ident;              (* JSONSetterList *)
  jd_exported : list ident              (* ExportedList *)
}.

Definition empty_json : json_data :=
  {| jd_json := false; jd_list := []; jd_tags := []; jd_getters := []; jd_setters := []; jd_exported := [] |}.

(* shoot.Func.IsGetter / IsSetter on the collected methods, looked up by name (allGetSet / allSetSet) *)
Definition all_get_has (ms : list gs_method) (name : string) : bool :=
  existsb (fun m => mkind_eqb (gm_kind m) MGet && String.eqb (gm_name m) name) ms.
Definition all_set_has (ms : list gs_method) (name : string) : bool :=
  existsb (fun m => mkind_eqb (gm_kind m) MSet && String.prefix "Set" (gm_name m) && String.eqb (gm_name m) name) ms.

Definition has_json_tag (f : field) : bool := negb (String.eqb (f_jsontag f) "").

(* the tag of the shadow-struct field: the explicit tag as written, else the transformed field name *)
Definition json_tag_of (tc : tagcase) (f : field) : string :=
  if has_json_tag f then f_jsontag f else tag_trans tc (f_name f).

Definition field_has_getter (G : bool) (ms : list gs_method) (f : field) : bool :=
  (f_get f && G) || all_get_has ms (to_pascal_case (f_name f)).
Definition field_has_setter (S : bool) (ms : list gs_method) (f : field) : bool :=
  (f_set f && S) || all_set_has ms ("Set" ++ to_pascal_case (f_name f)).

(* the loop of makeJson over g.fields *)
Fixpoint make_json_loop (tc : tagcase) (G S : bool) (ms : list gs_method) (fields : list field) (a : json_data) : json_data :=
  match fields with
  | [] => a
  | f :: r =>
      if f_shadowed f || f_embedded f then make_json_loop tc G S ms r a
      else if String.eqb (f_jsontag f) "-" then make_json_loop tc G S ms r a   (* encoding/json ignores the field *)
      else
        let exp := is_exported (f_name f) in
        let gt := field_has_getter G ms f in
        let st := field_has_setter S ms f in
        let need := if exp then negb (has_json_tag f) && negb (String.eqb (json_tag_of tc f) (f_name f))
                    else gt || st in
        make_json_loop tc G S ms r
          {| jd_json := jd_json a || need;
             jd_list := if exp || gt || st then (jd_list a ++ [f_name f])%list else jd_list a;
             jd_tags := map_put (f_name f) (json_tag_of tc f) (jd_tags a);
             jd_getters := if negb exp && gt then (jd_getters a ++ [f_name f])%list else jd_getters a;
             jd_setters := if negb exp && st then (jd_setters a ++ [f_name f])%list else jd_setters a;
             jd_exported := if exp then (jd_exported a ++ [f_name f])%list else jd_exported a |}
  end.

Definition make_json (fl : ctor_flags) (sd : sdecl) (d : gs_data) (fields : list field) : json_data :=
  if fl_json fl then
    make_json_loop (fl_tagcase fl) (fst (type_switch fl sd)) (snd (type_switch fl sd)) (gs_methods d) fields empty_json
  else empty_json.

(* the whole analysis for -json: flatten, makeGetSet, makeNew, makeJson *)
Definition json_of (pkg : pkg_spec) (v : view) (fl : ctor_flags) (fuel : nat) (sd : sdecl)
  : cres (list field * gs_data * new_data * json_data) :=
  match getset_of pkg v fl fuel sd with
  | COk (fields, d, nd) => COk (fields, d, nd, make_json fl sd d fields)
  | CFatal m => CFatal m
  | COutOfFuel => COutOfFuel
  end.

(* ------------------------------------------------------- what the template emits *)
(* the shadow struct _json_T: (Go field name, printed type, struct tag text), {{if .JSON}} *)
Definition shadow_struct (nd : new_data) (jd : json_data) : list (string * string * string) :=
  if jd_json jd then
    map (fun f => (to_pascal_case f, assoc_s f (nd_type_map nd),
                   let t := assoc_s f (jd_tags jd) in
                   if String.eqb t "" then "" else "json:" ++ String (ascii_of_nat 34) (t ++ String (ascii_of_nat 34) "")))
        (jd_list jd)
  else [].

(* ------------------------------------------------------- meaning of the emitted code *)
(* encoding/json: the member name is the tag up to the first comma, the Go field name when that is empty;
   a tag that is exactly "-" drops the field *)
Definition tag_key (tag : string) : string := hd "" (split_c ","%char tag).
Definition json_key (jd : json_data) (f : ident) : string :=
  let t := assoc_s f (jd_tags jd) in
  if String.eqb (tag_key t) "" then to_pascal_case f else tag_key t.
Definition json_dropped (jd : json_data) (f : ident) : bool := String.eqb (assoc_s f (jd_tags jd)) "-".

(* the option omitempty: the member is left out when the value is the zero value of its type *)
Definition tag_options (tag : string) : list string := tl (split_c ","%char tag).
Definition tag_omitempty (tag : string) : bool := existsb (String.eqb "omitempty") (tag_options tag).
Definition is_vzero (y : val) : bool := match y with VZero => true | _ => false end.
Definition json_omitted (jd : json_data) (f : ident) (y : val) : bool :=
  tag_omitempty (assoc_s f (jd_tags jd)) && is_vzero y.
Definition json_kept (jd : json_data) (p : ident * val) : bool :=
  negb (json_dropped jd (fst p)) && negb (json_omitted jd (fst p) (snd p)).

Definition mem_str (x : string) (l : list string) : bool := existsb (String.eqb x) l.

(* the value MarshalJSON puts into the shadow-struct field of f: the getter's result, the exported field
   itself, or nothing (the zero value) *)
Definition marshal_field (pkg : pkg_spec) (v : view) (fuel : nat) (sd : sdecl) (jd : json_data) (x : val) (f : ident) : res val :=
  if mem_str f (jd_getters jd) then call_get pkg v fuel sd x (to_pascal_case f)
  else if mem_str f (jd_exported jd) then
    match resolve pkg fuel sd f with Some p => lookup x p | None => Stuck end
  else Ok VZero.

Fixpoint marshal_fields (pkg : pkg_spec) (v : view) (fuel : nat) (sd : sdecl) (jd : json_data) (x : val) (fs : list ident)
  : res (list (ident * val)) :=
  match fs with
  | [] => Ok []
  | f :: r => bind (marshal_field pkg v fuel sd jd x f) (fun y =>
              bind (marshal_fields pkg v fuel sd jd x r) (fun ys => Ok ((f, y) :: ys)))
  end.

(* MarshalJSON: the shadow struct filled in, as the JSON object json.Marshal makes of it (member order = JSONList) *)
Definition marshal (pkg : pkg_spec) (v : view) (fuel : nat) (sd : sdecl) (jd : json_data) (x : val) : res (list (string * val)) :=
  bind (marshal_fields pkg v fuel sd jd x (jd_list jd)) (fun fy =>
    Ok (map (fun p : ident * val => (json_key jd (fst p), snd p)) (filter (json_kept jd) fy))).

(* the shadow struct after json.Unmarshal(data, &x): each field holds the member of its key, else zero *)
Definition shadow_value (jd : json_data) (kv : list (string * val)) (f : ident) : val :=
  if json_dropped jd f then VZero
  else match assoc (json_key jd f) kv with Some y => y | None => VZero end.

Fixpoint unmarshal_setters (pkg : pkg_spec) (v : view) (fuel : nat) (sd : sdecl) (jd : json_data) (kv : list (string * val))
         (fs : list ident) (w : val) : res val :=
  match fs with
  | [] => Ok w
  | f :: r => bind (call_set pkg v fuel sd w ("Set" ++ to_pascal_case f) (shadow_value jd kv f))
                   (unmarshal_setters pkg v fuel sd jd kv r)
  end.

Fixpoint unmarshal_exported (pkg : pkg_spec) (fuel : nat) (sd : sdecl) (jd : json_data) (kv : list (string * val))
         (fs : list ident) (w : val) : res val :=
  match fs with
  | [] => Ok w
  | f :: r => bind (assign pkg fuel sd w f (shadow_value jd kv f)) (unmarshal_exported pkg fuel sd jd kv r)
  end.

(* UnmarshalJSON: the setters in JSONSetterList order, then the exported fields *)
Definition unmarshal (pkg : pkg_spec) (v : view) (fuel : nat) (sd : sdecl) (jd : json_data) (kv : list (string * val)) (w : val)
  : res val :=
  bind (unmarshal_setters pkg v fuel sd jd kv (jd_setters jd) w) (unmarshal_exported pkg fuel sd jd kv (jd_exported jd)).

(* ------------------------------------------------ the declarative key table *)
(* the explicit json tag of a field declaration *)
Definition decl_json_tag (fd : fdecl) : string :=
  match fd_tag fd with Some t => parse_json_tag t | None => "" end.

Definition tag_in_decls (sd' : sdecl) (n : ident) : string :=
  match find (decl_has_name n) (sd_fields sd') with
  | Some fd => match fd_names fd with [] => "" | _ => decl_json_tag fd end
  | None => ""
  end.

(* the struct that declares the leaf at path p: T itself for a field of T, else the struct of the embedded
   occurrence the leaf hangs under *)
Definition declaring_struct (pkg : pkg_spec) (fuel : nat) (sd : sdecl) (p : path) : option sdecl :=
  match p with
  | [] => None
  | [_] => Some sd
  | _ => match find_occ (removelast p) (all_occ pkg fuel (self_inst sd)) with
         | Some o => if occ_emb o then option_map fst (struct_of pkg (occ_ty o)) else None
         | None => None
         end
  end.

(* the explicit json tag the DECLARATION of the leaf at path p carries (in whatever struct declares it) *)
Definition spec_tag (pkg : pkg_spec) (fuel : nat) (sd : sdecl) (p : path) : string :=
  match declaring_struct pkg fuel sd p with
  | Some sd' => tag_in_decls sd' (last p "")
  | None => ""
  end.

(* the tag text the property gives the field at leaf path p: the explicit tag, else the transformed name *)
Definition spec_key_tag (pkg : pkg_spec) (fl : ctor_flags) (fuel : nat) (sd : sdecl) (p : path) : string :=
  let t := if fl_json fl then spec_tag pkg fuel sd p else "" in
  if String.eqb t "" then tag_trans (fl_tagcase fl) (last p "") else t.

(* ... and the member name encoding/json derives from it *)
Definition spec_member (pkg : pkg_spec) (fl : ctor_flags) (fuel : nat) (sd : sdecl) (p : path) : string :=
  let t := spec_key_tag pkg fl fuel sd p in
  if String.eqb (tag_key t) "" then to_pascal_case (last p "") else tag_key t.

(* ------------------------------------------------------------------ guards *)
(* exported fields keep their name under Pascal-casing.  No longer part of the guard: the template used to name the
   shadow-struct field F instead of Pascal(F) (finding K_json_exported_snake, repaired in /repo d93a0ce); kept as a
   vocabulary item for the regression example *)
Definition exported_names_pascal (pkg : pkg_spec) (fuel : nat) (sd : sdecl) : bool :=
  forallb (fun p => let n := last p "" in negb (is_exported n) || String.eqb (to_pascal_case n) n)
          (selectable_leaves pkg fuel sd).

(* no field below the top level carries a json tag (it is lost: finding K_json_promoted_tag_lost) *)
Definition struct_no_json_tags (sd' : sdecl) : bool :=
  forallb (fun fd => String.eqb (decl_json_tag fd) "") (sd_fields sd').
Definition no_promoted_json_tags (pkg : pkg_spec) (fuel : nat) (sd : sdecl) : bool :=
  forallb (fun o => if occ_emb o then match struct_of pkg (occ_ty o) with
                                      | Some (sd', _) => struct_no_json_tags sd'
                                      | None => true end
                    else true) (all_occ pkg fuel (self_inst sd)).

(* explicit tags carry no option other than omitempty (`string` re-encodes the value: not modelled) *)
Definition plain_tag (t : string) : bool := forallb (String.eqb "omitempty") (tag_options t).
Definition plain_json_tags (sd : sdecl) : bool := forallb (fun fd => plain_tag (decl_json_tag fd)) (sd_fields sd).

(* the member names are non-empty and pairwise distinct even under case folding (encoding/json matches keys
   case-insensitively and drops fields whose names collide), and no listed field's tag text is "-" *)
Definition json_keys_ok (jd : json_data) : bool :=
  let ks := map (fun f => lower (json_key jd f)) (jd_list jd) in
  nodup_str ks && forallb (fun k => negb (String.eqb k "")) ks &&
  forallb (fun f => negb (json_dropped jd f)) (jd_list jd).

Definition c11_guard (pkg : pkg_spec) (fl : ctor_flags) (fuel : nat) (sd : sdecl) : bool :=
  c03_guard pkg fl fuel sd && no_promoted_json_tags pkg fuel sd && plain_json_tags sd.

(* ------------------------------------------------ guards of the round-trip theorem *)
Definition json_path (pkg : pkg_spec) (fuel : nat) (sd : sdecl) (f : ident) : path :=
  match resolve pkg fuel sd f with Some p => p | None => [] end.

(* the accessors the JSON code calls for a field are the accessors of THAT field: Go selects Pascal(f) / Set+Pascal(f)
   on *T to a getter / setter whose field is the one the bare name f selects *)
Definition accessor_of_field (pkg : pkg_spec) (v : view) (fuel : nat) (sd : sdecl) (getter : bool) (f : ident) : bool :=
  match find_method pkg v fuel (self_inst sd) (if getter then to_pascal_case f else "Set" ++ to_pascal_case f),
        resolve pkg fuel sd f with
  | Some pm, Some p => mkind_eqb (gm_kind (snd pm)) (if getter then MGet else MSet) && path_eqb (accessor_path pm) p
  | _, _ => false
  end.

Definition json_aligned (pkg : pkg_spec) (v : view) (fuel : nat) (sd : sdecl) (jd : json_data) : bool :=
  forallb (accessor_of_field pkg v fuel sd true) (jd_getters jd) &&
  forallb (accessor_of_field pkg v fuel sd false) (jd_setters jd) &&
  forallb (fun f => existsb (path_eqb (json_path pkg fuel sd f)) (leaf_paths pkg fuel (self_inst sd) []) &&
                    is_some (resolve pkg fuel sd f)) (jd_list jd) &&
  forallb (fun f => negb (mem_str f (jd_exported jd))) (jd_getters jd) &&
  forallb (fun f => negb (mem_str f (jd_exported jd))) (jd_setters jd) &&
  forallb (fun f => mem_str f (jd_list jd)) (jd_getters jd ++ jd_setters jd ++ jd_exported jd)%list &&
  nodup_str (jd_setters jd ++ jd_exported jd)%list.
