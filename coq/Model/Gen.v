(* Model of one shoot run at the level C08 / C07 speak about:

     cmd/shoot/main.go                    write loop over the source map, Clean
     internal/shoot/generatorbase.go      Generate (per-type loop, overlay reload), confirmTypes,
                                          getGoFile, fileName, LoadPackage/allInOneFile, Clean
     internal/shoot/source.go             MergeSources (header of the first, import union, declarations
                                          in order with the comments attached by byte distance), FormatSrc
     internal/constructor/*.go            MakeData of `new`  and every field of constructor.Generator
     internal/enumer/*.go                 MakeData of `enum` and the valueof/strof closures
     internal/restclient/*.go             MakeData of `rest` (cookClient: alias reversal, headers)
     internal/mapper/*.go                 MakeData of `map`  and every field of mapper.Generator
     internal/shoot/getsetiface.go        FindGetterSetterIfac / AssignableToIface / ParseGetSetIface

   What is literal here: the generator objects are long-lived records whose
   components are overwritten field by field at the places where the Go code
   does it (so that a dropped reset in the code has a counterpart here), the
   package the analysis sees is  hand-written files + generated files on disk,
   with the overlay replacing/adding files, sorted by file name (go list), every Go
   `range` over a map goes through an iteration oracle, and MergeSources works
   on declarations.  What is abstract: a generated declaration is a name, a
   kind (with the payload later analyses read back: accessor interfaces,
   constructor parameters), "has a doc comment", "ends with an inner comment
   less than 10 bytes before its end" (the /*noop*/ bodies), the import paths
   its text needs (what goimports keeps/adds) and a list of tokens standing for
   its text.  gofmt/goimports printing is not modelled.
   No proofs in this file. *)
From Coq Require Import List String Ascii Bool Arith ZArith.
Import ListNotations.
Local Open Scope string_scope.
Local Notation "a +++ b" := (@List.app _ a b) (at level 60, right associativity).

(* ------------------------------------------------------------------ *)
(* utilities                                                           *)

Definition smem (x : string) (l : list string) : bool := existsb (String.eqb x) l.

(* first occurrences, in order *)
Fixpoint dedup (l : list string) : list string :=
  match l with
  | [] => []
  | x :: r => x :: filter (fun y => negb (y =? x)) (dedup r)
  end.

(* a Go map with string keys: association list with pairwise distinct keys (insertion order is
   NOT observable: every `range` goes through an oracle) *)
Fixpoint alookup {A : Type} (k : string) (m : list (string * A)) : option A :=
  match m with
  | [] => None
  | (k', v) :: r => if k' =? k then Some v else alookup k r
  end.
Fixpoint upsert {A : Type} (k : string) (v : A) (m : list (string * A)) : list (string * A) :=
  match m with
  | [] => [(k, v)]
  | (k', v') :: r => if k' =? k then (k, v) :: r else (k', v') :: upsert k v r
  end.
Definition ahas {A : Type} (k : string) (m : list (string * A)) : bool :=
  match alookup k m with Some _ => true | None => false end.
Definition sadd (k : string) (s : list string) : list string := if smem k s then s else s ++ [k].

(* byte order of Go strings (sort.Strings, go list's file order) *)
Fixpoint codes (s : string) : list nat :=
  match s with
  | EmptyString => []
  | String c r => nat_of_ascii c :: codes r
  end.
Fixpoint lex_leb (a b : list nat) : bool :=
  match a, b with
  | [], _ => true
  | _ :: _, [] => false
  | x :: a', y :: b' => if Nat.ltb x y then true else if Nat.ltb y x then false else lex_leb a' b'
  end.
Definition sleb (a b : string) : bool := lex_leb (codes a) (codes b).

Section Sort.
  Context {A : Type} (leb : A -> A -> bool).
  Fixpoint insert (x : A) (l : list A) : list A :=
    match l with
    | [] => [x]
    | y :: r => if leb x y then x :: l else y :: insert x r
    end.
  Fixpoint isort (l : list A) : list A :=
    match l with
    | [] => []
    | x :: r => insert x (isort r)
    end.
End Sort.
Definition sort_strings : list string -> list string := isort sleb.
Definition sort_by_key {A : Type} (key : A -> string) : list A -> list A :=
  isort (fun a b => sleb (key a) (key b)).

(* a Go `range` over a map visits the entries in an arbitrary order *)
Definition oracle := forall A : Type, list A -> list A.
Definition id_oracle : oracle := fun _ l => l.
Definition rev_oracle : oracle := fun _ l => rev l.

Fixpoint chars (s : string) : list ascii :=
  match s with EmptyString => [] | String c r => c :: chars r end.
Fixpoint prefix_l (p s : list ascii) : bool :=
  match p, s with
  | [], _ => true
  | _ :: _, [] => false
  | x :: p', y :: s' => Ascii.eqb x y && prefix_l p' s'
  end.
Definition ends_with (suf s : string) : bool := prefix_l (rev (chars suf)) (rev (chars s)).

Definition up_c (c : ascii) : ascii :=
  let n := nat_of_ascii c in if Nat.leb 97 n && Nat.leb n 122 then ascii_of_nat (n - 32) else c.
Definition lo_c (c : ascii) : ascii :=
  let n := nat_of_ascii c in if Nat.leb 65 n && Nat.leb n 90 then ascii_of_nat (n + 32) else c.
Fixpoint lower (s : string) : string :=
  match s with EmptyString => EmptyString | String c r => String (lo_c c) (lower r) end.
(* transfer.ToPascalCase / ToCamelCase / ToCamelCaseGO / FirstLowerLetter on the identifiers of this
   grammar (no underscore, at most the first letter upper case): first letter up / down *)
Definition pascal (s : string) : string :=
  match s with EmptyString => EmptyString | String c r => String (up_c c) r end.
Definition camel (s : string) : string :=
  match s with EmptyString => EmptyString | String c r => String (lo_c c) r end.
Definition first_lower (s : string) : string :=
  match s with EmptyString => EmptyString | String c _ => String (lo_c c) EmptyString end.
Definition is_exported (s : string) : bool :=
  match s with
  | EmptyString => false
  | String c _ => let n := nat_of_ascii c in Nat.leb 65 n && Nat.leb n 90
  end.
Definition has_prefix (p s : string) : bool := String.prefix p s.
Fixpoint contains_l (sub s : list ascii) : bool :=
  prefix_l sub s || match s with [] => false | _ :: s' => contains_l sub s' end.
Definition contains (sub s : string) : bool := contains_l (chars sub) (chars s).
Fixpoint trim_go (s : string) : string :=     (* strings.TrimSuffix(s, ".go") *)
  match s with
  | EmptyString => EmptyString
  | String c r => if s =? ".go" then EmptyString else String c (trim_go r)
  end.
Definition trim_prefix (p s : string) : string :=
  if String.prefix p s then String.substring (String.length p) (String.length s - String.length p) s else s.
Definition bstr (b : bool) : string := if b then "1" else "0".
Definition join (sep : string) (l : list string) : string := String.concat sep l.

(* ------------------------------------------------------------------ *)
(* generated files, abstractly                                         *)

Inductive dkind :=
| KFunc
| KCtor (params : list (string * string * string * string))  (* NewT: (param, type, field, path) *)
| KMethod (recv : string)
| KType
| KIface (embeds : list string) (getters setters : list (string * string))   (* own methods with their type *)
| KValue.

Record adecl := {
  d_name : string;           (* NewT, T.Method, TGetter, _t_values, init, ... *)
  d_kind : dkind;
  d_doc : bool;              (* carries a doc comment *)
  d_tail : bool;             (* contains a comment ending less than 10 bytes before its end: { /*noop*/ } *)
  d_needs : list string;     (* import paths its text refers to *)
  d_toks : list string       (* stands for the text *)
}.

Record afile := {
  a_cmd : string;            (* the header line: // Code generated by "<cmd>"; DO NOT EDIT. *)
  a_imports : list string;
  a_decls : list adecl;
  a_stray : list string      (* free-floating comments: name of the declaration each one precedes *)
}.

(* FormatSrc: goimports leaves exactly the imports the declarations need *)
Definition needs_of (ds : list adecl) : list string := dedup (flat_map d_needs ds).
Definition mk_file (cmdline : string) (ds : list adecl) : afile :=
  {| a_cmd := cmdline; a_imports := needs_of ds; a_decls := ds; a_stray := [] |}.

(* source.go attachCommentsForDecl: besides the comments inside a declaration, every comment group of
   the same file that ends less than 10 bytes before the declaration starts is printed with it.  A doc
   comment is such a group; so is a comment at the very end of the previous declaration when this
   declaration has no doc comment of its own (`{ /*noop*/ }` + blank line + `func init()`). *)
Fixpoint strays (ds : list adecl) : list string :=
  match ds with
  | d1 :: ((d2 :: _) as r) => (if d_tail d1 && negb (d_doc d2) then [d_name d2] else []) ++ strays r
  | _ => []
  end.

(* source.go MergeSources *)
Definition merge (fs : list afile) : option afile :=
  match fs with
  | [] => None
  | f0 :: _ =>
      Some {| a_cmd := a_cmd f0;
              a_imports := dedup (flat_map a_imports fs);
              a_decls := flat_map a_decls fs;
              a_stray := flat_map (fun f => strays (a_decls f)) fs |}
  end.

(* ------------------------------------------------------------------ *)
(* hand-written packages (the compact grammar of harness/histgen.py)   *)

Record sfield := {
  sf_name : string;
  sf_ty : string;            (* printed type without a leading star *)
  sf_ptr : bool;
  sf_hasdoc : bool;          (* the field has a doc comment (directives are read from it) *)
  sf_dget : bool; sf_dset : bool; sf_dnew : bool;   (* shoot: get / set / new in the doc *)
  sf_def : string;           (* shoot: def=... *)
  sf_newskip : bool;         (* `_` prefix or new:"-" *)
  sf_jsontag : string;
  sf_maptag : string
}.

Inductive sitem :=
| IField (f : sfield)
| IEmbed (tname : string) (ptr : bool) (dnew : bool).

Record sstruct := {
  ss_name : string;
  ss_tparams : list (string * string);          (* [T any, K comparable]: (names of the group, constraint identifier) *)
  ss_hasdoc : bool; ss_dgetter : bool; ss_dsetter : bool;   (* type-level shoot: getter / setter *)
  ss_items : list sitem
}.

Inductive rkind := RCtx | RScalar | RStruct (tname : string) | RMap.
Record rparam := { rp_name : string; rp_ty : string; rp_kind : rkind; rp_ptr : bool }.
Record rmethod := {
  rm_name : string;
  rm_hasdoc : bool;
  rm_verb : string;                      (* GET POST PUT PATCH DELETE *)
  rm_path : string;
  rm_pparams : list string;              (* {placeholders} of the path, in order *)
  rm_alias : list (string * string);     (* alias={k:v},... as written *)
  rm_params : list rparam;
  rm_result : string;                    (* printed first result, "" if none *)
  rm_result_ptr : bool
}.
Record riface := { ri_name : string; ri_headers : list (string * string); ri_methods : list rmethod }.

Inductive hdecl :=
| HStruct (s : sstruct)
| HInt (name : string)                                  (* type name int *)
| HConsts (ty : string) (cs : list (string * Z))        (* const ( A ty = v ; ... ) *)
| HIface (r : riface)                                   (* interface embedding shoot.RestClient *)
| HFuncs (recv : string) (fs : list (string * string * string))   (* methods (name, param type, result type) of an empty struct *)
| HOther (name : string).                               (* anything no subcommand looks at *)

Record hfile := {
  h_name : string;
  h_imports : list string;
  h_gen : list string;           (* the //go:generate lines *)
  h_decls : list hdecl
}.

(* a file of the package as the loader sees it *)
Inductive fcontent := FHand (h : hfile) | FGen (a : afile).
Definition vfile := (string * fcontent)%type.
Definition view := list vfile.           (* sorted by file name *)

Definition gfiles := list (string * afile).

(* packages.Load with an overlay: an overlay entry replaces the file of the same name or adds one *)
Definition overlay_apply (disk overlay : gfiles) : gfiles :=
  fold_left (fun d e => upsert (fst e) (snd e) d) overlay disk.
Definition mk_view (hw : list hfile) (disk overlay : gfiles) : view :=
  sort_by_key fst (map (fun h => (h_name h, FHand h)) hw ++
                   map (fun e => (fst e, FGen (snd e))) (overlay_apply disk overlay)).

Definition hand_decls (v : view) : list (string * hfile * hdecl) :=
  flat_map (fun f => match snd f with
                     | FHand h => map (fun d => (fst f, h, d)) (h_decls h)
                     | FGen _ => []
                     end) v.
Definition gen_decls (v : view) : list adecl :=
  flat_map (fun f => match snd f with FGen a => a_decls a | FHand _ => [] end) v.

(* what the analyses read of the loaded package: the declarations of the hand-written files and the
   declarations of the generated files, each in package (file name) order *)
Record pview := { pv_hand : list (string * hfile * hdecl); pv_gen : list adecl }.
Definition pview_of (v : view) : pview := {| pv_hand := hand_decls v; pv_gen := gen_decls v |}.

Definition find_struct (v : pview) (T : string) : option (string * hfile * sstruct) :=
  match find (fun x => match x with (_, _, HStruct s) => ss_name s =? T | _ => false end) (pv_hand v) with
  | Some (fn, h, HStruct s) => Some (fn, h, s)
  | _ => None
  end.

(* package-scope type names with the file declaring them (types.Info.Defs restricted to what
   getGoFile accepts), generated files included *)
Definition hdecl_types (d : hdecl) : list string :=
  match d with
  | HStruct s => [ss_name s]
  | HInt n => [n]
  | HIface r => [ri_name r]
  | _ => []
  end.
Definition adecl_types (d : adecl) : list string :=
  match d_kind d with
  | KType => [d_name d]
  | KIface _ _ _ => [d_name d]
  | _ => []
  end.
Definition type_defs (v : view) : list (string * string) :=    (* (type, file) *)
  flat_map (fun f => match snd f with
                     | FHand h => map (fun t => (t, fst f)) (flat_map hdecl_types (h_decls h))
                     | FGen a => map (fun t => (t, fst f)) (flat_map adecl_types (a_decls a))
                     end) v.

(* generatorbase.go getGoFile: the first matching entry of the Defs map, in map order *)
Definition get_go_file (o : oracle) (v : view) (T : string) : string :=
  match find (fun e => fst e =? T) (o _ (type_defs v)) with
  | Some e => snd e
  | None => ""
  end.

(* ---- generated accessor interfaces read back from the package (getsetiface.go) ---- *)

Definition find_iface (v : pview) (n : string) : option (list string * list (string * string) * list (string * string)) :=
  match find (fun d => (d_name d =? n) && match d_kind d with KIface _ _ _ => true | _ => false end) (pv_gen v) with
  | Some d => match d_kind d with KIface e g s => Some (e, g, s) | _ => None end
  | None => None
  end.

(* the complete method set of interface n (own and embedded), as (name, type, is_setter) *)
Fixpoint iface_methods (fuel : nat) (v : pview) (n : string) : list (string * string * bool) :=
  match fuel with
  | O => []
  | S f =>
      match find_iface v n with
      | None => []
      | Some (e, g, s) =>
          flat_map (iface_methods f v) e ++ map (fun m => (fst m, snd m, false)) g ++ map (fun m => (fst m, snd m, true)) s
      end
  end.
Definition view_fuel (v : pview) : nat := S (List.length (pv_gen v)).

(* methods with receiver T declared in generated files *)
Definition methods_of (v : pview) (T : string) : list string :=
  flat_map (fun d => match d_kind d with
                     | KMethod r => if r =? T then [d_name d] else []
                     | _ => []
                     end) (pv_gen v).

(* the method names of *T: its own and those promoted from embedded structs *)
Fixpoint method_set (fuel : nat) (v : pview) (T : string) : list string :=
  match fuel with
  | O => []
  | S f =>
      map (fun m => trim_prefix (T ++ ".") m) (methods_of v T) ++
      match find_struct v T with
      | Some (_, _, s) => flat_map (fun it => match it with IEmbed n _ _ => method_set f v n | IField _ => [] end) (ss_items s)
      | None => []
      end
  end.

(* AssignableToIface of T or its pointer type: every method of the interface is in the method set *)
Definition assignable (v : pview) (T iface : string) : bool :=
  let ms := method_set (S (List.length (pv_hand v))) v T in
  forallb (fun m : string * string * bool => smem (fst (fst m)) ms) (iface_methods (view_fuel v) v iface).

(* ------------------------------------------------------------------ *)
(* the command line                                                    *)

Inductive subcmd := CNew | CEnum | CRest | CMap.
Definition sub_name (c : subcmd) : string :=
  match c with CNew => "new" | CEnum => "enum" | CRest => "rest" | CMap => "map" end.

Record cmd := {
  c_sub : subcmd;
  c_line : string;               (* "shoot new -getset -file=f.go" *)
  c_types : list string;         (* -type=A,B ([] when absent or `*`) *)
  c_star : bool;                 (* -type=* *)
  c_file : string;               (* -file= *)
  c_sepflag : bool;              (* -sep / -separate *)
  c_getset : bool; c_json : bool; c_opt : bool; c_short : bool;      (* new *)
  c_ejson : bool; c_etext : bool;                    (* enum *)
  c_toonly : bool; c_fromonly : bool                 (* map -way *)
}.
(* the two flags of the functional-options code: -opt and -short (names of the option functions) *)
Definition c_optflags (c : cmd) : bool * bool := (c_opt c, c_short c).
Definition specified (c : cmd) : bool := match c_types c with [] => false | _ => true end.
Definition separate (c : cmd) : bool := specified c || c_sepflag c.

(* generatorbase.go LoadPackage: with -type=* and no -file, the first file (in package order) holding a
   //go:generate line that ends with the command line names the all-in-one output *)
Definition all_in_one_file (c : cmd) (v : view) : string :=
  if (c_file c =? "") && c_star c then
    match find (fun f => match snd f with
                         | FHand h => existsb (ends_with (c_line c)) (h_gen h)
                         | FGen _ => false
                         end) v with
    | Some f => fst f
    | None => ""
    end
  else "".

Definition type_part (T : string) : string := lower (if is_exported T then T else "_" ++ T).

(* generatorbase.go fileName(typeName, false) *)
Definition file_name (c : cmd) (aio : string) (fmap : list (string * string)) (T : string) : string :=
  let fn := if negb (c_file c =? "") then c_file c
            else if negb (aio =? "") then aio
            else match alookup T fmap with Some f => f | None => "" end in
  let gofile := trim_go fn in
  let sc := "shoot" ++ sub_name (c_sub c) in
  if T =? "" then gofile ++ "." ++ sc ++ ".go"
  else gofile ++ "." ++ sc ++ "." ++ type_part T ++ ".go".

(* what one MakeData call does *)
Inductive mres (D S : Type) :=
| MOk (d : D) (stale : bool) (s : S)      (* template data, "the package changed: reload" *)
| MSkip (s : S)                           (* data == nil: the type is silently skipped *)
| MFatal.                                 (* logx.Fatal: exit 1, nothing written *)
Arguments MOk {D S}. Arguments MSkip {D S}. Arguments MFatal {D S}.

(* The per-type resets of the long-lived generator objects, one switch per statement of the Go code.
   The code performs all of them ([all_resets]); the switches exist so that "this reset is needed" can be
   stated: with a switch off the corresponding assignment is skipped and the old value flows in. *)
Record resets := {
  rs_hasnew : bool;      (* constructor/generator.go MakeData: g.hasNew = false *)
  rs_gsm : bool;         (* g.getsetMethods = nil *)
  rs_getset : bool;      (* g.getter = true; g.setter = true *)
  rs_mfields : bool;     (* mapper/fields.go parseSrcFields / parseDestFields: exported/unexported field lists = nil *)
  rs_mtags : bool;       (* g.srcTagMap = make(...) *)
  rs_mctor : bool;       (* mapper/ctor.go parseCtors: g.srcCtorParams = nil; g.destCtorParams = nil *)
  rs_mmeth : bool;       (* mapper/methods.go parseMethods: g.getsetMethods = nil; g.destGetSetMethods = nil *)
  rs_msets : bool;       (* mapper/manual.go parseManual: writeSrcSet / writeDestSet = MakeSet() *)
  rs_mmaps : bool;       (* mapper/mismatch.go makeTypeMismatch: writeSrcMap / readSrcMap = make(...) *)
  rs_mfuncs : bool       (* mapper/generator.go loadMorePkgs: g.mappingFuncList = nil *)
}.
Definition all_resets : resets :=
  {| rs_hasnew := true; rs_gsm := true; rs_getset := true; rs_mfields := true; rs_mtags := true; rs_mctor := true;
     rs_mmeth := true; rs_msets := true; rs_mmaps := true; rs_mfuncs := true |}.

(* ------------------------------------------------------------------ *)
(* `new`                                                               *)

Record fent := {
  fe_name : string; fe_qty : string; fe_depth : nat; fe_ptr : bool; fe_shadow : bool; fe_emb : bool;
  fe_get : bool; fe_set : bool; fe_new : bool; fe_def : string; fe_tag : string
}.
Definition set_shadow (f : fent) : fent :=
  {| fe_name := fe_name f; fe_qty := fe_qty f; fe_depth := fe_depth f; fe_ptr := fe_ptr f; fe_shadow := true;
     fe_emb := fe_emb f; fe_get := fe_get f; fe_set := fe_set f; fe_new := fe_new f; fe_def := fe_def f;
     fe_tag := fe_tag f |}.

(* fields.go checkShadowAndAppend *)
Definition check_shadow_append (fs : list fent) (f : fent) : list fent :=
  let fs' := map (fun g => if (fe_name g =? fe_name f) && Nat.ltb (fe_depth f) (fe_depth g) then set_shadow g else g) fs in
  let f' := if existsb (fun g => (fe_name g =? fe_name f) && Nat.ltb (fe_depth g) (fe_depth f)) fs then set_shadow f else f in
  fs' ++ [f'].

(* fields.go expandIfStruct / extractStructFields (below the top level everything comes from go/types:
   no directives, no tags, no filters) *)
Fixpoint expand (fuel : nat) (v : pview) (depth : nat) (tname : string) (ptr isnew : bool) (acc : list fent) : list fent :=
  match fuel with
  | O => acc
  | S fu =>
      match find_struct v tname with
      | None => acc
      | Some (_, _, s) =>
          let acc1 := check_shadow_append acc
            {| fe_name := tname; fe_qty := tname; fe_depth := depth; fe_ptr := ptr; fe_shadow := false; fe_emb := true;
               fe_get := false; fe_set := false; fe_new := false; fe_def := ""; fe_tag := "" |} in
          fold_left (fun a it =>
                       match it with
                       | IEmbed n p _ => expand fu v (S depth) n p isnew a
                       | IField f =>
                           check_shadow_append a
                             {| fe_name := sf_name f; fe_qty := (if sf_ptr f then "*" else "") ++ sf_ty f;
                                fe_depth := S depth; fe_ptr := false; fe_shadow := false; fe_emb := false;
                                fe_get := false; fe_set := false; fe_new := isnew; fe_def := ""; fe_tag := "" |}
                       end) (ss_items s) acc1
      end
  end.

(* fields.go parseGetSet *)
Definition parse_getset (f : sfield) : bool * bool :=
  if is_exported (sf_name f) then (false, false)
  else if sf_hasdoc f then
         (if Bool.eqb (sf_dget f) (sf_dset f) then (true, true) else (sf_dget f, sf_dset f))
       else (true, true).

(* fields.go extractTopFiels *)
Definition extract_top (fuel : nat) (c : cmd) (v : pview) (s : sstruct) : list fent :=
  fold_left (fun a it =>
               match it with
               | IEmbed n p dn => expand fuel v 0 n p dn a
               | IField f =>
                   if sf_newskip f then a
                   else
                     let gs := if c_getset c then parse_getset f else (false, false) in
                     check_shadow_append a
                       {| fe_name := sf_name f; fe_qty := sf_ty f; fe_depth := 0; fe_ptr := sf_ptr f; fe_shadow := false;
                          fe_emb := false; fe_get := fst gs; fe_set := snd gs; fe_new := sf_dnew f; fe_def := sf_def f;
                          fe_tag := if c_json c then sf_jsontag f else "" |}
               end) (ss_items s) [].
Definition item_new (it : sitem) : bool :=
  match it with IField f => sf_dnew f | IEmbed _ _ dn => dn end.

Record ndata := {
  nd_cmd : string; nd_type : string; nd_imports : list string;
  nd_tplist : string; nd_tpnames : string;
  nd_all : list string; nd_newmap : list (string * string); nd_typemap : list (string * string);
  nd_params : string; nd_body : string;
  nd_deflist : list string; nd_defmap : list (string * string);
  nd_getset : bool; nd_getters : list string; nd_setters : list string;
  nd_getifaces : list string; nd_setifaces : list string;
  nd_option : bool; nd_short : bool;
  nd_json : bool; nd_jsonlist : list string; nd_jsontags : list (string * string);
  nd_jsonget : list string; nd_jsonset : list string; nd_exported : list string
}.
Definition ndata0 (cmdline : string) : ndata :=
  {| nd_cmd := cmdline; nd_type := ""; nd_imports := []; nd_tplist := ""; nd_tpnames := ""; nd_all := [];
     nd_newmap := []; nd_typemap := []; nd_params := ""; nd_body := ""; nd_deflist := []; nd_defmap := [];
     nd_getset := false; nd_getters := []; nd_setters := []; nd_getifaces := []; nd_setifaces := [];
     nd_option := false; nd_short := false; nd_json := false; nd_jsonlist := []; nd_jsontags := []; nd_jsonget := []; nd_jsonset := [];
     nd_exported := [] |}.

(* constructor.Generator: every field that is not a flag *)
Record nstate := {
  n_data : ndata;
  n_tparams : list string;          (* typeParams: identifier constraints, by position *)
  n_tpmap : list string;            (* typeParamsMap: names of declaration group i *)
  n_fields : list fent;
  n_hasNew : bool;
  n_gsm : list (string * bool);     (* getsetMethods: (name, is setter) *)
  n_getter : bool; n_setter : bool
}.
Definition nstate0 : nstate :=
  {| n_data := ndata0 ""; n_tparams := []; n_tpmap := []; n_fields := []; n_hasNew := false; n_gsm := [];
     n_getter := false; n_setter := false |}.

(* new.go newParamsList *)
Definition new_params (fs : list fent) (nm : list (string * string)) : string :=
  join ", " (flat_map (fun f => if fe_emb f || fe_shadow f then []
                                else match alookup (fe_name f) nm with
                                     | Some n => [n ++ " " ++ (if fe_ptr f then "*" else "") ++ fe_qty f]
                                     | None => []
                                     end) fs).

(* new.go newBodyRec: the flattened list is a pre-order encoding of the embedding tree *)
Fixpoint new_body (fuel : nat) (fs : list fent) (depth : option nat) (nm : list (string * string)) : string * list fent :=
  match fuel with
  | O => ("", fs)
  | S fu =>
      match fs with
      | [] => ("", [])
      | f :: r =>
          if match depth with Some d => Nat.leb (fe_depth f) d | None => false end then ("", fs)
          else if fe_emb f then
                 let '(inner, rest) := new_body fu r (Some (fe_depth f)) nm in
                 let '(after, rest') := new_body fu rest depth nm in
                 (fe_name f ++ ": " ++ (if fe_ptr f then "&" else "") ++ fe_qty f ++ "{" ++ inner ++ "}," ++ after, rest')
               else
                 let here := match alookup (fe_name f) nm with
                             | Some n => if fe_shadow f
                                         then (if fe_def f =? "" then "" else fe_name f ++ ": " ++ fe_def f ++ ",")
                                         else fe_name f ++ ": " ++ n ++ ","
                             | None => if fe_def f =? "" then "" else fe_name f ++ ": " ++ fe_def f ++ ","
                             end in
                 let '(after, rest') := new_body fu r depth nm in
                 (here ++ after, rest')
      end
  end.

(* getset.go makeGetSet: returns (getList, setList, getIfaces, setIfaces, appended getsetMethods) *)
Fixpoint make_getset_loop (v : pview) (getter setter : bool) (fs : list fent) (once : list string)
  : list string * list string * list string * list string * list (string * bool) :=
  match fs with
  | [] => ([], [], [], [], [])
  | f :: r =>
      if smem (fe_name f) once then make_getset_loop v getter setter r once
      else
        let '(gl, sl, gi, si, ms) := make_getset_loop v getter setter r (fe_name f :: once) in
        if fe_emb f then
          let gname := fe_name f ++ "Getter" in
          let sname := fe_name f ++ "Setter" in
          let hasg := (getter || setter) && match find_iface v gname with Some _ => true | None => false end in
          let hass := (getter || setter) && match find_iface v sname with Some _ => true | None => false end in
          let gok := getter && hasg && assignable v (fe_name f) gname in
          let gms := if gok then flat_map (fun m : string * string * bool => if snd m then [] else [(fst (fst m), false)])
                                          (iface_methods (view_fuel v) v gname) else [] in
          if setter && hass then
            if assignable v (fe_name f) sname then
              let sms := flat_map (fun m : string * string * bool => if snd m then [(fst (fst m), true)] else [])
                                  (iface_methods (view_fuel v) v sname) in
              (gl, sl, ((if gok then [gname] else []) ++ gi)%list, sname :: si, (gms ++ sms ++ ms)%list)
            else (gl, sl, ((if gok then [gname] else []) ++ gi)%list, si, (gms ++ ms)%list)
          else (gl, sl, ((if gok then [gname] else []) ++ gi)%list, si, (gms ++ ms)%list)
        else
          (((if fe_get f && getter then [fe_name f] else []) ++ gl)%list,
           ((if fe_set f && setter then [fe_name f] else []) ++ sl)%list, gi, si, ms)
  end.

(* constructor.Generator.MakeData, statement by statement.
   new_reset: g.getter = true; g.setter = true; g.hasNew = false; g.getsetMethods = nil; g.data = NewTmplData(...) *)
Definition new_reset (rs : resets) (c : cmd) (st : nstate) : nstate :=
  {| n_data := ndata0 (c_line c); n_tparams := n_tparams st; n_tpmap := n_tpmap st; n_fields := n_fields st;
     n_hasNew := if rs_hasnew rs then false else n_hasNew st;
     n_gsm := if rs_gsm rs then [] else n_gsm st;
     n_getter := if rs_getset rs then true else n_getter st;
     n_setter := if rs_getset rs then true else n_setter st |}.

(* parseFields, the part that reads the declaration of T only: type-level directive, shoot:new marks, type parameters *)
Definition new_parse (c : cmd) (st1 : nstate) (s : sstruct) (fields : list fent) : nstate :=
  let getter := if c_getset c && ss_hasdoc s
                then (if Bool.eqb (ss_dgetter s) (ss_dsetter s) then true else ss_dgetter s) else n_getter st1 in
  let setter := if c_getset c && ss_hasdoc s
                then (if Bool.eqb (ss_dgetter s) (ss_dsetter s) then true else ss_dsetter s) else n_setter st1 in
  let hasNew := n_hasNew st1 || existsb item_new (ss_items s) in
  {| n_data := n_data st1; n_tparams := map snd (ss_tparams s); n_tpmap := map fst (ss_tparams s);
     n_fields := fields; n_hasNew := hasNew; n_gsm := n_gsm st1; n_getter := getter; n_setter := setter |}.

(* makeGetSet (result gs of its loop), makeNew, makeJson *)
Definition new_finish (c : cmd) (st2 : nstate) (h : hfile) (T : string)
  (gs : list string * list string * list string * list string * list (string * bool)) : mres ndata nstate :=
      let '(gl, sl, gi, si, ms) := gs in
      let st3 := {| n_data := n_data st2; n_tparams := n_tparams st2; n_tpmap := n_tpmap st2; n_fields := n_fields st2;
                    n_hasNew := n_hasNew st2; n_gsm := n_gsm st2 ++ ms; n_getter := n_getter st2; n_setter := n_setter st2 |} in
      (* makeNew *)
      let groups := combine (n_tpmap st3) (n_tparams st3) in
      let plain := filter (fun f => negb (fe_shadow f) && negb (fe_emb f)) (n_fields st3) in
      let newmap := flat_map (fun f => if n_hasNew st3 && negb (fe_new f) then [] else [(fe_name f, camel (fe_name f))]) plain in
      let newmap := fold_left (fun m e => upsert (fst e) (snd e) m) newmap [] in
      let typemap := fold_left (fun m f => upsert (fe_name f) ((if fe_ptr f then "*" else "") ++ fe_qty f) m) plain [] in
      (* makeJson *)
      let gets := map fst (filter (fun m => negb (snd m)) (n_gsm st3)) in
      let sets := map fst (filter (fun m => snd m && has_prefix "Set" (fst m)) (n_gsm st3)) in
      let hasget f := (fe_get f && n_getter st3) || smem (pascal (fe_name f)) gets in
      let hasset f := (fe_set f && n_setter st3) || smem ("Set" ++ pascal (fe_name f)) sets in
      let tagof f := if fe_tag f =? "" then camel (fe_name f) else fe_tag f in      (* -tagcase=camel (the default) *)
      let need := existsb (fun f => if is_exported (fe_name f)
                                    then (fe_tag f =? "") && negb (tagof f =? fe_name f)
                                    else hasget f || hasset f) plain in
      let jlist := filter (fun f => is_exported (fe_name f) || hasget f || hasset f) plain in
      let d := {| nd_cmd := c_line c; nd_type := T; nd_imports := h_imports h;
                  nd_tplist := join ", " (map (fun g => fst g ++ " " ++ snd g) groups);
                  nd_tpnames := join ", " (map fst groups);
                  nd_all := map fe_name plain; nd_newmap := newmap; nd_typemap := typemap;
                  nd_params := new_params (n_fields st3) newmap;
                  nd_body := fst (new_body (S (List.length (n_fields st3))) (n_fields st3) None newmap);
                  nd_deflist := map fe_name (filter (fun f => negb (fe_def f =? "")) plain);
                  nd_defmap := fold_left (fun m f => if fe_def f =? "" then m else upsert (fe_name f) (fe_def f) m) plain [];
                  nd_getset := c_getset c;
                  nd_getters := if n_getter st3 then gl else [];
                  nd_setters := if n_setter st3 then sl else [];
                  nd_getifaces := if n_getter st3 then gi else [];
                  nd_setifaces := if n_setter st3 then si else [];
                  nd_option := c_opt c; nd_short := c_short c;
                  nd_json := c_json c && need;
                  nd_jsonlist := if c_json c then map fe_name jlist else [];
                  nd_jsontags := if c_json c then fold_left (fun m f => upsert (fe_name f) (tagof f) m) plain [] else [];
                  nd_jsonget := if c_json c then map fe_name (filter (fun f => negb (is_exported (fe_name f)) && hasget f) plain) else [];
                  nd_jsonset := if c_json c then map fe_name (filter (fun f => negb (is_exported (fe_name f)) && hasset f) plain) else [];
                  nd_exported := if c_json c then map fe_name (filter (fun f => is_exported (fe_name f)) plain) else [] |} in
      let st4 := {| n_data := d; n_tparams := n_tparams st3; n_tpmap := n_tpmap st3; n_fields := n_fields st3;
                    n_hasNew := n_hasNew st3; n_gsm := n_gsm st3; n_getter := n_getter st3; n_setter := n_setter st3 |} in
      MOk d (nd_getset d) st4.

Definition new_make_gen (rs : resets) (c : cmd) (st : nstate) (v : pview) (T : string) : mres ndata nstate :=
  let st1 := new_reset rs c st in
  match (if has_prefix "_" T then None else find_struct v T) with     (* testNode refuses names starting with `_` *)
  | None => MFatal                                 (* logx.Fatalf("type not exists") *)
  | Some (_, h, s) =>
      let st2 := new_parse c st1 s (extract_top (S (List.length (pv_hand v))) c v s) in
      new_finish c st2 h T (make_getset_loop v (n_getter st2) (n_setter st2) (n_fields st2) [])
  end.

Definition new_make := new_make_gen all_resets.

Definition tyof (d : ndata) (f : string) : string :=
  match alookup f (nd_typemap d) with Some t => t | None => "" end.

(* an import of a hand-written file: "path" or "name path" (renamed).  Types are kept in canonical form (time.Duration)
   in the model, so a type is tested against the path; text copied verbatim from the source (def= values) against the
   local name *)
Fixpoint after_space (s : string) : option string :=
  match s with
  | EmptyString => None
  | String c r => if Ascii.eqb c " "%char then Some r else after_space r
  end.
Definition imp_path (i : string) : string := match after_space i with Some p => p | None => i end.
Definition imp_name (i : string) : string :=
  match after_space i with
  | Some p => substring 0 (String.length i - String.length p - 1) i
  | None => i
  end.

(* constructor.tmpl *)
Definition new_render (d : ndata) : afile :=
  let T := nd_type d in
  let tn := if nd_tplist d =? "" then T else T ++ "[" ++ nd_tpnames d ++ "]" in
  let hw_needs := nd_imports d in     (* the imports of the declaring file are offered; goimports keeps the used ones *)
  (* types are printed by go/types with the package NAME whatever the file calls the import: goimports then adds the plain
     import and drops an unused renamed one; only verbatim text keeps a renamed import alive *)
  let uses (ty : string) := map imp_path (filter (fun i => has_prefix (imp_path i ++ ".") ty || has_prefix ("*" ++ imp_path i ++ ".") ty) hw_needs) in
  let uses_text (txt : string) := filter (fun i => contains (imp_name i ++ ".") txt) hw_needs in
  let ctor := {| d_name := "New" ++ T;
                 d_kind := KCtor (flat_map (fun f => match alookup f (nd_newmap d) with
                                                     | Some p => [(p, tyof d f, f, f)]
                                                     | None => []
                                                     end) (nd_all d));
                 d_doc := true; d_tail := false;
                 (* the parameter list prints every field with ITS OWN type (newParamsList walks g.fields), so two fields
                    of one name reached at the same depth (K_ctor_ambiguous_promoted) both count, whatever TypeMap keeps *)
                 d_needs := map imp_path (filter (fun i => contains (" " ++ imp_path i ++ ".") (" " ++ nd_params d) ||
                                                           contains (" *" ++ imp_path i ++ ".") (" " ++ nd_params d)) hw_needs) +++
                            filter (fun i => contains (imp_name i ++ ".") (nd_body d)) hw_needs;
                 d_toks := [nd_tplist d; nd_params d; nd_body d] |} in
  let opt : list adecl := if nd_option d then
               [{| d_name := T ++ ".With"; d_kind := KMethod T; d_doc := true; d_tail := false;
                   d_needs := ["github.com/lopolopen/shoot"]; d_toks := [tn; bstr (match nd_deflist d with [] => false | _ => true end)] |}] +++
               map (fun f => {| d_name := (if nd_short d then pascal f else pascal f ++ "Of" ++ T); d_kind := KFunc; d_doc := true; d_tail := false;
                                d_needs := "github.com/lopolopen/shoot" :: uses (tyof d f); d_toks := [f; tyof d f; tn] |}) (nd_all d) +++
               match nd_deflist d with
               | [] => []
               | _ => [{| d_name := T ++ ".SetDefault"; d_kind := KMethod T; d_doc := true; d_tail := false;
                          d_needs := flat_map (fun f => uses_text (match alookup f (nd_defmap d) with Some x => x | None => "" end)) (nd_deflist d);
                          d_toks := map (fun f => f ++ "=" ++ match alookup f (nd_defmap d) with Some x => x | None => "" end) (nd_deflist d) |}]
               end
             else [] in
  let gs : list adecl := if nd_getset d then
              map (fun f => {| d_name := T ++ "." ++ pascal f; d_kind := KMethod T; d_doc := true; d_tail := false;
                               d_needs := uses (tyof d f); d_toks := [f; tyof d f] |}) (nd_getters d) +++
              map (fun f => {| d_name := T ++ ".Set" ++ pascal f; d_kind := KMethod T; d_doc := true; d_tail := false;
                               d_needs := uses (tyof d f); d_toks := [f; tyof d f] |}) (nd_setters d)
            else [] in
  let js : list adecl := if nd_json d then
              [{| d_name := "_json_" ++ T; d_kind := KType; d_doc := false; d_tail := false;
                  d_needs := flat_map (fun f => uses (tyof d f)) (nd_jsonlist d);
                  d_toks := map (fun f => f ++ ":" ++ tyof d f ++ ":" ++ match alookup f (nd_jsontags d) with Some x => x | None => "" end) (nd_jsonlist d) |};
               {| d_name := T ++ ".MarshalJSON"; d_kind := KMethod T; d_doc := true; d_tail := false;
                  d_needs := ["encoding/json"]; d_toks := nd_jsonget d +++ ["|"] +++ nd_exported d |};
               {| d_name := T ++ ".UnmarshalJSON"; d_kind := KMethod T; d_doc := true; d_tail := false;
                  d_needs := ["encoding/json"]; d_toks := nd_jsonset d +++ ["|"] +++ nd_exported d |}]
            else [] in
  let gi : list adecl := if nd_getset d then
              (match nd_getifaces d, nd_getters d with
               | [], [] => []
               | _, _ => [{| d_name := T ++ "Getter";
                             d_kind := KIface (nd_getifaces d) (map (fun f => (pascal f, tyof d f)) (nd_getters d)) [];
                             d_doc := true; d_tail := false; d_needs := flat_map (fun f => uses (tyof d f)) (nd_getters d);
                             d_toks := nd_tplist d :: nd_getifaces d +++ ["|"] +++ map (fun f => pascal f ++ " " ++ tyof d f) (nd_getters d) |}]
               end) +++
              (match nd_setifaces d, nd_setters d with
               | [], [] => []
               | _, _ => [{| d_name := T ++ "Setter";
                             d_kind := KIface (nd_setifaces d) [] (map (fun f => ("Set" ++ pascal f, tyof d f)) (nd_setters d));
                             d_doc := true; d_tail := false; d_needs := flat_map (fun f => uses (tyof d f)) (nd_setters d);
                             d_toks := nd_tplist d :: nd_setifaces d +++ ["|"] +++ map (fun f => pascal f ++ " " ++ tyof d f) (nd_setters d) |}]
               end)
            else [] in
  let mark := {| d_name := T ++ ".ShootNew"; d_kind := KMethod T; d_doc := true; d_tail := true; d_needs := []; d_toks := [tn] |} in
  mk_file (nd_cmd d) (ctor :: opt +++ gs +++ js +++ gi +++ [mark]).

(* ------------------------------------------------------------------ *)
(* `enum`                                                              *)

Fixpoint dec_nat (fuel n : nat) : string :=
  match fuel with
  | O => ""
  | S f => (if Nat.ltb n 10 then "" else dec_nat f (n / 10)) ++ String (ascii_of_nat (48 + n mod 10)) EmptyString
  end.
Definition dec (z : Z) : string :=
  let n := Z.abs_nat z in
  (if Z.ltb z 0 then "-" else "") ++ dec_nat (S n) n.

Record edata := { ed_cmd : string; ed_type : string; ed_names : list string; ed_json : bool; ed_text : bool }.

(* enumer.Generator: the template data and the two closures registered per type *)
Record estate := {
  e_data : edata;
  e_valueof : list (string * string);
  e_strof : list (string * string)
}.
Definition estate0 : estate :=
  {| e_data := {| ed_cmd := ""; ed_type := ""; ed_names := []; ed_json := false; ed_text := false |};
     e_valueof := []; e_strof := [] |}.

(* str.go makeStr: typed constants of T from every file, sorted by value *)
Definition enum_values (v : pview) (T : string) : list (string * Z) :=
  isort (fun a b => Z.leb (snd a) (snd b))
        (flat_map (fun x => match x with
                            | (_, _, HConsts ty cs) => if ty =? T then cs else []
                            | _ => []
                            end) (pv_hand v)).

Definition enum_make (c : cmd) (st : estate) (v : pview) (T : string) : mres edata estate :=
  let vals := enum_values v T in
  let d := {| ed_cmd := c_line c; ed_type := T; ed_names := map fst vals; ed_json := c_ejson c; ed_text := c_etext c |} in
  let st1 := {| e_data := d;
                e_valueof := fold_left (fun m e => upsert (fst e) (if Z.ltb (snd e) 0 then "(" ++ dec (snd e) ++ ")" else dec (snd e)) m) vals [];
                e_strof := fold_left (fun m e => upsert (fst e) (trim_prefix T (fst e)) m) vals [] |} in
  match vals with
  | [] => if specified c then MFatal else MSkip st1      (* an explicitly named type without constants is an error *)
  | _ => MOk d false st1
  end.

(* enumer.tmpl: valueof / strof are looked up in whatever closures are registered when the template runs *)
Definition enum_render (st : estate) (d : edata) : afile :=
  let T := ed_type d in
  let cn := camel T in
  let vo n := match alookup n (e_valueof st) with Some x => x | None => "" end in
  let so n := match alookup n (e_strof st) with Some x => x | None => "" end in
  let plain (n : string) (doc : bool) (needs toks : list string) : adecl :=
    {| d_name := T ++ "." ++ n; d_kind := KMethod T; d_doc := doc; d_tail := false; d_needs := needs; d_toks := toks |} in
  let value (n : string) (toks : list string) : adecl :=
    {| d_name := n; d_kind := KValue; d_doc := false; d_tail := false; d_needs := []; d_toks := toks |} in
  let base : list adecl :=
    [ {| d_name := "_"; d_kind := KFunc; d_doc := false; d_tail := false; d_needs := [];
         d_toks := map (fun n => n ++ "-" ++ vo n) (ed_names d) |};
      value ("_" ++ cn ++ "_max") (ed_names d);
      value ("_" ++ cn ++ "_values") (ed_names d);
      value ("_" ++ cn ++ "_strings") (map so (ed_names d));
      value ("_" ++ cn ++ "_string_map") (map (fun n => n ++ ":" ++ so n) (ed_names d));
      value ("_" ++ cn ++ "_value_map") (map (fun n => so n ++ ":" ++ n) (ed_names d));
      plain "String" true ["fmt"] [cn];
      plain "Values" false [] [cn]; plain "Strings" false [] [cn]; plain "IsValid" false [] [cn];
      plain "ValueMap" false [] [cn]; plain "StringMap" false [] [cn] ] in
  let js : list adecl := if ed_json d then
      [ plain "MarshalJSON" true ["encoding/json"] [T];
        plain "UnmarshalJSON" true ["encoding/json"; "fmt"; "github.com/lopolopen/shoot"] [T] ] else [] in
  let tx : list adecl := if ed_text d then
      [ plain "MarshalText" true [] [T];
        plain "UnmarshalText" true ["github.com/lopolopen/shoot"] [T] ] else [] in
  let mark := {| d_name := T ++ ".ShootEnum"; d_kind := KMethod T; d_doc := true; d_tail := true; d_needs := []; d_toks := [T] |} in
  mk_file (ed_cmd d) (base +++ js +++ tx +++ [mark]).

(* ------------------------------------------------------------------ *)
(* `rest`                                                              *)

Record rmdata := {
  md_name : string; md_sig : string; md_verb : string; md_path : string;
  md_alias : list (string * string);        (* AliasMap[method] *)
  md_pathparams : list string;              (* PathParamsMap[method], after alias reversal *)
  md_query : list string;
  md_ptr : list string;                     (* keys of IsParamPtrMap[method] *)
  md_body : string; md_dict : string; md_ctx : string;
  md_result : string; md_resptr : bool; md_errret : string
}.
Record rdata := {
  rd_cmd : string; rd_type : string;
  rd_methods : list rmdata;
  rd_headers : list (string * list (string * string))       (* DefaultHeaders: verb -> map *)
}.
Record rstate := { r_data : rdata }.
Definition rstate0 : rstate := {| r_data := {| rd_cmd := ""; rd_type := ""; rd_methods := []; rd_headers := [] |} |}.

Definition default_headers : list (string * list (string * string)) :=
  [ ("GET", [("Accept", "application/json")]);
    ("POST", [("Accept", "application/json"); ("Content-Type", "application/json")]);
    ("PUT", [("Accept", "application/json"); ("Content-Type", "application/json")]);
    ("PATCH", [("Accept", "application/json"); ("Content-Type", "application/json")]);
    ("DELETE", []) ].
Definition body_verb (vb : string) : bool := smem vb ["POST"; "PUT"; "PATCH"].

Definition find_iface_decl (v : pview) (T : string) : option (string * hfile * riface) :=
  match find (fun x => match x with (_, _, HIface r) => ri_name r =? T | _ => false end) (pv_hand v) with
  | Some (fn, h, HIface r) => Some (fn, h, r)
  | _ => None
  end.
(* cook.go isStructType: a struct declared in the same file *)
Definition struct_in_file (h : hfile) (n : string) : option sstruct :=
  match find (fun d => match d with HStruct s => ss_name s =? n | _ => false end) (h_decls h) with
  | Some (HStruct s) => Some s
  | _ => None
  end.

Definition sig_of (m : rmethod) : string :=
  m.(rm_name) ++ "(" ++ join ", " (map (fun p => rp_name p ++ " " ++ rp_ty p) (rm_params m)) ++ ") (" ++
  (if rm_result m =? "" then "" else (if rm_result_ptr m then "*" else "") ++ rm_result m ++ ", ") ++ "*http.Response, error)".

(* one parameter: paramhandler.go handleExpr.  acc = (query, ptr, alias, body, dict, ctx); None = Fatal *)
Definition rest_param (v : pview) (h : hfile) (vb : string) (pathparams : list string) (p : rparam)
  (acc : list string * list string * list (string * string) * string * string * string)
  : option (list string * list string * list (string * string) * string * string * string) :=
  let '(q, ptr, al, body, dict, ctx) := acc in
  let ptr1 := if rp_ptr p then sadd (rp_name p) ptr else ptr in
  match rp_kind p with
  | RCtx => Some (q, ptr1, al, body, dict, rp_name p)
  | RMap => if (vb =? "GET") || (vb =? "DELETE")
            then (if negb (dict =? "") then None        (* ambiguous query map binding *)
                  else Some (q, ptr1, al, body, rp_name p, ctx))
            else Some (q, ptr1, al, body, dict, ctx)
  | RScalar => Some (if smem (rp_name p) pathparams then q else (q +++ [rp_name p]), ptr1, al, body, dict, ctx)
  | RStruct tn =>
      (* paramhandler.go isPkgStructType: a struct declared in the same file or in any other file of the package *)
      match match struct_in_file h tn with
            | Some s => Some s
            | None => match find_struct v tn with Some (_, _, s) => Some s | None => None end
            end with
      | None => Some (if smem (rp_name p) pathparams then q else (q +++ [rp_name p]), ptr1, al, body, dict, ctx)
      | Some s =>
          if negb (body =? "") then None          (* ambiguous body binding *)
          else
            let '(q2, ptr2, al2) :=
              fold_left (fun a it =>
                           let '(q', ptr', al') := a in
                           match it with
                           | IField f =>
                               let key := if is_exported (sf_name f) then camel (sf_name f) else sf_name f in
                               let value := if is_exported (sf_name f) then rp_name p ++ "." ++ sf_name f
                                            else rp_name p ++ "." ++ pascal (sf_name f) ++ "()" in
                               (q' +++ [value], (if sf_ptr f then sadd value ptr' else ptr'),
                                upsert value (if sf_jsontag f =? "" then key else sf_jsontag f) al')
                           | IEmbed n eptr _ =>
                               let nm := (if eptr then "*" else "") ++ n in
                               (q' +++ [rp_name p ++ "." ++ nm], ptr', upsert (rp_name p ++ "." ++ nm) (camel nm) al')
                           end) (ss_items s) (q, ptr, al) in
            Some (q2, (if rp_ptr p then sadd (rp_name p) ptr2 else ptr2), al2, rp_name p, dict, ctx)
      end
  end.

(* cook.go cookClient for one method *)
Definition rest_method (o : oracle) (v : pview) (h : hfile) (m : rmethod) : option rmdata :=
  let asmap := fold_left (fun mp e => upsert (fst e) (snd e) mp) (rm_alias m) [] in       (* parseKV *)
  let revmap := fold_left (fun mp e => upsert (snd e) (fst e) mp) (o _ asmap) [] in       (* for k, v := range asMap { reversMap[v] = k } *)
  let real := map (fun n => match alookup n revmap with Some r => r | None => n end) (rm_pparams m) in
  match fold_left (fun a p => match a with Some acc => rest_param v h (rm_verb m) real p acc | None => None end)
                  (rm_params m) (Some ([], [], asmap, "", "", "")) with
  | None => None
  | Some (q, ptr, al, body, dict, ctx) =>
      if body_verb (rm_verb m) && (body =? "") then None       (* needs a struct parameter as request body *)
      else
      Some {| md_name := rm_name m; md_sig := sig_of m; md_verb := rm_verb m; md_path := rm_path m; md_alias := al;
              md_pathparams := real; md_query := q; md_ptr := ptr; md_body := body; md_dict := dict; md_ctx := ctx;
              md_result := rm_result m; md_resptr := rm_result_ptr m;
              md_errret := if rm_result m =? "" then "nil, err" else "nil, nil, err" |}
  end.

Definition rest_make (o : oracle) (c : cmd) (st : rstate) (v : pview) (T : string) : mres rdata rstate :=
  match find_iface_decl v T with
  | None => MFatal                          (* rest client interface not exists *)
  | Some (_, h, r) =>
      (* for k, v := range headers { for _, hs := range DefaultHeaders { hs[k] = v } } *)
      let hdrs := fold_left (fun dh kv => map (fun e => (fst e, upsert (fst kv) (snd kv) (snd e))) dh)
                            (o _ (fold_left (fun mp e => upsert (fst e) (snd e) mp) (ri_headers r) [])) default_headers in
      match fold_left (fun a m => match a with
                                  | None => None
                                  | Some ms => if rm_hasdoc m
                                               then match rest_method o v h m with Some x => Some (ms +++ [x]) | None => None end
                                               else Some ms
                                  end) (ri_methods r) (Some []) with
      | None => MFatal
      | Some ms =>
          let d := {| rd_cmd := c_line c; rd_type := T; rd_methods := ms; rd_headers := hdrs |} in
          MOk d false {| r_data := d |}
      end
  end.

(* restclient.tmpl; `range` over a map inside a template visits the keys in sorted order *)
Definition rest_render (d : rdata) : afile :=
  let cn := camel (rd_type d) in
  let meth (m : rmdata) : adecl :=
    let bv := body_verb (md_verb m) in
    let hs := match alookup (md_verb m) (rd_headers d) with Some x => x | None => [] end in
    {| d_name := cn ++ "." ++ md_name m; d_kind := KMethod cn; d_doc := false; d_tail := false;
       d_needs := ["net/http"; "net/url"; "fmt"; "io"] +++
                  (match md_pathparams m with [] => [] | _ => ["strings"] end) +++
                  (if bv || negb (md_result m =? "") then ["encoding/json"] else []) +++
                  (if bv then ["bytes"] else []) +++
                  (if md_ctx m =? "" then [] else ["context"]);
       d_toks := [md_sig m; md_verb m; md_path m] +++
                 map (fun p => "{" ++ (match alookup p (md_alias m) with Some a => a | None => p end) ++ "}<-" ++ p) (md_pathparams m) +++
                 ["body=" ++ (if bv then md_body m else ""); "ctx=" ++ md_ctx m] +++
                 (if bv then [] else
                    map (fun k => (match alookup k (md_alias m) with Some a => a | None => k end) ++ "=" ++ k ++
                                  (if smem k (md_ptr m) then "?" else "")) (md_query m) +++ ["dict=" ++ md_dict m]) +++
                 map (fun kv => fst kv ++ ": " ++ snd kv) (sort_by_key fst hs) +++
                 [md_errret m; (if md_resptr m then "&" else "") ++ md_result m] |} in
  mk_file (rd_cmd d)
    ({| d_name := cn; d_kind := KType; d_doc := false; d_tail := false;
        d_needs := ["net/http"; "github.com/lopolopen/shoot"]; d_toks := [cn] |} ::
     map meth (rd_methods d) +++
     [ {| d_name := cn ++ ".ConfigHTTPClient"; d_kind := KMethod cn; d_doc := true; d_tail := false;
          d_needs := ["net/http"]; d_toks := [rd_type d] |};
       {| d_name := cn ++ ".ShootRest"; d_kind := KMethod cn; d_doc := true; d_tail := true; d_needs := []; d_toks := [cn] |};
       {| d_name := "init"; d_kind := KFunc; d_doc := false; d_tail := false;
          d_needs := ["github.com/lopolopen/shoot"; "net/http"; "time"]; d_toks := [rd_type d; cn] |} ]).

(* ------------------------------------------------------------------ *)
(* `map`                                                               *)

Record mfield := {
  m_name : string; m_path : list string; m_ty : string; m_depth : nat; m_backing : string;
  m_isget : bool; m_isset : bool;
  m_target : option string;         (* name of the Field object of the other side it points to *)
  m_canassign : bool; m_isconv : bool; m_type : string; m_func : string; m_zero : string
}.
Definition mf0 (n : string) (path : list string) (ty : string) (depth : nat) : mfield :=
  {| m_name := n; m_path := path; m_ty := ty; m_depth := depth; m_backing := ""; m_isget := false; m_isset := false;
     m_target := None; m_canassign := false; m_isconv := false; m_type := ""; m_func := ""; m_zero := "" |}.
Definition mf_set_target (f : mfield) (t : string) : mfield :=
  {| m_name := m_name f; m_path := m_path f; m_ty := m_ty f; m_depth := m_depth f; m_backing := m_backing f;
     m_isget := m_isget f; m_isset := m_isset f; m_target := Some t; m_canassign := m_canassign f; m_isconv := m_isconv f;
     m_type := m_type f; m_func := m_func f; m_zero := m_zero f |}.
Definition mf_set_assign (f : mfield) : mfield :=
  {| m_name := m_name f; m_path := m_path f; m_ty := m_ty f; m_depth := m_depth f; m_backing := m_backing f;
     m_isget := m_isget f; m_isset := m_isset f; m_target := m_target f; m_canassign := true; m_isconv := m_isconv f;
     m_type := m_type f; m_func := m_func f; m_zero := m_zero f |}.
Definition mf_set_conv (f : mfield) (ty : string) : mfield :=
  {| m_name := m_name f; m_path := m_path f; m_ty := m_ty f; m_depth := m_depth f; m_backing := m_backing f;
     m_isget := m_isget f; m_isset := m_isset f; m_target := m_target f; m_canassign := m_canassign f; m_isconv := true;
     m_type := ty; m_func := m_func f; m_zero := m_zero f |}.
Definition mf_set_func (f : mfield) (fn : string) : mfield :=
  {| m_name := m_name f; m_path := m_path f; m_ty := m_ty f; m_depth := m_depth f; m_backing := m_backing f;
     m_isget := m_isget f; m_isset := m_isset f; m_target := m_target f; m_canassign := m_canassign f; m_isconv := m_isconv f;
     m_type := m_type f; m_func := fn; m_zero := m_zero f |}.
Definition mf_set_zero (f : mfield) (z : string) : mfield :=
  {| m_name := m_name f; m_path := m_path f; m_ty := m_ty f; m_depth := m_depth f; m_backing := m_backing f;
     m_isget := m_isget f; m_isset := m_isset f; m_target := m_target f; m_canassign := m_canassign f; m_isconv := m_isconv f;
     m_type := m_type f; m_func := m_func f; m_zero := z |}.
Definition mf_replace (f : mfield) (path : list string) (ty : string) (depth : nat) : mfield :=
  {| m_name := m_name f; m_path := path; m_ty := ty; m_depth := depth; m_backing := m_backing f;
     m_isget := m_isget f; m_isset := m_isset f; m_target := m_target f; m_canassign := m_canassign f; m_isconv := m_isconv f;
     m_type := m_type f; m_func := m_func f; m_zero := m_zero f |}.

Definition mget (n : string) (l : list mfield) : option mfield := find (fun f => m_name f =? n) l.
Definition mupd (n : string) (g : mfield -> mfield) (l : list mfield) : list mfield :=
  map (fun f => if m_name f =? n then g f else f) l.
Definition matching_name (f : mfield) : string := if m_backing f =? "" then m_name f else m_backing f.
Definition pkey (p : list string) : string := join "." p.

(* fields.go appendOrReplace *)
Definition append_or_replace (fs : list mfield) (f : mfield) : list mfield :=
  match mget (m_name f) fs with
  | Some g => if Nat.ltb (m_depth f) (m_depth g) then mupd (m_name f) (fun g => mf_replace g (m_path f) (m_ty f) (m_depth f)) fs else fs
  | None => fs +++ [f]
  end.

Definition sty (f : sfield) : string := (if sf_ptr f then "*" else "") ++ sf_ty f.

(* fields.go expandIfStruct / extractStructFields; acc = (fields, ptrTypeMap) *)
Fixpoint mexpand (fuel : nat) (v : pview) (qual : string) (pre : list string) (depth : nat) (tname : string) (ptr : bool)
  (acc : list mfield * list (string * string)) : list mfield * list (string * string) :=
  match fuel with
  | O => acc
  | S fu =>
      match find_struct v tname with
      | None => acc
      | Some (_, _, s) =>
          let acc1 := if ptr then (fst acc, upsert (pkey pre) (qual ++ tname) (snd acc)) else acc in
          fold_left (fun a it =>
                       match it with
                       | IEmbed n p _ => mexpand fu v qual (pre +++ [n]) (S depth) n p a
                       | IField f => (append_or_replace (fst a) (mf0 (sf_name f) (pre +++ [sf_name f]) (sty f) depth), snd a)
                       end) (ss_items s) acc1
      end
  end.

(* fields.go parseFields: (exported, unexported, tagMap, ptrTypeMap) of type T in view v; None = no such struct *)
Definition mparse_fields (v : pview) (qual : string) (T : string) (with_tags : bool) (tags0 : list (string * string))
  : option (list mfield * list mfield * list (string * string) * list (string * string)) :=
  match find_struct v T with
  | None => None
  | Some (_, _, s) =>
      let '(fs, tags, ptrs) :=
        fold_left (fun a it =>
                     let '(fs, tags, ptrs) := a in
                     match it with
                     | IEmbed n p _ =>
                         let '(fs', ptrs') := mexpand (S (List.length (pv_hand v))) v qual [n] 1 n p (fs, ptrs) in
                         (fs', tags, ptrs')
                     | IField f =>
                         if sf_maptag f =? "-" then a
                         else
                           let tags' := if negb (sf_maptag f =? "") && with_tags
                                        then upsert (pascal (sf_name f)) (pascal (sf_maptag f)) tags else tags in
                           (append_or_replace fs (mf0 (sf_name f) [sf_name f] (sty f) 0), tags', ptrs)
                     end) (ss_items s) ([], tags0, []) in
      Some (filter (fun f => is_exported (m_name f)) fs, filter (fun f => negb (is_exported (m_name f))) fs, tags, ptrs)
  end.

Record mdata := {
  md_cmd : string; md_type : string; md_dest : string; md_qdest : string; md_destpkg : string;
  md_toonly : bool; md_fromonly : bool;
  md_srcctor : list mfield; md_destctor : list mfield;
  md_srcfields : list mfield; md_destfields : list mfield;
  md_srcptrmap : list (string * string); md_srcptrlist : list string;
  md_destptrmap : list (string * string); md_destptrlist : list string;
  md_srcread : list (string * string); md_destread : list (string * string)
}.

(* mapper.Generator: every field that is not a flag or a loaded package *)
Record mstate := {
  ms_data : option mdata;
  ms_exp : list mfield; ms_unexp : list mfield; ms_dexp : list mfield; ms_dunexp : list mfield;
  ms_gsm : list (string * string * bool); ms_dgsm : list (string * string * bool);      (* (name, type, is setter) *)
  ms_sptr : list (string * string); ms_dptr : list (string * string);                   (* srcPtrTypeMap destPtrTypeMap *)
  ms_spaths : list (string * list string); ms_dpaths : list (string * list string);     (* srcPathsMap destPathsMap *)
  ms_funcs : list (string * string * string);                                           (* mappingFuncList *)
  ms_wsrc : list string; ms_wdest : list string;                                        (* writeSrcSet writeDestSet *)
  ms_rsm : list (string * string); ms_wsm : list (string * string);                     (* readSrcMap writeSrcMap *)
  ms_tags : list (string * string);                                                     (* srcTagMap *)
  ms_sctor : list mfield; ms_dctor : list mfield                                        (* srcCtorParams destCtorParams *)
}.
Definition mstate0 : mstate :=
  {| ms_data := None; ms_exp := []; ms_unexp := []; ms_dexp := []; ms_dunexp := []; ms_gsm := []; ms_dgsm := [];
     ms_sptr := []; ms_dptr := []; ms_spaths := []; ms_dpaths := []; ms_funcs := []; ms_wsrc := []; ms_wdest := [];
     ms_rsm := []; ms_wsm := []; ms_tags := []; ms_sctor := []; ms_dctor := [] |}.

(* go/types on the palette of this grammar *)
Definition ints : list string := ["int"; "int8"; "int16"; "int32"; "int64"; "uint"; "uint8"; "uint16"; "uint32"; "uint64"].
Definition fixed_ints : list string := ["int8"; "int16"; "int32"; "int64"; "uint8"; "uint16"; "uint32"; "uint64"].
Definition numeric (t : string) : bool := smem t ints || smem t ["float32"; "float64"].
Definition convertible (a b : string) : bool :=
  (a =? b) || (numeric a && numeric b) || (smem a ints && (b =? "string")).
(* match.go matchType *)
Definition match_type (a b : string) : bool * bool :=
  let same := a =? b in
  let conv := convertible a b in
  let mis := ((a =? "string") && smem b fixed_ints) || ((b =? "string") && smem a fixed_ints) in
  (same, if negb same && conv && mis then false else conv).
(* ctor.go zeroValue *)
Definition zero_value (t : string) : string :=
  if t =? "string" then """""" else if t =? "bool" then "false" else if numeric t then "0"
  else if has_prefix "*" t || has_prefix "[]" t || has_prefix "map[" t then "nil" else t ++ "{}".

(* match.go canNameMatch (without -i) *)
Definition can_name_match (f1 f2 : mfield) (tags : list (string * string)) : bool :=
  if (m_isget f1 && m_isget f2) || (m_isset f1 && m_isset f2) then false
  else
    let m1 := matching_name f1 in
    let m2 := matching_name f2 in
    let m1 := match alookup m1 tags with Some t => t | None => m1 end in
    Nat.eqb (String.length m1) (String.length m2) && ((m1 =? m2) || (camel m1 =? camel m2)).

(* ctor.go parseCtors: the parameters of the generated NewT *)
Definition has_shootnew (v : pview) (T : string) : bool := smem (T ++ ".ShootNew") (methods_of v T).
Definition parse_ctors (v : pview) (T : string) : list mfield :=
  match find (fun d => d_name d =? "New" ++ T) (pv_gen v) with
  | Some d => match d_kind d with
              | KCtor ps => map (fun p => match p with
                                          | (_, ty, field, path) =>
                                              {| m_name := if is_exported field then field else "Set" ++ pascal field;
                                                 m_path := [path]; m_ty := ty; m_depth := 0; m_backing := field;
                                                 m_isget := false; m_isset := false; m_target := None; m_canassign := false;
                                                 m_isconv := false; m_type := ""; m_func := ""; m_zero := "" |}
                                          end) ps
              | _ => []
              end
  | None => []
  end.

(* getsetiface.go ParseGetSetIface *)
Definition parse_getset_iface (v : pview) (T : string) : list (string * string * bool) :=
  let g := T ++ "Getter" in
  let s := T ++ "Setter" in
  (if match find_iface v g with Some _ => assignable v T g | None => false end
   then filter (fun m : string * string * bool => negb (snd m)) (iface_methods (view_fuel v) v g) else []) +++
  (if match find_iface v s with Some _ => assignable v T s | None => false end
   then filter (fun m : string * string * bool => snd m) (iface_methods (view_fuel v) v s) else []).

(* methods.go compatlize *)
Definition compatlize (fs : list mfield) (ms : list (string * string * bool)) : list mfield :=
  fs +++ map (fun m : string * string * bool =>
                let n := fst (fst m) in
                if snd m
                then {| m_name := n; m_path := [n]; m_ty := snd (fst m); m_depth := 0; m_backing := trim_prefix "Set" n;
                        m_isget := false; m_isset := true; m_target := None; m_canassign := false; m_isconv := false;
                        m_type := ""; m_func := ""; m_zero := "" |}
                else {| m_name := n; m_path := [n]; m_ty := snd (fst m); m_depth := 0; m_backing := n;
                        m_isget := true; m_isset := false; m_target := None; m_canassign := false; m_isconv := false;
                        m_type := ""; m_func := ""; m_zero := "" |}) ms.

(* ctor.go makeCtorMatch (function): returns the parameters, the write set and hasNonZero *)
Definition ctor_match (exp : list mfield) (params : list mfield) (tags : list (string * string)) (qual : string)
  (funcs : list (string * string * string)) (wset : list string) : list mfield * list string * bool :=
  match params with
  | [] => (params, wset, false)
  | _ =>
      let '(ps, ws) :=
        fold_left (fun a f =>
          fold_left (fun a pn =>
            let '(ps, ws) := a in
            match mget pn ps with
            | None => a
            | Some p =>
                if m_isset f then a
                else if negb (can_name_match f p tags) then a
                else if smem (m_name p) ws then a
                else
                  let '(same, conv) := match_type (m_ty f) (m_ty p) in
                  if same then (mupd pn (fun p => mf_set_target (mf_set_assign p) (m_name f)) ps, sadd pn ws)
                  else if conv then (mupd pn (fun p => mf_set_target (mf_set_conv p (qual ++ m_ty p)) (m_name f)) ps, sadd pn ws)
                  else
                    fold_left (fun a fn =>
                                 match fn with
                                 | (fname, fparam, fres) =>
                                     if (fparam =? m_ty f) && (fres =? m_ty p)
                                     then (mupd pn (fun p => mf_set_target (mf_set_func p fname) (m_name f)) (fst a), sadd pn (snd a))
                                     else a
                                 end) funcs a
            end) (map m_name params) a) exp (params, wset) in
      let ps' := map (fun p => match m_target p with Some _ => p | None => mf_set_zero p (zero_value (m_ty p)) end) ps in
      (ps', ws, existsb (fun p => match m_target p with Some _ => true | None => false end) ps')
  end.

(* pass state of makeTypeMismatch / makeTypeMatch: the two shared field lists, the write-once sets, the read/write maps *)
Definition pstate := (list mfield * list mfield * list string * list string * list (string * string) * list (string * string))%type.

(* mismatch.go makeFuncMap *)
Definition func_map (funcs : list (string * string * string)) (n1 n2 : string) (ps : pstate) : pstate :=
  fst (fold_left (fun (a : pstate * bool) fn =>
         let '(ps, stop) := a in
         if stop then a
         else
           let '(Sf, Df, ws, wd, rs, wm) := ps in
           match mget n1 Sf, mget n2 Df, fn with
           | Some f1, Some f2, (fname, fparam, fres) =>
               let '(Sf1, D1, wd1, rs1) :=
                 if negb (smem n2 wd) && negb (m_isget f2) && (fparam =? m_ty f1) && (fres =? m_ty f2)
                 then (mupd n1 (fun f => mf_set_target f n2) Sf, mupd n2 (fun f => mf_set_func f fname) Df, sadd n2 wd, upsert n1 n2 rs)
                 else (Sf, Df, wd, rs) in
               let '(Sf2, D2, ws2, wm2) :=
                 if negb (smem n1 ws) && negb (m_isget f1) && (fparam =? m_ty f2) && (fres =? m_ty f1)
                 then (mupd n1 (fun f => mf_set_func f fname) Sf1, mupd n2 (fun f => mf_set_target f n1) D1, sadd n1 ws, upsert n1 n2 wm)
                 else (Sf1, D1, ws, wm) in
               let both := match mget n1 Sf2, mget n2 D2 with
                           | Some g1, Some g2 => match m_target g1, m_target g2 with Some _, Some _ => true | _, _ => false end
                           | _, _ => false
                           end in
               ((Sf2, D2, ws2, wd1, rs1, wm2), both)
           | _, _, _ => a
           end) funcs (ps, false)).

Definition for_pairs (tags : list (string * string)) (body : string -> string -> pstate -> pstate) (ps : pstate) : pstate :=
  let '(S0, D0, _, _, _, _) := ps in
  fold_left (fun a n1 =>
    fold_left (fun a n2 =>
      let '(Sf, Df, _, _, _, _) := a in
      match mget n1 Sf, mget n2 Df with
      | Some f1, Some f2 => if can_name_match f1 f2 tags then body n1 n2 a else a
      | _, _ => a
      end) (map m_name D0) a) (map m_name S0) ps.

(* mismatch.go makeSubMap (the non-slice form): both fields have a named struct type (or a pointer to one), of the package
   and of the destination package: dest.F = src.F.ToDest() / src.F = FromDest(dest.F).  Nothing here looks at the type
   list of the run or at generated methods.  CanMap + Type + the two IsPtr flags are kept in the m_func slot as one token *)
Definition strip_star (t : string) : string * bool :=
  if has_prefix "*" t then (substring 1 (String.length t - 1) t, true) else (t, false).
Definition sub_map_pair (v dv : pview) (qual : string) (n1 n2 : string) (ps : pstate) : pstate :=
  let '(Sf, Df, ws, wd, rs, wm) := ps in
  match mget n1 Sf, mget n2 Df with
  | Some f1, Some f2 =>
      let '(t1, p1) := strip_star (m_ty f1) in
      let '(t2, p2) := strip_star (m_ty f2) in
      match find_struct v t1, find_struct dv t2 with
      | Some _, Some _ =>
          let tok := "sub:" ++ (if p1 then "*" else "") ++ ":" ++ (if p2 then "*" else "") ++ ":" in
          let '(Sf1, D1, wd1, rs1) :=
            if negb (smem n2 wd) && negb (m_isget f2)
            then (mupd n1 (fun f => mf_set_target f n2) Sf, mupd n2 (fun f => mf_set_func f (tok ++ qual ++ t2)) Df, sadd n2 wd, upsert n1 n2 rs)
            else (Sf, Df, wd, rs) in
          if negb (smem n1 ws) && negb (m_isget f1)
          then (mupd n1 (fun f => mf_set_func f (tok ++ t1)) Sf1, mupd n2 (fun f => mf_set_target f n1) D1, sadd n1 ws, wd1, rs1, upsert n1 n2 wm)
          else (Sf1, D1, ws, wd1, rs1, wm)
      | _, _ => ps
      end
  | _, _ => ps
  end.

(* match.go makeTypeMatch, one pair *)
Definition type_match_pair (qual : string) (n1 n2 : string) (ps : pstate) : pstate :=
  let '(Sf, Df, ws, wd, rs, wm) := ps in
  match mget n1 Sf, mget n2 Df with
  | Some f1, Some f2 =>
      let '(same, conv) := match_type (m_ty f1) (m_ty f2) in
      let convback := snd (match_type (m_ty f2) (m_ty f1)) in
      let '(Sf1, D1, wd1, rs1) :=
        if negb (smem n2 wd) && negb (m_isget f2) then
          let '(Sf', wd', rs') := if same || conv then (mupd n1 (fun f => mf_set_target f n2) Sf, sadd n2 wd, upsert n1 n2 rs) else (Sf, wd, rs) in
          (Sf', (if same then mupd n2 mf_set_assign Df else if conv then mupd n2 (fun f => mf_set_conv f (qual ++ m_ty f2)) Df else Df), wd', rs')
        else (Sf, Df, wd, rs) in
      if negb (smem n1 ws) && negb (m_isget f1) then
        let '(D2, ws2, wm2) := if same || convback then (mupd n2 (fun f => mf_set_target f n1) D1, sadd n1 ws, upsert n1 n2 wm) else (D1, ws, wm) in
        ((if same then mupd n1 mf_set_assign Sf1 else if convback then mupd n1 (fun f => mf_set_conv f (m_ty f1)) Sf1 else Sf1), D2, ws2, wd1, rs1, wm2)
      else (Sf1, D1, ws, wd1, rs1, wm)
  | _, _ => ps
  end.

(* check.go prepareReadPaths *)
Fixpoint prefixes {A : Type} (l : list A) : list (list A) :=      (* proper, non-empty prefixes, shortest first *)
  match l with
  | [] => []
  | x :: r => match r with [] => [] | _ => [x] :: map (cons x) (prefixes r) end
  end.
Definition prepare_read_paths (fs : list mfield) (ptrs : list (string * string)) : list (string * list string) :=
  fold_left (fun m f =>
               match m_path f with
               | _ :: _ :: _ =>
                   match filter (fun p => ahas p ptrs) (map pkey (prefixes (m_path f))) with
                   | [] => m
                   | rp => upsert (m_name f) rp m
                   end
               | _ => m
               end) fs [].

(* types.go Field.CoveredBy *)
Fixpoint is_prefix_l (p l : list string) : bool :=
  match p, l with
  | [], _ :: _ => true
  | x :: p', y :: l' => (x =? y) && is_prefix_l p' l'
  | _, _ => false
  end.
Fixpoint split_dots_aux (s cur : string) : list string :=
  match s with
  | EmptyString => [cur]
  | String c r => if Ascii.eqb c "."%char then cur :: split_dots_aux r "" else split_dots_aux r (cur ++ String c EmptyString)
  end.
Definition split_dots (s : string) : list string := split_dots_aux s "".
Definition covered_by (f : mfield) (path : string) : bool :=
  let ps := split_dots path in
  (pkey (m_path f) =? path) || is_prefix_l ps (m_path f) ||
  (match m_path f with _ :: _ :: _ => last (m_path f) "" =? last ps "" | _ => false end).

(* check.go nilCheckWrite, one side: for the fields selected by [sel], in order, every pointer path (in map
   order) that covers the field and is not yet recorded *)
Definition nil_check_write (o : oracle) (fs : list mfield) (sel : mfield -> bool) (ptrs : list (string * string))
  : list (string * string) * list string :=
  let '(m, l) :=
    fold_left (fun a f =>
                 if sel f && match m_path f with _ :: _ :: _ => true | _ => false end then
                   fold_left (fun a pt => if ahas (fst pt) (fst a) then a
                                          else if covered_by f (fst pt) then (upsert (fst pt) (snd pt) (fst a), snd a +++ [fst pt])
                                          else a) (o _ ptrs) a
                 else a) fs ([], []) in
  (m, sort_strings l).

(* mapper.Generator.MakeData, statement by statement.  hw-side view [v], destination package view [dv] *)
Definition map_make_gen (rs : resets) (o : oracle) (c : cmd) (destpkg : string) (dv : pview) (st : mstate) (v : pview) (T : string)
  : mres mdata mstate :=
  let qual := destpkg ++ "." in
  (* loadMorePkgs: g.mappingFuncList = nil; an embedded empty struct of the package with methods is the mapper:
     parseMapper then assigns g.mappingFuncList *)
  let funcs0 : list (string * string * string) := if rs_mfuncs rs then [] else ms_funcs st in
  let funcs := match find_struct v T with
               | Some (_, _, s) =>
                   fold_left (fun a it => match it with
                                          | IEmbed n _ _ =>
                                              match find_struct v n with
                                              | Some (_, _, ms) =>
                                                  match ss_items ms with
                                                  | [] => flat_map (fun x => match x with
                                                                             | (_, _, HFuncs r fs) => if r =? n then fs else []
                                                                             | _ => []
                                                                             end) (pv_hand v)
                                                  | _ => a
                                                  end
                                              | None => a
                                              end
                                          | IField _ => a
                                          end) (ss_items s) funcs0
               | None => funcs0
               end in
  (* parseSrcFields: g.exportedFields = nil; g.unexportedFields = nil; g.srcTagMap = {}; parseFields appends *)
  match mparse_fields v "" T true (if rs_mtags rs then [] else ms_tags st) with
  | None => MFatal                                (* src type not exists *)
  | Some (exp_, unexp_, tags, sptr) =>
      let exp := (if rs_mfields rs then [] else ms_exp st) +++ exp_ in
      let unexp := (if rs_mfields rs then [] else ms_unexp st) +++ unexp_ in
      (* parseDestFields *)
      match mparse_fields dv qual T false [] with
      | None => if specified c then MFatal else
                  MSkip {| ms_data := None; ms_exp := exp; ms_unexp := unexp;
                           ms_dexp := if rs_mfields rs then [] else ms_dexp st;
                           ms_dunexp := if rs_mfields rs then [] else ms_dunexp st;
                           ms_gsm := ms_gsm st; ms_dgsm := ms_dgsm st; ms_sptr := sptr; ms_dptr := [];
                           ms_spaths := ms_spaths st; ms_dpaths := ms_dpaths st; ms_funcs := funcs;
                           ms_wsrc := ms_wsrc st; ms_wdest := ms_wdest st; ms_rsm := ms_rsm st; ms_wsm := ms_wsm st;
                           ms_tags := tags; ms_sctor := ms_sctor st; ms_dctor := ms_dctor st |}
      | Some (dexp_, dunexp_, _, dptr) =>
          let dexp := (if rs_mfields rs then [] else ms_dexp st) +++ dexp_ in
          let dunexp := (if rs_mfields rs then [] else ms_dunexp st) +++ dunexp_ in
          (* parseCtors: g.srcCtorParams = nil; g.destCtorParams = nil; assigned only for shoot-new types *)
          let sctor := if has_shootnew v T then parse_ctors v T else if rs_mctor rs then [] else ms_sctor st in
          let dctor := if has_shootnew dv T then parse_ctors dv T else if rs_mctor rs then [] else ms_dctor st in
          (* parseMethods: g.getsetMethods = nil; g.destGetSetMethods = nil; assigned only for shoot-new types *)
          let gsm := if has_shootnew v T then parse_getset_iface v T else if rs_mmeth rs then [] else ms_gsm st in
          let dgsm := if has_shootnew dv T then parse_getset_iface dv T else if rs_mmeth rs then [] else ms_dgsm st in
          (* parseManual: g.writeSrcSet = {}; g.writeDestSet = {} (no manual methods in this grammar) *)
          let wsrc0 : list string := if rs_msets rs then [] else ms_wsrc st in
          let wdest0 : list string := if rs_msets rs then [] else ms_wdest st in
          (* makeCompatible *)
          let exp1 := compatlize exp gsm in
          let dexp1 := compatlize dexp dgsm in
          (* makeCtorMatch *)
          let '(dctor1, wdest1, dnz) := ctor_match exp1 dctor tags qual funcs wdest0 in
          let '(sctor1, wsrc1, snz) := ctor_match dexp1 sctor [] "" funcs wsrc0 in
          (* makeTypeMismatch: g.writeSrcMap = {}; g.readSrcMap = {}; then makeTypeMatch *)
          let ps0 : pstate := (exp1, dexp1, wsrc1, wdest1,
                               (if rs_mmaps rs then [] else ms_rsm st), (if rs_mmaps rs then [] else ms_wsm st)) in
          let ps1 := for_pairs tags (fun n1 n2 ps => sub_map_pair v dv qual n1 n2 (func_map funcs n1 n2 ps)) ps0 in
          let '(Sf, Df, ws, wd, rsm, wm) := for_pairs tags (type_match_pair qual) ps1 in
          (* makeReadCond: g.srcPathsMap = {}; g.destPathsMap = {} / nilCheckRead / nilCheckWrite *)
          let spaths := prepare_read_paths Sf sptr in
          let dpaths := prepare_read_paths Df dptr in
          let srcread := fold_left (fun m f => match alookup (m_name f) rsm with
                                               | Some d => if ahas (m_name f) spaths then upsert (m_name f) d m else m
                                               | None => m
                                               end) Sf [] in
          let destread := fold_left (fun m f => match alookup (m_name f) wm with
                                                | Some d => if ahas d dpaths then upsert (m_name f) d m else m
                                                | None => m
                                                end) Sf [] in
          let '(sptrmap, sptrlist) := nil_check_write o Sf (fun f => ahas (m_name f) wm) sptr in
          let '(dptrmap, dptrlist) := nil_check_write o Df (fun f => existsb (fun e => snd e =? m_name f) rsm) dptr in
          let d := {| md_cmd := c_line c; md_type := T; md_dest := T; md_qdest := qual ++ T; md_destpkg := destpkg;
                      md_toonly := c_toonly c; md_fromonly := c_fromonly c;
                      md_srcctor := if snz then sctor1 else []; md_destctor := if dnz then dctor1 else [];
                      md_srcfields := Sf; md_destfields := Df;
                      md_srcptrmap := sptrmap; md_srcptrlist := sptrlist; md_destptrmap := dptrmap; md_destptrlist := dptrlist;
                      md_srcread := srcread; md_destread := destread |} in
          MOk d false
            {| ms_data := Some d; ms_exp := Sf; ms_unexp := unexp; ms_dexp := Df; ms_dunexp := dunexp; ms_gsm := gsm; ms_dgsm := dgsm;
               ms_sptr := sptr; ms_dptr := dptr; ms_spaths := spaths; ms_dpaths := dpaths; ms_funcs := funcs;
               ms_wsrc := ws; ms_wdest := wd; ms_rsm := rsm; ms_wsm := wm; ms_tags := tags; ms_sctor := sctor1; ms_dctor := dctor1 |}
      end
  end.
Definition map_make := map_make_gen all_resets.

(* mapper.tmpl; condofread reads g.srcPathsMap / g.destPathsMap when the template runs *)
Definition map_render (st : mstate) (d : mdata) : afile :=
  let T := md_type d in
  let dp := pascal (md_destpkg d) in
  let ev (n : string) (isget : bool) := n ++ (if isget then "()" else "") in
  let cond (paths : list (string * list string)) (n : string) :=
    join "&&" (sort_strings (match alookup n paths with Some l => l | None => [] end)) in
  let stmts (fs other : list mfield) (readmap : list (string * string)) (readkey : mfield -> mfield -> string)
            (paths : list (string * list string)) (condkey : mfield -> string) : list string :=
    flat_map (fun sf =>
                match m_target sf with
                | None => []
                | Some tn =>
                    match mget tn other with
                    | None => ["?" ++ tn]
                    | Some df =>
                        (if ahas (readkey sf df) readmap then ["if " ++ cond paths (condkey sf)] else []) +++
                        (if m_canassign df then [m_name df ++ (if m_isset df then "(" else "=") ++ ev (m_name sf) (m_isget sf)] else []) +++
                        (if m_isconv df then [m_name df ++ (if m_isset df then "(" else "=") ++ m_type df ++ "(" ++ ev (m_name sf) (m_isget sf) ++ ")"] else []) +++
                        (if m_func df =? "" then [] else [m_name df ++ (if m_isset df then "(" else "=") ++ m_func df ++ "(" ++ ev (m_name sf) (m_isget sf) ++ ")"])
                    end
                end) fs in
  let ctor_args (ps other : list mfield) : list string :=
    flat_map (fun p =>
                if negb (m_zero p =? "") then [m_zero p ++ " //" ++ pkey (m_path p)]
                else match m_target p with
                     | None => []
                     | Some tn =>
                         match mget tn other with
                         | None => ["?" ++ tn]
                         | Some f =>
                             (if m_canassign p then [ev (m_name f) (m_isget f) ++ " //" ++ pkey (m_path p)] else []) +++
                             (if m_isconv p then [m_type p ++ "(" ++ ev (m_name f) (m_isget f) ++ ") //" ++ pkey (m_path p)] else []) +++
                             (if m_func p =? "" then [] else [m_func p ++ "(" ++ ev (m_name f) (m_isget f) ++ ") //" ++ pkey (m_path p)])
                         end
                     end) ps in
  let to_ : list adecl := if md_fromonly d then [] else
    [{| d_name := T ++ ".To" ++ dp; d_kind := KMethod T; d_doc := true; d_tail := false; d_needs := ["@dest"];
        d_toks := [md_qdest d] +++
                  (match md_destctor d with
                   | [] => "new" :: map (fun p => p ++ ":" ++ match alookup p (md_destptrmap d) with Some t => t | None => "" end) (md_destptrlist d)
                   | ps => "ctor" :: ctor_args ps (md_srcfields d)
                   end) +++
                  stmts (md_srcfields d) (md_destfields d) (md_srcread d) (fun sf _ => m_name sf) (ms_spaths st) m_name |}] in
  let from_ : list adecl := if md_toonly d then [] else
    [{| d_name := T ++ ".From" ++ dp; d_kind := KMethod T; d_doc := true; d_tail := false; d_needs := ["@dest"];
        d_toks := [md_qdest d] +++
                  (match md_srcctor d with
                   | [] => "reset" :: map (fun p => p ++ ":" ++ match alookup p (md_srcptrmap d) with Some t => t | None => "" end) (md_srcptrlist d)
                   | ps => "ctor" :: ctor_args ps (md_destfields d)
                   end) +++
                  stmts (md_destfields d) (md_srcfields d) (md_destread d) (fun _ sf => m_name sf) (ms_dpaths st) m_name |}] in
  mk_file (md_cmd d)
    (to_ +++ from_ +++
     [{| d_name := T ++ ".ShootMap"; d_kind := KMethod T; d_doc := true; d_tail := true; d_needs := []; d_toks := [T] |}]).

(* ------------------------------------------------------------------ *)
(* generatorbase.go Generate, generic in the generator                 *)

Section Loop.
  Context {St Data : Type}.
  Variable make : St -> pview -> string -> mres Data St.
  Variable render : St -> Data -> afile.          (* runs on the state MakeData left behind *)
  Variable list_types : view -> list string.      (* ListTypes of the generator, without the -file filter *)
  Variable c : cmd.
  Variable o : oracle.
  Variable hw : list hfile.
  Variable disk : gfiles.

  (* confirmTypes: the type list and fileNameMap; None = Fatal *)
  Definition confirm_types (v : view) : option (list string * list (string * string)) :=
    if specified c then
      fold_left (fun a T =>
                   match a with
                   | None => None
                   | Some (ts, fm) =>
                       let gofile := get_go_file o v T in
                       if c_file c =? "" then Some (ts, upsert T gofile fm)
                       else if c_file c =? gofile then Some (ts, fm) else None
                   end) (c_types c) (Some (c_types c, []))
    else
      Some (list_types (filter (fun f => (c_file c =? "") || (fst f =? c_file c)) v), []).

  Fixpoint gen_loop (types : list string) (fmap : list (string * string)) (st : St) (overlay : gfiles)
           (srcmap : gfiles) (srclist : list afile) : option (gfiles * list afile * gfiles * St) :=
    match types with
    | [] => Some (srcmap, srclist, overlay, st)
    | T :: rest =>
        let v := mk_view hw disk overlay in
        match make st (pview_of v) T with
        | MFatal => None
        | MSkip st' => gen_loop rest fmap st' overlay srcmap srclist
        | MOk d stale st' =>
            let src := render st' d in
            let fname := file_name c (all_in_one_file c v) fmap T in
            (* if isStale && i < len(TypeNames)-1 { g.overlay[filename] = src; g.LoadPackage() } *)
            let overlay' := if stale && match rest with [] => false | _ => true end then upsert fname src overlay else overlay in
            if separate c then
              (* if _, dup := srcMap[filename]; dup { logx.Fatalf("more than one type is written to ...") } *)
              if ahas fname srcmap then None
              else gen_loop rest fmap st' overlay' (upsert fname src srcmap) srclist
            else gen_loop rest fmap st' overlay' srcmap (srclist +++ [src])
        end
    end.

  (* Generate: the source map (file name -> content); None = Fatal *)
  Definition generate (st0 : St) : option gfiles :=
    let v0 := mk_view hw disk [] in
    match confirm_types v0 with
    | None => None
    | Some (types, fmap) =>
        match gen_loop types fmap st0 [] [] [] with
        | None => None
        | Some (srcmap, srclist, overlay, _) =>
            match merge srclist with
            | None => Some srcmap
            | Some m =>
                let v := mk_view hw disk overlay in
                Some (upsert (file_name c (all_in_one_file c v) fmap "") m srcmap)
            end
        end
    end.
End Loop.

(* ListTypes of the four generators: package-level declarations of every file of the package, in package order.
   Generated files are ordinary files for the loader: `new` lists every struct type whose name does not start with
   `_` (the _json_T helper of `new -json` is skipped by that test, the unexported client struct that `rest` generates
   is NOT: open finding K_new_selects_generated), `map` every exported struct; no generated file declares an integer
   type or an interface embedding shoot.RestClient. *)
Definition eligible_gen (sc : subcmd) (a : afile) : list string :=
  flat_map (fun d => match d_kind d, sc with
                     | KType, CNew => if has_prefix "_" (d_name d) then [] else [d_name d]
                     | KType, CMap => if is_exported (d_name d) then [d_name d] else []
                     | _, _ => []
                     end) (a_decls a).
Definition eligible_hand (sc : subcmd) (d : hdecl) : list string :=
  match d with
  | HStruct s =>
      match sc with
      | CNew => if has_prefix "_" (ss_name s) then [] else [ss_name s]
      | CMap => if is_exported (ss_name s) then [ss_name s] else []
      | _ => []
      end
  | HInt n => match sc with CEnum => [n] | _ => [] end
  | HIface r => match sc with CRest => [ri_name r] | _ => [] end
  | _ => []
  end.
Definition list_types_of (sc : subcmd) (v : view) : list string :=
  flat_map (fun f => match snd f with
                     | FHand h => flat_map (eligible_hand sc) (h_decls h)
                     | FGen a => eligible_gen sc a
                     end) v.

(* a package directory: hand-written files, files generated by OTHER shoot subcommands (inputs: the
   constructor/accessors of a shoot-new type the mapper reads), and for `map` the destination package *)
Record pkg := {
  p_hw : list hfile;
  p_aux : gfiles;
  p_destname : string;
  p_dest : list hfile;
  p_destaux : gfiles
}.

Definition disk_of (p : pkg) (prior : gfiles) : gfiles := overlay_apply (p_aux p) prior.

(* g.Generate(g) of the selected subcommand; [prior] = what earlier runs of this command left on disk *)
Definition run_generate (o : oracle) (p : pkg) (prior : gfiles) (c : cmd) : option gfiles :=
  let disk := disk_of p prior in
  match c_sub c with
  | CNew => generate (new_make c) (fun _ d => new_render d) (list_types_of CNew) c o (p_hw p) disk nstate0
  | CEnum => generate (enum_make c) enum_render (list_types_of CEnum) c o (p_hw p) disk estate0
  | CRest => generate (rest_make o c) (fun _ d => rest_render d) (list_types_of CRest) c o (p_hw p) disk rstate0
  | CMap => generate (map_make o c (p_destname p) (pview_of (mk_view (p_dest p) (p_destaux p) []))) map_render
                     (list_types_of CMap) c o (p_hw p) disk mstate0
  end.

(* ------------------------------------------------------------------ *)
(* main.go: write loop and Clean                                       *)

(* generatorbase.go Clean *)
Definition clean (c : cmd) (aio : string) (dir : gfiles) : gfiles :=
  if separate c then dir
  else if aio =? "" then dir
  else
    let genfile := file_name c aio [] "" in
    filter (fun e =>
              (fst e =? genfile)
              || negb (contains (".shoot" ++ sub_name (c_sub c)) (fst e) && ends_with ".go" (fst e))
              || contains "-type=*" (a_cmd (snd e))
              || negb (has_prefix ("shoot " ++ sub_name (c_sub c) ++ " ") (a_cmd (snd e)))) dir.

Inductive outcome :=
| OFatal                                  (* exit 1, the directory is untouched *)
| ODone (written : list string) (dir : gfiles).   (* exit 0: names written (in write order), generated files now in the directory *)

(* one process execution.  The generated files of this command that are in the directory before: [prior]. *)
Definition run (o : oracle) (p : pkg) (prior : gfiles) (c : cmd) : outcome :=
  match run_generate o p prior c with
  | None => OFatal
  | Some srcmap =>
      let order := o _ srcmap in                     (* for fname, src := range srcMap *)
      let dir := fold_left (fun d e => upsert (fst e) (snd e) d) order prior in
      match srcmap with
      | [] => ODone [] dir                           (* "nothing generated": no Clean *)
      | _ => ODone (map fst order)
                   (clean c (all_in_one_file c (mk_view (p_hw p) (disk_of p prior) [])) dir)
      end
  end.

(* what `ls` + `cat` of the generated files shows *)
Definition listing (dir : gfiles) : gfiles := sort_by_key fst dir.
Definition out_listing (r : outcome) : option gfiles :=
  match r with OFatal => None | ODone _ dir => Some (listing dir) end.
