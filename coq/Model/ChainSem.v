(* C19 x C20: RestConf.BuildMiddleware over an ARBITRARY carrier of RoundTrippers.

   Model/RestRuntime.v runs the reverse index loop of BuildMiddleware over event traces (a
   RoundTripper = the trace it produces, a middleware = a function on traces), which decides the
   ORDER of wrapping.  The loop itself does not depend on what a RoundTripper is: here it is the
   same literal loop over any type [T], so that it can be instantiated with the behavioural
   RoundTrippers of Model/RetryStack.v ([tr]: result, events and wire calls) and the chain that
   NewRest builds from Use(RetryMiddleware(n, d)) options gets a meaning, not only a shape. *)
From Coq Require Import List ZArith Bool.
From Shoot Require Import Model.Retry Model.RetryStack.
Import ListNotations.

Section Chain.
Variable T : Type.
Variable logmw : T -> T.          (* middleware.LoggingMiddleware *)

(* restclient.go BuildMiddleware:
     t := base
     for i := len(mws) - 1; i >= 0; i-- { t = mws[i](t) }
     if enableLogging { t = LoggingMiddleware(t) }        [k] = i + 1 *)
Fixpoint build_loop_sem (mws : list (T -> T)) (k : nat) (t : T) : T :=
  match k with
  | O => t
  | S i => build_loop_sem mws i (nth i mws (fun x => x) t)
  end.

Definition build_sem (mws : list (T -> T)) (logging : bool) (base : T) : T :=
  let t := build_loop_sem mws (List.length mws) base in
  if logging then logmw t else t.

Definition compose_sem (mws : list (T -> T)) (base : T) : T :=
  fold_right (fun m acc => m acc) base mws.
End Chain.

(* the chain NewRest builds from Use(RetryMiddleware(n_1, d)), ..., Use(RetryMiddleware(n_k, d)) *)
Definition retry_chain (ns : list Z) (logging : bool) (base : tr) : tr :=
  build_sem tr log_tr (map retry_tr ns) logging base.

(* product of the attempts each instance may make *)
Definition budget (ns : list Z) : nat :=
  fold_right (fun n acc => Z.to_nat (n + 1) * acc) 1 ns.
