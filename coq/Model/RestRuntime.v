(* Model of the rest runtime (C19):
     restclient.go                     RestConf, Use, BuildMiddleware, Register, NewRest, ctorRegistry
     constructor.go                    NewWith
     restclient.shootnew.restconf.go   the options BaseURL/Timeout/EnableLogging/DefaultHeaders, getters
     middleware/middleware.go, logging.go
     internal/restclient/restclient.tmpl:143-153   the generated init(): the constructor a generated
                                       client registers (conf, http.Client{Timeout, Transport})

   Go values that the property only passes around are kept abstract:
     - a middleware value is an element of a type [M] (an identity); [interp : M -> mw] gives its
       behaviour when the chain is executed;
     - a reflect.Type key of ctorRegistry is a [nat] (type identity);
     - a constructor func(RestConf) T is a Gallina function [conf -> Client].
   No proofs in this file. *)
From Coq Require Import List ZArith Bool String.
Import ListNotations.
Local Open Scope Z_scope.

(* defects of /repo reproduced by this model (DESIGN section 3) *)
Inductive finding := K_rest_timeout.
Definition fenv := finding -> bool.
Definition no_defect : fenv := fun _ => false.
Definition all_defects : fenv := fun _ => true.

(* ------------------------------------------------------------------ *)
(* RestConf and its options                                            *)

(* map[string]string: nil map = None; a non-nil map is its entry list (the
   property only stores and returns it) *)
Definition headers := option (list (string * string)).

Section Conf.
Context {M : Type}.          (* middleware values *)

Record conf := mkConf {
  c_base : string;           (* baseURL        string            *)
  c_timeout : Z;             (* timeout        time.Duration = int64 nanoseconds *)
  c_logging : bool;          (* enableLogging  bool              *)
  c_headers : headers;       (* defaultHeaders map[string]string *)
  c_mws : list M             (* _middlewares   []middleware.Middleware *)
}.

(* new(RestConf): every field has its zero value *)
Definition conf0 : conf :=
  {| c_base := EmptyString; c_timeout := 0; c_logging := false; c_headers := None; c_mws := [] |}.

(* the five option constructors, as syntax ... *)
Inductive opt :=
| OBaseURL (s : string)
| OTimeout (d : Z)
| OLogging (b : bool)
| OHeaders (h : headers)
| OUse (m : M).

(* ... and as the closures they return (func(r *RestConf) { r.f = v } ;
   Use: r._middlewares = append(r._middlewares, m)) *)
Definition denote (o : opt) : conf -> conf :=
  fun r =>
  match o with
  | OBaseURL s => mkConf s (c_timeout r) (c_logging r) (c_headers r) (c_mws r)
  | OTimeout d => mkConf (c_base r) d (c_logging r) (c_headers r) (c_mws r)
  | OLogging b => mkConf (c_base r) (c_timeout r) b (c_headers r) (c_mws r)
  | OHeaders h => mkConf (c_base r) (c_timeout r) (c_logging r) h (c_mws r)
  | OUse m => mkConf (c_base r) (c_timeout r) (c_logging r) (c_headers r) (c_mws r ++ [m])
  end.

(* constructor.go NewWith: t := new(T); SetDefault only if T has it (RestConf
   has no SetDefault method); for _, opt := range opts { opt(t) } *)
Definition new_with (fs : list (conf -> conf)) : conf :=
  fold_left (fun r f => f r) fs conf0.

Definition apply_opts (os : list opt) : conf := new_with (map denote os).


(* ---- declarative reading of an option list (specification side: used by the
   theorems and by the boolean property of the correspondence; independent of
   fold_left / denote) *)
Definition picks {A : Type} (sel : opt -> option A) (os : list opt) : list A :=
  flat_map (fun o => match sel o with Some a => [a] | None => [] end) os.
Definition last_of {A : Type} (sel : opt -> option A) (zero : A) (os : list opt) : A :=
  last (picks sel os) zero.
Definition sel_base (o : opt) := match o with OBaseURL s => Some s | _ => None end.
Definition sel_timeout (o : opt) := match o with OTimeout d => Some d | _ => None end.
Definition sel_logging (o : opt) := match o with OLogging b => Some b | _ => None end.
Definition sel_headers (o : opt) := match o with OHeaders h => Some h | _ => None end.
Definition uses (os : list opt) : list M :=
  flat_map (fun o => match o with OUse m => [m] | _ => [] end) os.

(* ------------------------------------------------------------------ *)
(* the middleware chain                                                *)

(* What executing a RoundTripper once does, as far as the property can see:
   the events it emits, in order.  (What the wrappers return is not part of C19 and
   not modelled: the tagging middlewares pass results through; LoggingMiddleware returns (nil, err) on
   an error, dropping a response that accompanied it.) *)
Inductive event :=
| EIn (tag : nat) | EOut (tag : nat)      (* a tagging middleware before / after calling next *)
| ELogIn | ELogOut                        (* LoggingMiddleware: start := time.Now() ... log.Printf after next returned *)
| EBase.                                  (* the wrapped transport (http.DefaultTransport) performs the request *)

Definition rt := list event.              (* a RoundTripper = its event trace *)
Definition mw := rt -> rt.                (* middleware.Middleware *)

(* the tagging middlewares of the quantifier: emit, call next, emit *)
Definition tag_mw (i : nat) : mw := fun next => [EIn i] ++ next ++ [EOut i].
(* middleware/logging.go *)
Definition log_mw : mw := fun next => [ELogIn] ++ next ++ [ELogOut].

(* restclient.go BuildMiddleware:
     t := base
     for i := len(mws) - 1; i >= 0; i-- { t = mws[i](t) }
     if enableLogging { t = LoggingMiddleware(t) }
   [k] = i + 1 counts the indices still to visit *)
Fixpoint build_loop (mws : list mw) (k : nat) (t : rt) : rt :=
  match k with
  | O => t
  | S i => build_loop mws i (nth i mws (fun x => x) t)
  end.

Definition build (mws : list mw) (logging : bool) (base : rt) : rt :=
  let t := build_loop mws (List.length mws) base in
  if logging then log_mw t else t.


(* ---- specification side: the properly nested trace of a chain of tagging
   middlewares, and the order in which wrappers are entered *)
Definition nested_trace (logging : bool) (tags : list nat) : rt :=
  (if logging then [ELogIn] else []) ++ map EIn tags ++ [EBase] ++ rev (map EOut tags)
  ++ (if logging then [ELogOut] else []).
(* the order in which the wrappers (and finally the base transport) are entered *)
Definition is_entry (e : event) : bool :=
  match e with EIn _ | ELogIn | EBase => true | EOut _ | ELogOut => false end.
Definition entries (t : rt) : rt := filter is_entry t.

Definition build_conf (interp : M -> mw) (r : conf) (base : rt) : rt :=
  build (map interp (c_mws r)) (c_logging r) base.

(* ------------------------------------------------------------------ *)
(* the constructor registered by a generated client (template init())  *)

Definition wrap64 (z : Z) : Z := (z + 2 ^ 63) mod 2 ^ 64 - 2 ^ 63.
Definition in_int64 (z : Z) : bool := (- 2 ^ 63 <=? z) && (z <? 2 ^ 63).
Definition second : Z := 10 ^ 9.

Record gclient := {
  g_iface : nat;             (* which generated implementation type this is *)
  g_conf : conf;             (* conf: &conf   (a copy of what NewRest passed) *)
  g_timeout : Z;             (* client.Timeout *)
  g_transport : rt           (* client.Transport *)
}.

(* Timeout: time.Duration(conf.Timeout()) * time.Second  -- conf.Timeout() is
   already a Duration, so this multiplies nanoseconds by 10^9 in int64
   (K_rest_timeout); the property asks for conf.Timeout(). *)
Definition client_timeout (F : fenv) (r : conf) : Z :=
  if F K_rest_timeout then wrap64 (c_timeout r * second) else c_timeout r.

Definition gen_ctor (F : fenv) (interp : M -> mw) (base : rt) (iface : nat) : conf -> gclient :=
  fun r => {| g_iface := iface; g_conf := r; g_timeout := client_timeout F r;
              g_transport := build_conf interp r base |}.

(* ------------------------------------------------------------------ *)
(* ctorRegistry, Register, NewRest                                     *)

Section Registry.
Variable Client : Type.      (* the interface value a constructor returns *)

Definition ctor := conf -> Client.
Definition registry := list (nat * ctor).      (* map[reflect.Type]any *)

Fixpoint lookup (r : registry) (t : nat) : option ctor :=
  match r with
  | [] => None
  | (t', c) :: r' => if Nat.eqb t' t then Some c else lookup r' t
  end.

Inductive op :=
| Register (t : nat) (c : ctor)
| NewRest (t : nat) (os : list opt).

Inductive outcome :=
| Registered
| Built (cl : Client)
| PanicDup (t : nat)         (* "ctor of interface T should not be registered multiple times" *)
| PanicNotReg (t : nat).     (* "ctor of interface T is not regstered" *)

(* Register:  _, ok := reg[typ]; if ok { panic }; reg[typ] = ctor
   NewRest:   conf := NewWith(opts...); ctor, ok := reg[typ]; if !ok { panic };
              typedCtor := ctor.(func(RestConf) T)  -- cannot fail: Register[T] stored exactly that type
              return typedCtor( *conf )
   A panic leaves the registry as it was (the harness recovers and goes on). *)
Definition step (r : registry) (o : op) : registry * outcome :=
  match o with
  | Register t c =>
      match lookup r t with
      | Some _ => (r, PanicDup t)
      | None => (r ++ [(t, c)], Registered)
      end
  | NewRest t os =>
      let cf := new_with (map denote os) in
      match lookup r t with
      | None => (r, PanicNotReg t)
      | Some c => (r, Built (c cf))
      end
  end.

Fixpoint run (r : registry) (ops : list op) : registry * list outcome :=
  match ops with
  | [] => (r, [])
  | o :: ops' =>
      let '(r1, out) := step r o in
      let '(r2, outs) := run r1 ops' in
      (r2, out :: outs)
  end.

Definition state_after (ops : list op) : registry := fst (run [] ops).

(* declarative reading of a history prefix *)
Fixpoint first_ctor (pre : list op) (t : nat) : option ctor :=
  match pre with
  | [] => None
  | Register t' c :: pre' => if Nat.eqb t' t then Some c else first_ctor pre' t
  | NewRest _ _ :: pre' => first_ctor pre' t
  end.

Definition outcome_spec (pre : list op) (o : op) : outcome :=
  match o with
  | Register t c =>
      match first_ctor pre t with Some _ => PanicDup t | None => Registered end
  | NewRest t os =>
      match first_ctor pre t with
      | None => PanicNotReg t
      | Some c => Built (c (apply_opts os))
      end
  end.


End Registry.
End Conf.

Arguments conf : clear implicits.
Arguments opt : clear implicits.
Arguments gclient : clear implicits.
Arguments ctor : clear implicits.
Arguments registry : clear implicits.
Arguments op : clear implicits.
Arguments Registered {Client}.
Arguments Built {Client}.
Arguments PanicDup {Client}.
Arguments PanicNotReg {Client}.
Arguments Register {M Client}.
Arguments NewRest {M Client}.
