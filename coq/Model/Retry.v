(* Model of middleware/retry.go : RetryMiddleware(maxRetries, delay).
   Literal transcription of the loop

     for attempt := 0; attempt <= maxRetries; attempt++ {
        if attempt > 0 { log; time.Sleep(delay) }
        resp, err = next.RoundTrip(req)
        if err == nil && resp.StatusCode < 500 { return resp, nil }
     }
     return resp, err

   The wrapped transport is a script: the i-th call (0-based) returns
   [script i].  A response is an identity (so that "that first acceptable
   response" can be stated) plus a status code in Z; an error is an identity.
   No proofs in this file. *)
From Coq Require Import List ZArith Bool.
Import ListNotations.
Local Open Scope Z_scope.

Record resp := { r_id : nat; r_status : Z }.

(* What one RoundTrip call returns.  Go allows (resp, err) both non-nil. The
   contract-violating (nil, nil) is excluded (the real code would dereference
   nil): it is not an element of this type. *)
Inductive rt_out :=
| RResp (r : resp)                       (* (resp, nil) *)
| RErr (e : nat) (r : option resp).      (* (resp-or-nil, err) *)

Inductive event := ESleep | ECall (i : nat).

Definition result := (option resp * option nat)%type.   (* (resp, err) *)

Definition acceptable (o : rt_out) : bool :=
  match o with
  | RResp r => r_status r <? 500
  | RErr _ _ => false
  end.

Definition as_result (o : rt_out) : result :=
  match o with
  | RResp r => (Some r, None)
  | RErr e r => (r, Some e)
  end.

(* fuel = number of iterations still allowed = maxRetries + 1 - attempt *)
Fixpoint loop (script : nat -> rt_out) (fuel attempt : nat) (last : result)
  : list event * result :=
  match fuel with
  | O => ([], last)
  | S fuel' =>
      let pre := match attempt with O => [] | S _ => [ESleep] end in
      let o := script attempt in
      if acceptable o then (pre ++ [ECall attempt], (fst (as_result o), None))
      else let '(ev, r) := loop script fuel' (S attempt) (as_result o) in
           (pre ++ ECall attempt :: ev, r)
  end.

Definition retry (n : Z) (script : nat -> rt_out) : list event * result :=
  loop script (Z.to_nat (n + 1)) O (None, None).

Definition calls (ev : list event) : nat :=
  length (filter (fun e => match e with ECall _ => true | _ => false end) ev).
Definition sleeps (ev : list event) : nat :=
  length (filter (fun e => match e with ESleep => true | _ => false end) ev).

(* script from a finite list; calls beyond the list repeat [dflt] *)
Definition script_of (l : list rt_out) (dflt : rt_out) : nat -> rt_out :=
  fun i => nth i l dflt.
