(* Model of the command-line front end of shoot (C16):

     internal/shoot/generatorbase.go  ParseCommonFlags, fileName, LoadPackage
                                      (the findCmdLine scan), TestFile, getGoFile,
                                      confirmTypes, Generate
     internal/{constructor,enumer,restclient,mapper}/generator.go
                                      ListTypes / testNode / MakeData (the part
                                      that decides whether a type is generated)
     cmd/shoot/main.go                the success message

   The functions are written literally (same walks, same order, same quirks).
   A package is a skeleton: files, each a list of declarations carrying exactly
   the facts the code inspects (syntactic shape of the right-hand side,
   integer underlying type, alias, `_` prefix, typed constants, function-local
   type declarations, //go:generate comment lines).  No proofs in this file. *)
From Coq Require Import List String Ascii Bool Arith.
Import ListNotations.
Local Open Scope string_scope.

(* ------------------------------------------------------------------ strings *)

Definition is_upper_ascii (c : ascii) : bool :=
  let n := nat_of_ascii c in Nat.leb 65 n && Nat.leb n 90.

Definition lower_ascii (c : ascii) : ascii :=
  if is_upper_ascii c then ascii_of_nat (nat_of_ascii c + 32) else c.

(* strings.ToLower on ASCII identifiers *)
Fixpoint lower (s : string) : string :=
  match s with
  | EmptyString => EmptyString
  | String c s' => String (lower_ascii c) (lower s')
  end.

(* ast.IsExported on ASCII identifiers: first character is an upper-case letter *)
Definition is_exported (s : string) : bool :=
  match s with
  | EmptyString => false
  | String c _ => is_upper_ascii c
  end.

Definition has_prefix (p s : string) : bool := String.prefix p s.

(* [s] ends with [suf] *)
Fixpoint ends_with (suf s : string) : bool :=
  (s =? suf) ||
  match s with
  | EmptyString => false
  | String _ s' => ends_with suf s'
  end.

(* strings.TrimSuffix(s, ".go") *)
Fixpoint trim_go (s : string) : string :=
  if s =? ".go" then EmptyString
  else match s with
       | EmptyString => EmptyString
       | String c s' => String c (trim_go s')
       end.

Fixpoint drop (n : nat) (s : string) : string :=
  match n, s with
  | O, _ => s
  | S n', String _ s' => drop n' s'
  | S _, EmptyString => EmptyString
  end.

(* strings.Split(s, ",") *)
Fixpoint split_comma_aux (s cur : string) : list string :=
  match s with
  | EmptyString => [cur]
  | String c s' =>
      if Ascii.eqb c ","%char then cur :: split_comma_aux s' EmptyString
      else split_comma_aux s' (cur ++ String c EmptyString)
  end.
Definition split_comma (s : string) : list string := split_comma_aux s EmptyString.

Fixpoint join (sep : string) (l : list string) : string :=
  match l with
  | [] => EmptyString
  | [x] => x
  | x :: l' => x ++ sep ++ join sep l'
  end.

Fixpoint index_eq (c : ascii) (s : string) : option nat :=
  match s with
  | EmptyString => None
  | String d s' => if Ascii.eqb c d then Some 0
                   else match index_eq c s' with Some n => Some (S n) | None => None end
  end.

Fixpoint take (n : nat) (s : string) : string :=
  match n, s with
  | O, _ => EmptyString
  | S n', String c s' => String c (take n' s')
  | S _, EmptyString => EmptyString
  end.

Definition mem (x : string) (l : list string) : bool := existsb (String.eqb x) l.

(* --------------------------------------------------------------- subcommands *)

Inductive subcmd := CNew | CEnum | CRest | CMap.

Definition sub_name (c : subcmd) : string :=
  match c with CNew => "new" | CEnum => "enum" | CRest => "rest" | CMap => "map" end.

Definition subcmd_eqb (a b : subcmd) : bool :=
  match a, b with
  | CNew, CNew | CEnum, CEnum | CRest, CRest | CMap, CMap => true
  | _, _ => false
  end.

(* "shoot" ++ subCmd, the middle part of every output name *)
Definition shootcmd (c : subcmd) : string := "shoot" ++ sub_name c.

(* ----------------------------------------------------------------- skeleton *)

(* syntactic shape of the right-hand side of a type spec (what testNode sees) *)
Inductive rhs :=
| RStruct                      (* struct { ... } *)
| RIface (rest : bool)         (* interface { ... }; rest = embeds shoot.RestClient[...] *)
| RNamed.                      (* an identifier, qualified identifier, slice, map, func ... *)

Record tspec := {
  ts_name : string;
  ts_alias : bool;             (* type A = ... *)
  ts_rhs : rhs;
  ts_int : bool;               (* go/types: the underlying type is an integer basic type *)
  ts_tparams : list string     (* names of the type parameters (generic struct) *)
}.

Inductive decl :=
| DType (specs : list tspec)               (* one GenDecl: type X ... | type ( ... ) *)
| DConst (ty : string) (names : list string)
                                           (* const ( N1 ty = iota; N2; ... ): constants declared with type identifier ty *)
| DFunc (locals : list tspec)              (* a func whose body declares local types *)
| DComment (text : string).                (* one // comment line (e.g. a //go:generate line) *)

Record file := { f_name : string; f_decls : list decl }.

(* p_files is in pkg.Syntax order (go list: sorted by file name); p_dest holds
   the package-level type specs of the destination package of `shoot map`;
   p_others are the names (relative to the package directory, possibly with a
   path component) of existing .go files that packages.Load does NOT make part
   of the package: _test.go files (Tests: false), files excluded by a build
   constraint, files starting with `_` or `.`, files of sub-directories *)
Record pkg := { p_files : list file; p_dest : list tspec; p_others : list string }.

Definition is_struct (t : tspec) : bool := match ts_rhs t with RStruct => true | _ => false end.
Definition is_rest_iface (t : tspec) : bool := match ts_rhs t with RIface true => true | _ => false end.

(* the TypeSpec nodes the walkers reach in a file, in source order: since the
   repair of K_local_type_listed (shoot.InspectTopLevel) only the specs of
   package-level type declarations; function bodies are not entered *)
Definition top_decl (d : decl) : list tspec := match d with DType l => l | _ => [] end.
Definition top_specs (f : file) : list tspec := flat_map top_decl (f_decls f).
Definition pkg_specs (p : pkg) : list tspec := flat_map top_specs (p_files p).

Definition local_decl (d : decl) : list tspec := match d with DFunc l => l | _ => [] end.
Definition local_specs (p : pkg) : list tspec :=
  flat_map (fun f => flat_map local_decl (f_decls f)) (p_files p).

(* the names of a const spec that makeStr records: `_` is skipped *)
Definition real_names (names : list string) : list string := filter (fun n => negb (n =? "_")) names.

(* number of constants declared with type identifier T, over all files *)
Definition consts_decl (T : string) (d : decl) : nat :=
  match d with
  | DConst ty names => if ty =? T then List.length (real_names names) else 0
  | _ => 0
  end.
Definition consts_of (p : pkg) (T : string) : nat :=
  fold_right (fun f n => fold_right (fun d m => consts_decl T d + m) 0 (f_decls f) + n) 0 (p_files p).

(* ------------------------------------------------------------ common flags *)

Record cflags := {
  fl_cmdline : string;         (* "shoot " ++ strings.Join(args, " ") *)
  fl_types : list string;      (* TypeNames *)
  fl_specified : bool;         (* isTypeSpecified: -type given and not exactly "*" *)
  fl_file : string;            (* FileName *)
  fl_sep : bool;               (* Separate = isTypeSpecified || -sep || -separate *)
  fl_dir : string              (* FixPath(sub.Arg(0)) *)
}.

(* shoot.FixPath *)
Definition fix_path (s : string) : string :=
  if s =? "" then "."
  else if has_prefix "." s || has_prefix "/" s then s
  else "./" ++ s.

(* kinds of flags known to a sub-FlagSet *)
Inductive fkind := FBool | FString | FTagCase | FWay.

Definition common_flag (n : string) : option fkind :=
  if mem n ["type"; "file"; "version"; "ver"] then Some FString
  else if mem n ["separate"; "sep"; "verbose"; "v"; "raw"; "r"] then Some FBool
  else None.

Definition flag_kind (c : subcmd) (n : string) : option fkind :=
  match common_flag n with
  | Some k => Some k
  | None =>
      match c with
      | CNew => if mem n ["getset"; "json"; "option"; "opt"; "exported"; "exp"; "short"] then Some FBool
                else if n =? "tagcase" then Some FTagCase else None
      | CEnum => if mem n ["bit"; "bitwise"; "json"; "text"; "sql"; "gorm"] then Some FBool else None
      | CRest => None
      | CMap => if mem n ["path"; "alias"; "to"] then Some FString
                else if n =? "way" then Some FWay
                else if n =? "i" then Some FBool else None
      end
  end.

(* strconv.ParseBool *)
Definition parse_bool (s : string) : option bool :=
  if mem s ["1"; "t"; "T"; "TRUE"; "true"; "True"] then Some true
  else if mem s ["0"; "f"; "F"; "FALSE"; "false"; "False"] then Some false
  else None.

Definition value_ok (k : fkind) (v : string) : bool :=
  match k with
  | FBool => match parse_bool v with Some _ => true | None => false end
  | FString => true
  | FTagCase => mem v ["pascal"; "camel"; "lower"; "upper"]
  | FWay => mem v ["toonly"; "->"; "fromonly"; "<-"; "both"; "<->"]
  end.

(* result of the standard library's FlagSet.Parse with flag.ExitOnError *)
Inductive parsed :=
| PFlags (vals : list (string * string)) (rest : list string)   (* later settings appended *)
| PHelp                                                        (* -h / -help: usage, exit 0 *)
| PBad.                                                        (* any other error: usage, exit 2 *)

(* flag.FlagSet.parseOne, iterated; fuel = number of arguments *)
Fixpoint parse_args (c : subcmd) (fuel : nat) (args : list string) (acc : list (string * string)) : parsed :=
  match fuel with
  | O => PFlags acc args
  | S fuel' =>
      match args with
      | [] => PFlags acc []
      | s :: args' =>
          match s with
          | String "-" (String c1 s2) =>
              if (Ascii.eqb c1 "-") && (s2 =? "") then PFlags acc args'          (* "--" terminates *)
              else
                let name0 := if Ascii.eqb c1 "-" then s2 else String c1 s2 in
                match name0 with
                | EmptyString => PBad
                | String d _ =>
                    if Ascii.eqb d "-" || Ascii.eqb d "=" then PBad               (* bad flag syntax *)
                    else
                      let '(name, value, has_value) :=
                        match index_eq "=" name0 with
                        | Some i => (take i name0, drop (S i) name0, true)
                        | None => (name0, EmptyString, false)
                        end in
                      match flag_kind c name with
                      | None => if (name =? "help") || (name =? "h") then PHelp else PBad
                      | Some FBool =>
                          if has_value then
                            (if value_ok FBool value then parse_args c fuel' args' (acc ++ [(name, value)]) else PBad)
                          else parse_args c fuel' args' (acc ++ [(name, "true")])
                      | Some k =>
                          if has_value then
                            (if value_ok k value then parse_args c fuel' args' (acc ++ [(name, value)]) else PBad)
                          else match args' with
                               | [] => PBad                                      (* flag needs an argument *)
                               | v :: args'' =>
                                   if value_ok k v
                                   then parse_args c (Nat.pred fuel') args'' (acc ++ [(name, v)])
                                   else PBad
                               end
                      end
                end
          | _ => PFlags acc args          (* first non-flag argument: stop *)
          end
      end
  end.

(* the last setting of a flag wins *)
Fixpoint flag_val (n : string) (vals : list (string * string)) (dflt : string) : string :=
  match vals with
  | [] => dflt
  | (k, v) :: vals' => flag_val n vals' (if k =? n then v else dflt)
  end.

Definition flag_on (n : string) (vals : list (string * string)) : bool :=
  match parse_bool (flag_val n vals "false") with Some b => b | None => false end.

Inductive pres :=
| POk (fl : cflags) (vals : list (string * string))
| PUsage2                          (* usage, exit 2 *)
| PExit0.                          (* -h: usage, exit 0 *)

(* ParseCommonFlags up to (and including) the construction of CommonFlags; its
   two checks on -file (extension, existence) are [check_file_arg] below; the
   [dir] argument is assumed to exist.  args = the arguments after the subcommand name *)
Definition parse_common (c : subcmd) (args : list string) : pres :=
  match args with
  | [] => PUsage2                                       (* len(flag.Args()) <= 1 *)
  | _ =>
      match parse_args c (List.length args) args [] with
      | PBad => PUsage2
      | PHelp => PExit0
      | PFlags vals rest =>
          let tn := flag_val "type" vals "" in
          let fname := flag_val "file" vals "" in
          if (tn =? "") && (fname =? "") then PUsage2
          else
            let types := if tn =? "" then [] else split_comma tn in
            let specified := negb (tn =? "") && negb (tn =? "*") in
            POk {| fl_cmdline := "shoot " ++ join " " (sub_name c :: args);
                   fl_types := types;
                   fl_specified := specified;
                   fl_file := fname;
                   fl_sep := specified || flag_on "sep" vals || flag_on "separate" vals;
                   fl_dir := fix_path (hd "" rest) |} vals
      end
  end.

(* ------------------------------------------------- all-in-one file lookup *)

(* findCmdLine: regexp (?m)^//go:generate.*<QuoteMeta cmdline>$ on one // comment *)
Definition line_matches (cmdline line : string) : bool :=
  has_prefix "//go:generate" line && ends_with cmdline (drop 13 line).

(* strings.Split(s, "\n") *)
Fixpoint lines_aux (s cur : string) : list string :=
  match s with
  | EmptyString => [cur]
  | String c s' =>
      if Ascii.eqb c (ascii_of_nat 10) then cur :: lines_aux s' EmptyString
      else lines_aux s' (cur ++ String c EmptyString)
  end.
Definition lines (s : string) : list string := lines_aux s EmptyString.

(* a // comment is one line; a block comment is one *ast.Comment whose text spans
   several lines, and the (?m) flag lets ^ and $ match at every line of it *)
Definition find_cmd_line (text cmdline : string) : bool := existsb (line_matches cmdline) (lines text).

Definition file_has_cmdline (cmdline : string) (f : file) : bool :=
  existsb (fun d => match d with DComment t => find_cmd_line t cmdline | _ => false end) (f_decls f).

(* LoadPackage: only when -file is empty and "*" is among the type names; the
   first file (Syntax order) holding a matching comment; "" when there is none *)
Definition all_in_one_file (fl : cflags) (p : pkg) : string :=
  if (fl_file fl =? "") && mem "*" (fl_types fl) then
    match find (file_has_cmdline (fl_cmdline fl)) (p_files p) with
    | Some f => f_name f
    | None => ""
    end
  else "".

(* ------------------------------------------------------------- file names *)

Fixpoint assoc (k : string) (m : list (string * string)) : string :=
  match m with
  | [] => ""
  | (k', v) :: m' => if k' =? k then v else assoc k m'
  end.

(* the <type> component of a per-type output name *)
Definition type_part (T : string) : string := lower (if is_exported T then T else "_" ++ T).

(* GeneratorBase.fileName(typeName, false) *)
Definition file_name (c : subcmd) (fl : cflags) (aio : string) (fmap : list (string * string)) (T : string) : string :=
  let fname := if negb (fl_file fl =? "") then fl_file fl
               else if negb (aio =? "") then aio
               else assoc T fmap in
  let gofile := trim_go fname in
  if T =? "" then gofile ++ "." ++ shootcmd c ++ ".go"
  else gofile ++ "." ++ shootcmd c ++ "." ++ type_part T ++ ".go".

(* -------------------------------------------------------------- getGoFile *)

(* pkg.TypesInfo.Defs restricted to *types.TypeName objects: name, "its parent
   is the package scope", base name of the declaring file *)
Record tdef := { td_name : string; td_pkgscope : bool; td_file : string }.

Definition defs_of_file (f : file) : list tdef :=
  flat_map (fun d =>
    match d with
    | DType l => flat_map (fun t =>
        {| td_name := ts_name t; td_pkgscope := true; td_file := f_name f |} ::
        map (fun n => {| td_name := n; td_pkgscope := false; td_file := f_name f |}) (ts_tparams t)) l
    | DFunc l => map (fun t => {| td_name := ts_name t; td_pkgscope := false; td_file := f_name f |}) l
    | _ => []
    end) (f_decls f).
Definition defs_of (p : pkg) : list tdef := flat_map defs_of_file (p_files p).

(* an iteration order of a Go map *)
Definition oracle := forall A : Type, list A -> list A.
Definition id_oracle : oracle := fun _ l => l.

Definition get_go_file (o : oracle) (p : pkg) (T : string) : string :=
  match find (fun d => (td_name d =? T) && td_pkgscope d) (o _ (defs_of p)) with
  | Some d => td_file d
  | None => ""
  end.

(* --------------------------------------------------- eligibility filters *)

(* constructor.testNode / restclient.testNode / mapper.testNode with typename = "" *)
Definition test_node_list (c : subcmd) (t : tspec) : bool :=
  match c with
  | CNew => negb (has_prefix "_" (ts_name t)) && is_struct t
  | CRest => is_rest_iface t
  | CMap => is_struct t && is_exported (ts_name t)
  | CEnum => ts_int t && negb (ts_alias t)     (* enumer.ListTypes: integer underlying type, aliases warned and ignored *)
  end.

(* GeneratorBase.TestFile *)
Definition test_file (fl : cflags) (f : file) : bool :=
  (fl_file fl =? "") || (f_name f =? fl_file fl).

(* the four ListTypes *)
Definition list_types (c : subcmd) (fl : cflags) (p : pkg) : list string :=
  flat_map (fun f => if test_file fl f then map ts_name (filter (test_node_list c) (top_specs f)) else [])
           (p_files p).

(* ---------------------------------------------------------------- MakeData *)

Inductive diag :=
| DgNotExists          (* new: "type not exists" *)
| DgNotStruct          (* new: "type %s is not a struct type" *)
| DgNotInFile          (* "type %s is not in the specified file" *)
| DgAlias              (* enum: "type %s should not be an alias" *)
| DgNonIntConst        (* enum: "can't handle non-integer constant type" *)
| DgRestNotExists      (* rest: "rest client interface not exists" *)
| DgSrcNotExists       (* map: "src type not exists" *)
| DgDestNotExists      (* map: "dest type not exists" *)
| DgFileNotGo          (* ParseCommonFlags: "file must be a go file" *)
| DgFileNotExists      (* ParseCommonFlags: "file not exists" *)
| DgEnumNone           (* enum: "enum type not exists or has no constants" (explicit -type only) *)
| DgSameFile.          (* Generate: "more than one type is written to <file>" *)

Inductive md_res := MGen | MSkip | MFatal (d : diag).

(* constructor.parseFields: InspectTopLevel over every file with testNode(typeName) *)
Fixpoint new_walk (T : string) (l : list tspec) (found : bool) : md_res :=
  match l with
  | [] => if found then MGen else MFatal DgNotExists
  | t :: l' =>
      if negb (ts_name t =? T) then new_walk T l' found
      else if negb (is_struct t) then MFatal DgNotStruct
      else if has_prefix "_" (ts_name t) then new_walk T l' found
      else new_walk T l' true
  end.

(* is the type named by a constant's type identifier integer based?  (go/types
   on the constant's type; the identifier resolves to the package-level type) *)
Definition type_is_int (p : pkg) (T : string) : bool :=
  match find (fun t => ts_name t =? T) (pkg_specs p) with
  | Some t => ts_int t
  | None => false
  end.

(* enumer.makeStr: walk of the GenDecls of all files in order *)
Fixpoint enum_walk_specs (T : string) (l : list tspec) : bool :=   (* true = fatal alias *)
  match l with
  | [] => false
  | t :: l' => (ts_alias t && (ts_name t =? T)) || enum_walk_specs T l'
  end.

(* sp = isTypeSpecified: an explicitly named type without any constant is fatal
   (MakeData, after the walk), a listed one is skipped *)
Fixpoint enum_walk (p : pkg) (sp : bool) (T : string) (ds : list decl) (n : nat) : md_res :=
  match ds with
  | [] => if Nat.eqb n 0 then (if sp then MFatal DgEnumNone else MSkip) else MGen
  | DType l :: ds' => if enum_walk_specs T l then MFatal DgAlias else enum_walk p sp T ds' n
  | DFunc _ :: ds' => enum_walk p sp T ds' n                  (* function bodies are not entered *)
  | DConst ty names :: ds' =>
      if negb (ty =? T) then enum_walk p sp T ds' n
      else match real_names names with
           | [] => enum_walk p sp T ds' n
           | ns => if type_is_int p T then enum_walk p sp T ds' (n + List.length ns)
                   else MFatal DgNonIntConst
           end
  | DComment _ :: ds' => enum_walk p sp T ds' n
  end.

Definition all_decls (p : pkg) : list decl := flat_map f_decls (p_files p).

Definition make_data (c : subcmd) (p : pkg) (specified : bool) (T : string) : md_res :=
  match c with
  | CNew => new_walk T (pkg_specs p) false
  | CEnum => enum_walk p specified T (all_decls p) 0
  | CRest =>                                   (* cookClient: found / "rest client interface not exists" *)
      if existsb (fun t => (ts_name t =? T) && is_rest_iface t) (pkg_specs p) then MGen
      else MFatal DgRestNotExists
  | CMap =>                                    (* parseSrcFields, parseDestFields (testNode with a name: no exported test) *)
      if negb (existsb (fun t => (ts_name t =? T) && is_struct t) (pkg_specs p)) then MFatal DgSrcNotExists
      else if existsb (fun t => (ts_name t =? T) && is_struct t) (p_dest p) then MGen
      else if specified then MFatal DgDestNotExists else MSkip
  end.

(* ------------------------------------------------ confirmTypes + Generate *)

(* srcMap: file name -> the types whose generated code the file holds (in order) *)
Definition srcmap := list (string * list string).

Inductive outcome :=
| Done (files : srcmap) (listed : list string)    (* exit 0; listed = the file names of the success message
                                                    (empty together with files = [] : the "nothing generated" warning) *)
| Failed (d : diag).                              (* logx.Fatalf before any write: exit 1, no file *)

(* confirmTypes for an explicit -type list: Some fileNameMap, or None = fatal *)
Fixpoint confirm_specified (o : oracle) (p : pkg) (fl : cflags) (l : list string) (fmap : list (string * string))
  : option (list (string * string)) :=
  match l with
  | [] => Some fmap
  | T :: l' =>
      let gofile := get_go_file o p T in
      if fl_file fl =? "" then confirm_specified o p fl l' ((T, gofile) :: fmap)    (* map assignment: latest wins *)
      else if negb (fl_file fl =? gofile) then None
      else confirm_specified o p fl l' fmap
  end.

(* the loop of Generate over TypeNames *)
Fixpoint gen_loop (c : subcmd) (p : pkg) (fl : cflags) (aio : string) (fmap : list (string * string))
         (l : list string) (files : srcmap) (merged : list string) : option diag * srcmap * list string :=
  match l with
  | [] => (None, files, merged)
  | T :: l' =>
      match make_data c p (fl_specified fl) T with
      | MFatal d => (Some d, files, merged)
      | MSkip => gen_loop c p fl aio fmap l' files merged
      | MGen =>
          if fl_sep fl then
            let n := file_name c fl aio fmap T in
            if mem n (map fst files) then (Some DgSameFile, files, merged)      (* the name is taken: fatal, nothing written *)
            else gen_loop c p fl aio fmap l' (files ++ [(n, [T])])%list merged
          else gen_loop c p fl aio fmap l' files (merged ++ [T])
      end
  end.

(* cmd/shoot/main.go: `for fname, src := range srcMap { notedownSrc(dir, fname, src); fileNames = append(fileNames, fname) }`
   and, afterwards, the message printing fileNames.  l = srcMap in the order Go happens to iterate it. *)
Fixpoint main_loop (l : srcmap) (written : srcmap) (names : list string) : outcome :=
  match l with
  | [] => Done written names
  | (n, ts) :: l' => main_loop l' (written ++ [(n, ts)])%list (names ++ [n])%list
  end.

(* LoadPackage .. Generate .. the success message, for flags that passed ParseCommonFlags *)
Definition run_loaded (o : oracle) (c : subcmd) (fl : cflags) (p : pkg) : outcome :=
  let aio := all_in_one_file fl p in
  let confirmed :=
    if fl_specified fl then
      match confirm_specified o p fl (fl_types fl) [] with
      | Some fmap => Some (fl_types fl, fmap)
      | None => None
      end
    else Some (list_types c fl p, []) in
  match confirmed with
  | None => Failed DgNotInFile
  | Some (types, fmap) =>
      match gen_loop c p fl aio fmap types [] [] with
      | (Some d, _, _) => Failed d
      | (None, files, merged) =>
          let files' := match merged with
                        | [] => files
                        | _ => (files ++ [(file_name c fl aio fmap "", merged)])%list
                        end in
          main_loop (o _ files') [] []
      end
  end.

(* the two checks of ParseCommonFlags on -file: filepath.Ext(file) == ".go" and
   os.Stat(dir/file): the file exists when it is a file of the package or one
   of the other .go files below the directory (p_others). *)
Definition check_file_arg (fl : cflags) (p : pkg) : option diag :=
  if fl_file fl =? "" then None
  else if negb (ends_with ".go" (fl_file fl)) then Some DgFileNotGo
  else if negb (mem (fl_file fl) (map f_name (p_files p) ++ p_others p)%list) then Some DgFileNotExists
  else None.

Definition run (o : oracle) (c : subcmd) (fl : cflags) (p : pkg) : outcome :=
  match check_file_arg fl p with
  | Some d => Failed d
  | None => run_loaded o c fl p
  end.

(* the whole front end on the argument vector (args = what follows the subcommand name) *)
Inductive cli_out :=
| CUsage2                 (* usage text, exit 2, nothing written *)
| CHelp0                  (* -h: usage text, exit 0, nothing written *)
| CNotModelled            (* `shoot map -to=...`: the destination type renaming is outside this model *)
| COut (r : outcome).

Definition shoot_cli (o : oracle) (c : subcmd) (args : list string) (p : pkg) : cli_out :=
  match parse_common c args with
  | PUsage2 => CUsage2
  | PExit0 => CHelp0
  | POk fl vals =>
      if subcmd_eqb c CMap && negb (flag_val "to" vals "" =? "") then CNotModelled
      else COut (run o c fl p)
  end.
