(* Reference instances of the standard-library functions that enter Model/Rest.v as Section
   variables (fmt %v of a scalar, url.JoinPath followed by the server's decoding of the path,
   textproto.CanonicalMIMEHeaderKey).  They are compared with the real functions on every run
   (harness/go/cmd/restprobe, layer L0 of harness/c06.py) and are used (1) by the correspondence
   Corr/RestCorr.v and (2) to state what the open finding K_rest_path_percent does to the request.
   [join_plain] is what the property asks for: the substituted path appended to the base path. No proofs. *)
From Coq Require Import String Ascii List Bool Arith ZArith NArith DecimalString.
From Shoot Require Import Base.Str Model.Directive Model.Rest.
Import ListNotations.
Local Open Scope string_scope.

Definition dec (z : Z) : string := NilZero.string_of_int (Z.to_int z).     (* %v / %d of an integer *)
Definition fmt_std (v : sval) : string :=
  match v with
  | SStr s => s
  | SInt z => dec z
  | SBool true => "true"
  | SBool false => "false"
  end.

(* path.Clean of a rooted path *)
Fixpoint clean_segs (l : list string) (acc : list string) : list string :=
  match l with
  | [] => rev acc
  | x :: r =>
      if String.eqb x "" || String.eqb x "." then clean_segs r acc
      else if String.eqb x ".." then clean_segs r (tl acc)
      else clean_segs r (x :: acc)
  end.
Definition clean_rooted (s : string) : string := "/" ++ join "/" (clean_segs (split_c "/" s) []).
(* the path the server decodes for url.JoinPath(scheme://host ++ base, p) *)
Definition join_decoded (base p : string) : string :=
  let e0 := if String.prefix "/" base then base else "/" ++ base in
  let joined := if String.eqb p "" then e0 else e0 ++ "/" ++ p in
  let c := clean_rooted joined in
  if ends_with "/" p && negb (ends_with "/" c) then c ++ "/" else c.

Fixpoint canon_aux (up : bool) (s : string) : string :=
  match s with
  | EmptyString => EmptyString
  | String c r => String (if up then to_upper_c c else to_lower_c c) (canon_aux (Ascii.eqb c "-") r)
  end.
Definition canon (s : string) : string := canon_aux true s.


(* the path the property asks for: base path and substituted path joined by exactly one slash, no other
   change (coincides with join_decoded when the substituted path has no empty or dot segments) *)
Fixpoint strip_leading_slashes (s : string) : string :=
  match s with String c r => if Ascii.eqb c "/" then strip_leading_slashes r else s | EmptyString => EmptyString end.
Definition strip_trailing_slashes (s : string) : string := srev (strip_leading_slashes (srev s)).
Definition join_plain (base p : string) : string :=
  let b := strip_trailing_slashes base in
  let q := strip_leading_slashes p in
  if String.eqb q "" then (if String.eqb b "" then "/" else if ends_with "/" p then b ++ "/" else b)
  else b ++ "/" ++ q.
