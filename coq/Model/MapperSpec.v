(* DECLARATIVE reading of properties C05/C09 (what ToX/FromX must do), written
   without reference to shoot's two matching passes, its shared Field objects,
   write-once sets, path tables or the template:

     * the fields of a side are what Go's selector rule makes visible
       (for every exported name the unique shallowest field; `map:"-"` fields
       of the top level removed);
     * a destination field is written iff some visible field of the other side
       name-matches it and some strategy applies, by the priority
       mapper method > sub-struct ToX/FromX > element-wise > assignment > conversion;
     * its value is that strategy applied to the source value; nil pointers on
       the reading path, nil sub-struct pointers held against values, nil
       slices leave it zero; embedded pointer structs on the path of a written
       field are allocated; everything else is zero;
     * nil receiver/argument gives nil.

   [pair_guard] is the decidable input class on which the code is claimed to
   implement this reading (it excludes the classes of the open findings).
   Proofs/Mapper*Proofs.v relate Model/Mapper.v to this file. No proofs here. *)
From Coq Require Import String Ascii List Bool Arith ZArith.
From Shoot Require Import Base.Str Model.Transfer Model.MapVal Model.Mapper Model.MapperEval.
Import ListNotations.
Local Open Scope string_scope.
Local Open Scope list_scope.

Record leaf := {
  l_name : string;
  l_path : path;
  l_ty : ty;
  l_depth : nat;
  l_hops : list (path * ty);   (* pointer-embedded proper prefixes of l_path, shortest first, with the struct type *)
  l_tag : string               (* map tag (top level only; deeper tags must be absent, see guard) *)
}.

(* all plain fields reachable through embedded structs, depth first *)
Fixpoint leaves_of (e : env) (fuel : nat) (pre : path) (depth : nat) (hops : list (path * ty))
         (fs : list sfield) : list leaf :=
  match fuel with
  | O => []
  | S fuel' =>
      flat_map (fun f =>
        if sf_emb f then
          let q := pre ++ [type_name (sf_ty f)] in
          (* an embedded field that is not a struct promotes nothing: it is itself a
             field, named after its type (shoot drops it: K_map_embedded_nonstruct) *)
          let self := [{| l_name := type_name (sf_ty f); l_path := q; l_ty := sf_ty f; l_depth := depth;
                          l_hops := hops; l_tag := sf_tag f |}] in
          match sf_ty f with
          | TPtr (TNamed p n) =>
              match lookup_decl e p n with
              | Some (DStruct gs) => leaves_of e fuel' q (S depth) (hops ++ [(q, TNamed p n)]) gs
              | _ => self
              end
          | TNamed p n =>
              match lookup_decl e p n with
              | Some (DStruct gs) => leaves_of e fuel' q (S depth) hops gs
              | _ => self
              end
          | _ => self
          end
        else [{| l_name := sf_name f; l_path := pre ++ [sf_name f]; l_ty := sf_ty f; l_depth := depth;
                 l_hops := hops; l_tag := sf_tag f |}]) fs
  end.

(* names of the embedded fields themselves, with depth (they are selectable too) *)
Fixpoint embedded_names (e : env) (fuel : nat) (depth : nat) (fs : list sfield) : list (string * nat) :=
  match fuel with
  | O => []
  | S fuel' =>
      flat_map (fun f =>
        if sf_emb f then
          (type_name (sf_ty f), depth) ::
          match sf_ty f with
          | TPtr (TNamed p n) | TNamed p n =>
              match lookup_decl e p n with
              | Some (DStruct gs) => embedded_names e fuel' (S depth) gs
              | _ => []
              end
          | _ => []
          end
        else []) fs
  end.

Definition struct_fields (e : env) (p : pkg) (n : string) : option (list sfield) :=
  match lookup_decl e p n with Some (DStruct fs) => Some fs | _ => None end.

(* Go's selector rule on the leaves: the shallowest field of that name *)
Definition shallowest (ls : list leaf) (n : string) : option leaf :=
  fold_left (fun best l =>
               if String.eqb (l_name l) n then
                 match best with
                 | Some b => if Nat.ltb (l_depth l) (l_depth b) then Some l else best
                 | None => Some l
                 end
               else best) ls None.

Fixpoint nodup_names (seen : list string) (ls : list leaf) : list string :=
  match ls with
  | [] => []
  | l :: r => if existsb (String.eqb (l_name l)) seen then nodup_names seen r
              else l_name l :: nodup_names (l_name l :: seen) r
  end.

(* the mappable fields of a struct type: exported names, `map:"-"` of the top level removed *)
Definition visible (e : env) (fuel : nat) (p : pkg) (n : string) : list leaf :=
  match struct_fields e p n with
  | None => []
  | Some fs =>
      let ls := filter (fun l => negb (Nat.eqb (l_depth l) 0 && String.eqb (l_tag l) "-"))
                       (leaves_of e fuel [] 0 [] fs) in
      flat_map (fun nm => match shallowest ls nm with
                          | Some l => if is_exported nm then [l] else []
                          | None => [] end)
               (nodup_names [] ls)
  end.

(* source-side tags: field name |-> tag, as written, for top-level fields with a
   non-empty tag other than "-" *)
Definition tags_of (e : env) (n : string) : tagmap :=
  match struct_fields e PSrc n with
  | None => []
  | Some fs =>
      rev (flat_map (fun f => if negb (sf_emb f) && negb (String.eqb (sf_tag f) "") && negb (String.eqb (sf_tag f) "-")
                              then [(sf_name f, sf_tag f)] else []) fs)
  end.

(* two identifiers are the same name: identical or equal up to acronym casing; with -i, up to case *)
Definition same_name (ic : bool) (a b : string) : bool := if ic then equal_fold a b else smart_match a b.

(* "the names match": identical, equal up to acronym casing, through a
   `map:"Name"` tag, or case-insensitively with -i.  A tagged source field
   matches the destination field its tag names; the tag may also be written in
   another case style (`map:"user_name"` names UserName).  shoot keys its tag map
   by the Pascal form of the FIELD name and looks it up with the raw name, and
   compares the Pascal form of the tag only: a tag on a field whose name contains
   `_`, and a tag naming a destination field that contains `_`, are lost
   (K_map_tag_underscore, guard [tag_guard]). *)
Definition names_match (tm : tagmap) (ic : bool) (sname dname : string) : bool :=
  match tm_get tm sname with
  | Some t => same_name ic t dname || same_name ic (to_pascal_case t) dname
  | None => same_name ic sname dname
  end.

Definition elem_of (t : ty) : option ty := match t with TSlice x => Some x | _ => None end.

Definition sub_pair (st dt : ty) : option (bool * bool * string * string) :=
  let '(sp, s) := strip_ptr st in
  let '(dp, d) := strip_ptr dt in
  match s, d with
  | TNamed PSrc n1, TNamed PDst n2 => Some (sp, dp, n1, n2)
  | _, _ => None
  end.

(* strategy for writing a field of type [wt] from a field of type [rt];
   to_dir: the written side is the destination package *)
Definition choose (e : env) (fns : list mfunc) (to_dir : bool) (rt wt : ty) : option strategy :=
  match find (fun fn => type_equals (mf_param fn) rt && type_equals (mf_result fn) wt) fns with
  | Some fn => Some (SFunc (mf_name fn))
  | None =>
      let st := if to_dir then rt else wt in
      let dt := if to_dir then wt else rt in
      match sub_pair st dt with
      | Some (sp, dp, n1, n2) => Some (SMap sp dp n1 n2)
      | None =>
          match match elem_of st, elem_of dt with
                | Some a, Some b => sub_pair a b
                | _, _ => None end with
          | Some (sp, dp, n1, n2) => Some (SEach sp dp n1 n2)
          | None =>
              if type_equals rt wt then Some SAssign
              else if convertible e rt wt && negb (may_mis_conv e rt wt) then Some (SConv rt wt)
              else None
          end
      end
  end.

(* the planned pairs of one direction: (written leaf, read leaf, strategy) *)
Definition pairs_to (e : env) (fuel : nat) (jb : job) : list (leaf * leaf * strategy) :=
  let tm := tags_of e (j_src jb) in
  let ss := visible e fuel PSrc (j_src jb) in
  let ds := visible e fuel PDst (j_dst jb) in
  let manual := match j_manual_to jb with Some ns => ns | None => [] end in
  flat_map (fun d =>
    if existsb (String.eqb (l_name d)) manual then [] else
    match filter (fun s => names_match tm (j_ic jb) (l_name s) (l_name d)
                           && match choose e (j_funcs jb) true (l_ty s) (l_ty d) with Some _ => true | None => false end) ss with
    | s :: _ => match choose e (j_funcs jb) true (l_ty s) (l_ty d) with Some h => [(d, s, h)] | None => [] end
    | [] => []
    end) ds.

Definition pairs_from (e : env) (fuel : nat) (jb : job) : list (leaf * leaf * strategy) :=
  let tm := tags_of e (j_src jb) in
  let ss := visible e fuel PSrc (j_src jb) in
  let ds := visible e fuel PDst (j_dst jb) in
  let manual := match j_manual_from jb with Some ns => ns | None => [] end in
  flat_map (fun s =>
    if existsb (String.eqb (l_name s)) manual then [] else
    match filter (fun d => names_match tm (j_ic jb) (l_name s) (l_name d)
                           && match choose e (j_funcs jb) false (l_ty d) (l_ty s) with Some _ => true | None => false end) ds with
    | d :: _ => match choose e (j_funcs jb) false (l_ty d) (l_ty s) with Some h => [(s, d, h)] | None => [] end
    | [] => []
    end) ss.

(* --------------------------------------------------------------- values *)
(* allocate the embedded pointer structs on the way to a written leaf *)
Fixpoint alloc_hops (e : env) (zf : nat) (w : val) (hops : list (path * ty)) : option val :=
  match hops with
  | [] => Some w
  | (p, t) :: r =>
      match get_path w p with
      | Ok VNil => match set_path w p (VPtr (zero_val e zf t)) with Ok w' => alloc_hops e zf w' r | _ => None end
      | Ok _ => alloc_hops e zf w r
      | _ => None
      end
  end.

(* is some pointer hop on the way to the leaf nil in [v]? *)
Fixpoint hop_nil (v : val) (hops : list (path * ty)) : bool :=
  match hops with
  | [] => false
  | (p, _) :: r => match get_path v p with Ok VNil => true | Ok _ => hop_nil v r | _ => true end
  end.

Fixpoint find_job (jobs : list job) (n : string) : option job :=
  match jobs with [] => None | j :: r => if String.eqb (j_src j) n then Some j else find_job r n end.

Definition opt_out {A} (o : option A) : out A := match o with Some a => Ok a | None => Stuck end.
Definition out_opt {A} (o : out A) : option A := match o with Ok a => Some a | _ => None end.

Section Spec.
  Variable e : env.
  Variable zf : nat.
  Variable U : usem.
  Variable jobs : list job.

  Definition write_pairs (call : string -> val -> out val) (wpkg : pkg) (to_dir : bool)
             (r : val) (w0 : val) (prs : list (leaf * leaf * strategy)) : option val :=
    (* first every allocation, then every value *)
    match fold_left (fun acc x => match acc with
                                  | Some w => alloc_hops e zf w (l_hops (fst (fst x)))
                                  | None => None end) prs (Some w0) with
    | None => None
    | Some w1 =>
        fold_left (fun acc x =>
          let '(wl, rl, h) := x in
          match acc with
          | None => None
          | Some w =>
              if hop_nil r (l_hops rl) then Some w
              else match get_path r (l_path rl) with
                   | Ok x =>
                       match apply_strategy e zf U call wpkg to_dir false h x with
                       | Ok (Some y) => out_opt (set_path w (l_path wl) y)
                       | Ok None => Some w
                       | _ => None
                       end
                   | _ => None
                   end
          end) prs (Some w1)
    end.

  Fixpoint spec_to (fuel : nat) (tn : string) (recv : val) : option val :=
    match fuel with
    | O => None
    | S fuel' =>
        match find_job jobs tn, recv with
        | Some jb, VNil => Some VNil
        | Some jb, VPtr s =>
            match write_pairs (fun n y => opt_out (spec_to fuel' n y)) PDst true s
                              (zero_val e zf (TNamed PDst (j_dst jb))) (pairs_to e zf jb) with
            | Some d => Some (VPtr (match j_manual_to jb with
                                    | Some _ => u_manual_to U tn s d | None => d end))
            | None => None
            end
        | _, _ => None
        end
    end.

  Fixpoint spec_from (fuel : nat) (tn : string) (arg : val) : option val :=
    match fuel with
    | O => None
    | S fuel' =>
        match find_job jobs tn, arg with
        | Some jb, VNil => Some VNil
        | Some jb, VPtr d =>
            match write_pairs (fun n y => opt_out (spec_from fuel' n y)) PSrc false d
                              (zero_val e zf (TNamed PSrc (j_src jb))) (pairs_from e zf jb) with
            | Some s => Some (VPtr (match j_manual_from jb with
                                    | Some _ => u_manual_from U tn d s | None => s end))
            | None => None
            end
        | _, _ => None
        end
    end.
End Spec.

(* ---------------------------------------------------------------- guards *)
(* every embedded field, at every depth, is a declared struct (by value or pointer) *)
Fixpoint emb_structs (e : env) (fuel : nat) (fs : list sfield) : bool :=
  match fuel with
  | O => true
  | S fuel' =>
      forallb (fun f =>
        negb (sf_emb f)
        || match sf_ty f with
           | TPtr (TNamed p n) | TNamed p n =>
               match lookup_decl e p n with
               | Some (DStruct gs) => emb_structs e fuel' gs
               | _ => false
               end
           | _ => false
           end) fs
  end.

(* G1: selectors are unambiguous and field names do not collide with embedded
   type names; a top-level map:"-" name does not reappear deeper; deeper
   fields carry no map tag (shoot reads tags of the top level only) *)
Definition side_guard (e : env) (fuel : nat) (p : pkg) (n : string) : bool :=
  match struct_fields e p n with
  | None => false
  | Some fs =>
      let ls := leaves_of e fuel [] 0 [] fs in
      let en := embedded_names e fuel 0 fs in
      forallb (fun l =>
                 (* no other leaf of the same name at the same depth *)
                 Nat.eqb (length (filter (fun l' => String.eqb (l_name l') (l_name l) && Nat.eqb (l_depth l') (l_depth l)) ls)) 1
                 && negb (existsb (fun x => String.eqb (fst x) (l_name l)) en)
                 && (Nat.eqb (l_depth l) 0 || String.eqb (l_tag l) "")
                 && (negb (Nat.eqb (l_depth l) 0 && String.eqb (l_tag l) "-")
                     || Nat.eqb (length (filter (fun l' => String.eqb (l_name l') (l_name l)) ls)) 1)) ls
      && forallb (fun x => Nat.eqb (length (filter (fun y => String.eqb (fst y) (fst x) && Nat.eqb (snd y) (snd x)) en)) 1) en
      && forallb (fun x => negb (String.eqb (fst x) "")) en
      (* every embedded field expands to a declared struct (K_map_embedded_nonstruct otherwise) *)
      && emb_structs e fuel fs
  end.

(* G2: name matching is one-to-one between the visible fields *)
Definition no_fanout (e : env) (fuel : nat) (jb : job) : bool :=
  let tm := tags_of e (j_src jb) in
  let ss := visible e fuel PSrc (j_src jb) in
  let ds := visible e fuel PDst (j_dst jb) in
  forallb (fun s => Nat.leb (length (filter (fun d => names_match tm (j_ic jb) (l_name s) (l_name d)) ds)) 1) ss
  && forallb (fun d => Nat.leb (length (filter (fun s => names_match tm (j_ic jb) (l_name s) (l_name d)) ss)) 1) ds.

Definition is_struct (e : env) (p : pkg) (n : string) : bool :=
  match lookup_decl e p n with Some (DStruct _) => true | _ => false end.

(* G3: a sub-struct strategy refers to a generated mapper between exactly those
   two struct types (K_map_submap_unchecked otherwise);
   G4: FromX never converts INTO a named type of the source package
   (K_map_src_named_qualified) *)
(* G5: no mapper method is called through a pointer-embedded mapper (the call
   dereferences the embedded pointer, which FromX's own reset has just set to nil:
   K_map_mapper_ptr_embedded) *)
Definition strategies_ok (e : env) (jobs : list job) (mh : option path) (to_dir : bool)
           (prs : list (leaf * leaf * strategy)) : bool :=
  forallb (fun x =>
    match snd x with
    | SFunc _ => match mh with None => true | Some _ => false end
    | SMap _ _ n1 n2 | SEach _ _ n1 n2 =>
        is_struct e PSrc n1 && is_struct e PDst n2
        && match find_job jobs n1 with Some j => String.eqb (j_dst j) n2 | None => false end
    | SConv _ t =>
        to_dir || negb (match t with TNamed PSrc _ | TPtr (TNamed PSrc _) => true | _ => false end)
    | _ => true
    end) prs.

(* plain struct types on both sides (C05/C09); the accessor/constructor
   rendering is the subject of C15 *)
Definition plain_job (jb : job) : bool :=
  match j_src_acc jb, j_dst_acc jb, j_src_ctor jb, j_dst_ctor jb with
  | [], [], [], [] => negb (j_src_shootnew jb)
  | _, _, _, _ => false
  end.

(* K_map_tag_underscore: the tag of every tagged top-level source field is found
   (the field name is its own Pascal form) and the tag reaches every destination
   field it names (naming it as written implies naming it in Pascal form) *)
Definition tag_guard (e : env) (fuel : nat) (jb : job) : bool :=
  let ds := visible e fuel PDst (j_dst jb) in
  match struct_fields e PSrc (j_src jb) with
  | None => true
  | Some fs =>
      forallb (fun f =>
        sf_emb f || String.eqb (sf_tag f) "" || String.eqb (sf_tag f) "-"
        || (String.eqb (to_pascal_case (sf_name f)) (sf_name f)
            && forallb (fun d => negb (same_name (j_ic jb) (sf_tag f) (l_name d))
                                 || same_name (j_ic jb) (to_pascal_case (sf_tag f)) (l_name d)) ds)) fs
  end.

(* the guard knows which directions are generated (-way): a strategy that only the
   missing direction would need does not exclude the pair *)
Definition job_guard_w (w : way) (e : env) (fuel : nat) (jobs : list job) (jb : job) : bool :=
  plain_job jb && tag_guard e fuel jb
  && side_guard e fuel PSrc (j_src jb) && side_guard e fuel PDst (j_dst jb)
  && no_fanout e fuel jb
  && (negb (has_to w) || strategies_ok e jobs (j_mapper_hop jb) true (pairs_to e fuel jb))
  && (negb (has_from w) || strategies_ok e jobs (j_mapper_hop jb) false (pairs_from e fuel jb)).

Definition job_guard := job_guard_w WBoth.

Definition pair_guard_w (w : way) (e : env) (fuel : nat) (jobs : list job) : bool :=
  forallb (job_guard_w w e fuel jobs) jobs.

Definition pair_guard (e : env) (fuel : nat) (jobs : list job) : bool := pair_guard_w WBoth e fuel jobs.
