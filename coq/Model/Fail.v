(* Model of one run of the shoot binary as a pipeline of phases with an effect
   log (C18: failures are clean).

     cmd/shoot/main.go                 main, notedownSrc
     internal/shoot/generatorbase.go   ParseCommonFlags, LoadPackage/loadPkgs/findCmdLine,
                                       getGoFile, confirmTypes, Generate, fileName, Clean,
                                       isAllInOneFile, isGeneratedBy, firstLine
     internal/shoot/common.go          FixPath
     internal/constructor              ParseFlags, ListTypes, testNode, MakeData -> parseFields,
                                       extractTopFiels (parseGetSet), expandIfStruct/extractStructFields
     internal/enumer                   ParseFlags, ListTypes, MakeData -> makeStr
     internal/restclient               ListTypes, testNode, MakeData -> cookClient, handleExpr & co
     internal/mapper                   ParseFlags, LoadPackage, ListTypes, testNode, MakeData ->
                                       parseSrcFields/parseDestFields (expandIfStruct), parseCtors,
                                       parseMethods/parseGetSetMethods, parseManual
     internal/tools/logx               Fatal/Fatalf = diagnostic on stderr + exit status 1
     standard library flag             FlagSet.Parse with ExitOnError (exit 2, -h: exit 0)

   The input is a small abstract syntax of a Go package (files, declarations,
   struct fields, interface methods, method declarations) together with the raw
   command line and the state of the package directory.  The analyses are
   written literally along the control flow that leads to every exit: each
   logx.Fatal* site is a [diag], each place where the Go code can raise a runtime
   panic is a [psite], the two unbounded recursions are [lsite]s.  Everything
   that does not influence an exit (the data handed to the templates) is left
   out; text/template + goimports + gofmt are the oracle [i_render].

   No proofs in this file. *)
From Coq Require Import List String Ascii Bool Arith.
From Shoot Require Import Base.Str Model.Transfer.
Import ListNotations.
Local Open Scope string_scope.

(* ------------------------------------------------------------------ strings *)

Fixpoint sdrop (n : nat) (s : string) : string :=
  match n, s with
  | O, _ => s
  | S n', String _ r => sdrop n' r
  | S _, EmptyString => EmptyString
  end.

Fixpoint stake (n : nat) (s : string) : string :=
  match n, s with
  | O, _ => EmptyString
  | S n', String c r => String c (stake n' r)
  | S _, EmptyString => EmptyString
  end.

(* strings.Index: position of the first occurrence of pat in s *)
Fixpoint index_of (pat s : string) : option nat :=
  if String.prefix pat s then Some 0
  else match s with
       | EmptyString => None
       | String _ r => match index_of pat r with Some i => Some (S i) | None => None end
       end.

Definition contains (pat s : string) : bool :=
  match index_of pat s with Some _ => true | None => false end.

(* position of the last occurrence of the byte c *)
Fixpoint rindex_c (c : ascii) (s : string) : option nat :=
  match s with
  | EmptyString => None
  | String d r =>
      match rindex_c c r with
      | Some i => Some (S i)
      | None => if Ascii.eqb c d then Some 0 else None
      end
  end.

(* filepath.Ext on a name without path separators *)
Definition ext (s : string) : string :=
  match rindex_c "."%char s with Some i => sdrop i s | None => EmptyString end.

(* strings.TrimSuffix(s, ".go") *)
Definition trim_go (s : string) : string :=
  if ends_with ".go" s then stake (String.length s - 3) s else s.

Definition mem (x : string) (l : list string) : bool := existsb (String.eqb x) l.

Fixpoint assoc {A} (k : string) (l : list (string * A)) : option A :=
  match l with
  | [] => None
  | (k', v) :: r => if k' =? k then Some v else assoc k r
  end.

(* ------------------------------------------------------- exits of a run *)

Inductive subcmd := CNew | CEnum | CRest | CMap.

Definition sub_name (c : subcmd) : string :=
  match c with CNew => "new" | CEnum => "enum" | CRest => "rest" | CMap => "map" end.

Definition subcmd_of (s : string) : option subcmd :=
  if s =? "new" then Some CNew else if s =? "enum" then Some CEnum
  else if s =? "rest" then Some CRest else if s =? "map" then Some CMap else None.

(* one constructor per place where the process ends on purpose *)
Inductive diag :=
(* exit status 0 *)
| DVersion                 (* main.go:59  `shoot version` *)
| DHelp                    (* flag: -h / -help with ExitOnError: usage, os.Exit(0) *)
| DSuccess                 (* main.go:84  "go generate successfully" and Clean returned nil *)
| DNothing                 (* main.go:80  "nothing generated" *)
(* exit status 2: command-line errors *)
| DUsageNoArgs             (* main.go:50 *)
| DUsageUnknownSub         (* main.go:70 *)
| DTopFlag                 (* flag.Parse() of main: any top-level flag is undefined *)
| DUsageNoSubArgs          (* generatorbase.go:118 *)
| DFlagError               (* sub.Parse: undefined flag, bad syntax, invalid value, missing argument *)
| DUsageNoTypeNoFile       (* generatorbase.go:125 *)
(* exit status 1: logx.Fatal / logx.Fatalf *)
| DWorkDir                 (* generatorbase.go:140 *)
| DFileNotGo               (* generatorbase.go:146 *)
| DFileNotExists           (* generatorbase.go:151 *)
| DGormNeedsSql            (* enumer/generator.go:46 *)
| DToNeedsType             (* mapper/generator.go:103 *)
| DToAlign                 (* mapper/generator.go:108 *)
| DDestDir                 (* mapper/generator.go:124 *)
| DLoadError               (* generatorbase.go:219 *)
| DNoPackage               (* generatorbase.go:224 *)
| DMultiPkg                (* generatorbase.go:272, 286 *)
| DNotInFile               (* generatorbase.go:324 *)
| DNewNotExists            (* constructor/generator.go:91 *)
| DNewNotStruct            (* constructor/generator.go:132 *)
| DNewExportedGetSet       (* constructor/fields.go:194 *)
| DEnumAlias               (* enumer/str.go:35 *)
| DEnumNonInt              (* enumer/str.go:89 *)
| DEnumNotIntValue         (* enumer/str.go:93 *)
| DEnumNotExists           (* enumer/generator.go:94 *)
| DRestNotExists           (* restclient/cook.go:180 *)
| DRestParamType           (* restclient/paramhandler.go:29 *)
| DRestAmbiguousBody       (* restclient/paramhandler.go setBodyParamName *)
| DRestAmbiguousQuery      (* restclient/paramhandler.go handleMapType *)
| DRestNeedsBody           (* restclient/cook.go: POST/PUT/PATCH without a struct parameter *)
| DRestUnnamedParam        (* restclient/cook.go: an unnamed or blank parameter *)
| DRestPtrPathParam        (* restclient/cook.go: a pointer parameter fills a path placeholder *)
| DRestBadPath             (* restclient/cook.go:264 *)
| DRestFewResults          (* restclient/cook.go:141 *)
| DRestManyResults         (* restclient/cook.go:144 *)
| DRestSecondToLast        (* restclient/cook.go:149 *)
| DRestLast                (* restclient/cook.go:153 *)
| DRestNamedResults        (* restclient/cook.go:159 *)
| DRestReturnType          (* restclient/cook.go getReturnTypeName default *)
| DRestArrayReturn         (* restclient/cook.go getReturnTypeName: [N]T *)
| DRestExtract             (* restclient/paramhandler.go:71 *)
| DMapSrcNotExists         (* mapper/generator.go:174 *)
| DMapDestNotExists        (* mapper/generator.go:179 *)
| DMapPtrRecv              (* mapper/manual.go:44 *)
| DMapWriteParam           (* mapper/manual.go:97 *)
| DMapDupWrite             (* mapper/manual.go:103 *)
| DMapReadParam            (* mapper/manual.go:111 *)
| DMapDupRead              (* mapper/manual.go:118 *)
| DExecTemplate            (* generatorbase.go:394 *)
| DFormatSource            (* generatorbase.go:407 *)
| DMergeSources            (* generatorbase.go:375 *)
| DDupOutput               (* generatorbase.go:368 two selected types written to one file *)
| DCreateTemp              (* main.go:107 *)
| DWriteTemp               (* main.go:113 *)
| DRename                  (* main.go:120 *)
| DCleanError              (* main.go:94 *)
| DOther.                  (* never produced by the model: an unclassified message of the implementation *)

Definition exit_code (d : diag) : nat :=
  match d with
  | DVersion | DHelp | DSuccess | DNothing => 0
  | DUsageNoArgs | DUsageUnknownSub | DTopFlag | DUsageNoSubArgs | DFlagError | DUsageNoTypeNoFile => 2
  | _ => 1
  end.

(* The index expressions and pointer dereferences of the transcribed Go functions.  Each of
   them is written as a partial operation ([nth_or_panic], [deref]) AFTER the test that guards it
   in the Go source (e.g. `len(f.Names) == 0` before `f.Names[0]`, `tf == nil` before
   `tf.Name()`); that every one is unreachable is proved (C18_always_a_deliberate_exit), so a
   guard removed from the model, like one removed from the code, shows.  Panics of library code
   (go/types, packages.Load, text/template) have no site here: their absence is sampled only. *)
Inductive psite :=
| PTestFilePos          (* shoot/generatorbase.go TestFile: tf.Name() with tf = Fset.File(file.Pos()) *)
| PRestEmbedPkg         (* restclient/generator.go testNode: obj.Pkg().Path() *)
| PRestResultIndex      (* restclient/cook.go: results[n-2], results[n-1], results[0] *)
| PManualRecv0          (* mapper/manual.go: fn.Recv.List[0] *)
| PManualParam0         (* mapper/manual.go: fn.Type.Params.List[0] *)
| PFirstName            (* mapper/manual.go firstName: f.Names[0] *)
| PBodyWalk             (* ast.Inspect on funcDecl.Body / fn.Body (nil *ast.BlockStmt) *)
| PCtorResult0          (* mapper/ctor.go: fn.Type.Results.List[0] *)
| PAccRecv0             (* mapper/methods.go: fn.Recv.List[0] *)
| PAccParam0            (* mapper/methods.go: params.List[0] *)
| PAccResult0.          (* mapper/methods.go: results.List[0] *)

(* unbounded recursions *)
Inductive lsite :=
| LNewEmbed                (* constructor/fields.go expandIfStruct <-> extractStructFields *)
| LMapEmbed.               (* mapper/fields.go     expandIfStruct <-> extractStructFields *)

Inductive stop :=
| Exit (d : diag)          (* the process ends with exit_code d after printing the diagnostic d *)
| Panic (s : psite)        (* Go runtime panic: goroutine dump, exit status 2 *)
| Diverge (s : lsite).     (* does not terminate (until the stack limit kills it) *)

Inductive res (A : Type) :=
| Ok (a : A)
| Stop (s : stop).
Arguments Ok {A} a.
Arguments Stop {A} s.

Definition bind {A B} (m : res A) (k : A -> res B) : res B :=
  match m with Ok a => k a | Stop s => Stop s end.
Notation "'do' x <- m ; k" := (bind m (fun x => k)) (at level 200, x name, m at level 100, k at level 200).
Notation "'do_' m ; k" := (bind m (fun _ => k)) (at level 200, m at level 100, k at level 200).

Definition fatal {A} (d : diag) : res A := Stop (Exit d).
Definition guard (ok : bool) (d : diag) : res unit := if ok then Ok tt else fatal d.

(* run f over a list, stop at the first Stop *)
Fixpoint each {A} (f : A -> res unit) (l : list A) : res unit :=
  match l with
  | [] => Ok tt
  | x :: r => do_ f x; each f r
  end.

(* l[n]: a Go index expression *)
Definition nth_or_panic {A} (s : psite) (n : nat) (l : list A) : res A :=
  match nth_error l n with Some x => Ok x | None => Stop (Panic s) end.

(* p.f / p.m() through a pointer that may be nil *)
Definition deref {A} (s : psite) (o : option A) : res A :=
  match o with Some x => Ok x | None => Stop (Panic s) end.

(* ----------------------------------------------------- abstract Go syntax *)

(* type expressions as written (ast.Expr) *)
Inductive texpr :=
| TId (n : string)                 (* identifier *)
| TSel (q n : string)              (* q.n *)
| TStar (t : texpr)                (* *t *)
| TArr (t : texpr)                 (* []t : *ast.ArrayType without length *)
| TArrN (t : texpr)                (* [N]t : *ast.ArrayType with a length *)
| TMap (k v : texpr)               (* map[k]v *)
| TFunc                            (* func(...) ... *)
| TChan (t : texpr)                (* chan t *)
| TEll (t : texpr)                 (* ...t *)
| TGen (n : string) (a : texpr)    (* n[a] : *ast.IndexExpr *)
| TLit.                            (* struct{...} / interface{...} literal *)

(* one *ast.Field of a struct.  fd_get / fd_set: what parseGetSetComment finds in
   the doc comment; fd_newdash: the tag contains new:"-" *)
Record field := { fd_names : list string; fd_type : texpr; fd_get : bool; fd_set : bool; fd_newdash : bool }.

(* one *ast.Field of a parameter or result list *)
Record param := { pa_names : list string; pa_type : texpr }.

(* doc comment of an interface method, as seen by parsePath *)
Inductive mdoc :=
| MDNone                           (* field.Doc == nil *)
| MDBad                            (* a comment the request regexp does not match *)
| MDReq (verb path : string) (alias : list (string * string)).
                                   (* shoot: <Verb>(<path>), path = the raw text between the parentheses; alias = the
                                      well-formed {parameter:name} pairs parseAlias finds in the doc comment (distinct
                                      keys and values; [] when there is no alias= directive or it holds no pair) *)

(* what go/types says about an embedded element of an interface *)
Inductive iembed :=
| EmRest                           (* github.com/lopolopen/shoot.RestClient[...] *)
| EmUniverse                       (* a named type of the universe scope: error (Pkg() == nil) *)
| EmNamed                          (* any other named type *)
| EmOther.                         (* not a named type (unresolved, union, ...) *)

Inductive iitem :=
| IEmbed (e : iembed)
| IMethod (name : string) (doc : mdoc) (params : list param) (results : list param).

Inductive tbody :=
| BStruct (fs : list field)
| BIface (items : list iitem)
| BOther (t : texpr).

Record tspec := { ts_name : string; ts_alias : bool; ts_body : tbody }.

(* one *ast.ValueSpec of a const declaration; vs_intval: go/types evaluated the
   constants of this spec to integer values (constant.Int) *)
Record vspec := { vs_names : list string; vs_type : option texpr; vs_hasval : bool; vs_intval : bool }.

(* declarations inside a function body *)
Inductive ldecl :=
| LType (specs : list tspec)
| LConst (specs : list vspec).

Record fdecl := {
  fn_recv : option (list param);         (* fn.Recv (nil for a function), its List *)
  fn_name : string;
  fn_params : list param;                (* fn.Type.Params.List *)
  fn_results : option (list param);      (* fn.Type.Results: nil, or its List (possibly empty: `()`) *)
  fn_body : option (list ldecl)          (* nil for a declaration without body *)
}.

Inductive decl :=
| DType (specs : list tspec)
| DConst (specs : list vspec)
| DFunc (f : fdecl)
| DComment (text : string).               (* a // comment line at top level *)

(* f_pkg: the name in the package clause, "" when the file has no (valid) package clause;
   f_imports_dest: local names under which this file imports the destination package of `map` *)
Record file := { f_name : string; f_pkg : string; f_imports_dest : list string; f_decls : list decl }.

(* ------------------------------------------------------------ the input *)

(* an entry of the package directory that is not a Go file of the package *)
Inductive entry :=
| EFile (line1 : string)           (* regular file with this first line *)
| EDir                             (* a directory *)
| EDangling.                       (* a symbolic link whose target does not exist *)

(* what the -path argument of `map` denotes (relative to the package directory) *)
Inductive dest :=
| DestPkg (name : string) (files : list file)   (* a directory; name = package name in its files *)
| DestFile.                                      (* a regular file *)

(* result of template execution + goimports + gofmt for one type *)
Inductive rclass := ROk | RExecErr | RFormatErr | REmpty.

Record input := {
  i_args : list string;                   (* os.Args[1:] *)
  i_pkgdirs : list string;                (* spellings (after FixPath) of [dir] that denote the package directory *)
  i_inmodule : bool;                      (* the package directory lies inside a Go module *)
  i_files : list file;                    (* Go files of the package in pkg.Syntax order *)
  i_extra : list (string * entry);        (* other entries of the package directory, sorted by name *)
  i_dests : list (string * dest);         (* spellings (after FixPath) of -path that exist *)
  i_render : list (string * rclass);      (* type name -> render class; ROk when absent *)
  i_merge_ok : bool;                      (* MergeSources succeeds *)
  i_foreign : list (string * list tspec)  (* imported packages whose types are embedded: local name -> package-level type specs *)
}.

(* ------------------------------------------------ flag.FlagSet.Parse *)

Inductive fkind := FBool | FString | FTagCase | FWay.

Definition common_flag (n : string) : option fkind :=
  if mem n ["type"; "file"; "version"; "ver"] then Some FString
  else if mem n ["separate"; "sep"; "verbose"; "v"; "raw"; "r"] then Some FBool
  else None.

(* None for the subcommand = the top-level flag.CommandLine of main (no flag defined) *)
Definition flag_kind (c : option subcmd) (n : string) : option fkind :=
  match c with
  | None => None
  | Some c =>
    match common_flag n with
    | Some k => Some k
    | None =>
      match c with
      | CNew => if mem n ["getset"; "json"; "option"; "opt"; "exported"; "exp"; "short"] then Some FBool
                else if n =? "tagcase" then Some FTagCase else None
      | CEnum => if mem n ["bit"; "bitwise"; "json"; "text"; "sql"; "gorm"] then Some FBool else None
      | CRest => None
      | CMap => if mem n ["path"; "alias"; "to"] then Some FString
                else if n =? "way" then Some FWay
                else if n =? "i" then Some FBool else None
      end
    end
  end.

(* strconv.ParseBool *)
Definition parse_bool (s : string) : option bool :=
  if mem s ["1"; "t"; "T"; "TRUE"; "true"; "True"] then Some true
  else if mem s ["0"; "f"; "F"; "FALSE"; "false"; "False"] then Some false
  else None.

Definition value_ok (k : fkind) (v : string) : bool :=
  match k with
  | FBool => match parse_bool v with Some _ => true | None => false end
  | FString => true
  | FTagCase => mem v ["pascal"; "camel"; "lower"; "upper"]
  | FWay => mem v ["toonly"; "->"; "fromonly"; "<-"; "both"; "<->"]
  end.

Inductive parsed :=
| PFlags (vals : list (string * string)) (rest : list string)
| PHelp                                  (* flag.ErrHelp *)
| PBad.                                  (* any other error *)

(* FlagSet.parseOne iterated.  Structural on the argument list: a non-boolean
   flag without `=` consumes the following argument. *)
Fixpoint parse_args (c : option subcmd) (args : list string) (acc : list (string * string)) : parsed :=
  match args with
  | [] => PFlags acc []
  | s :: args' =>
      match s with
      | String "-" (String c1 s2) =>
          if (Ascii.eqb c1 "-") && (s2 =? "") then PFlags acc args'            (* "--" terminates the flags *)
          else
            let name0 := if Ascii.eqb c1 "-" then s2 else String c1 s2 in
            match name0 with
            | EmptyString => PBad
            | String d _ =>
                if Ascii.eqb d "-" || Ascii.eqb d "=" then PBad                 (* bad flag syntax *)
                else
                  let i := index_of "=" name0 in
                  let name := match i with Some i => stake i name0 | None => name0 end in
                  let value := match i with Some i => sdrop (S i) name0 | None => EmptyString end in
                  let has_value := match i with Some _ => true | None => false end in
                  match flag_kind c name with
                  | None => if (name =? "help") || (name =? "h") then PHelp else PBad
                  | Some FBool =>
                      if has_value then
                        (if value_ok FBool value then parse_args c args' (acc ++ [(name, value)])%list else PBad)
                      else parse_args c args' (acc ++ [(name, "true")])%list
                  | Some k =>
                      if has_value then
                        (if value_ok k value then parse_args c args' (acc ++ [(name, value)])%list else PBad)
                      else match args' with
                           | [] => PBad                                        (* flag needs an argument *)
                           | v :: args'' =>
                               if value_ok k v then parse_args c args'' (acc ++ [(name, v)])%list else PBad
                           end
                  end
            end
      | _ => PFlags acc args              (* first non-flag argument (also "-"): stop *)
      end
  end.

(* the last setting of a flag wins *)
Fixpoint flag_val (n : string) (vals : list (string * string)) (dflt : string) : string :=
  match vals with
  | [] => dflt
  | (k, v) :: vals' => flag_val n vals' (if k =? n then v else dflt)
  end.

Definition flag_on (n : string) (vals : list (string * string)) : bool :=
  match parse_bool (flag_val n vals "false") with Some b => b | None => false end.

(* ------------------------------------------------------- ParseFlags *)

(* shoot.FixPath *)
Definition fix_path (s : string) : string :=
  if s =? "" then "."
  else if String.prefix "." s || String.prefix "/" s then s
  else "./" ++ s.

Record flags := {
  fl_sub : subcmd;
  fl_cmdline : string;         (* "shoot " ++ strings.Join(flag.Args(), " ") *)
  fl_types : list string;      (* TypeNames *)
  fl_specified : bool;         (* isTypeSpecified *)
  fl_file : string;            (* FileName *)
  fl_sep : bool;               (* Separate *)
  fl_dir : string;             (* Dir *)
  fl_raw : bool;
  fl_ver : string;
  fl_getset : bool;            (* new -getset *)
  fl_dest : string;            (* map: FixPath(-path) *)
  fl_alias : string;           (* map -alias *)
  fl_to : list (string * string)   (* map: destTypes *)
}.

(* the package directory as the run sees it *)
Definition is_pkgdir (i : input) (dir : string) : bool := mem dir (i_pkgdirs i).

(* os.Stat(dir) succeeds.  "." is the working directory; when it is not the
   package directory it is its parent (an existing directory without Go files) *)
Definition dir_exists (i : input) (dir : string) : bool := (dir =? ".") || is_pkgdir i dir.

Definition files_of (i : input) (dir : string) : list file :=
  if is_pkgdir i dir then i_files i else [].

Definition extra_of (i : input) (dir : string) : list (string * entry) :=
  if is_pkgdir i dir then i_extra i else [].

(* os.Stat(filepath.Join(dir, name)) succeeds (Stat follows symbolic links) *)
Definition file_exists (i : input) (dir name : string) : bool :=
  mem name (map f_name (files_of i dir)) ||
  match assoc name (extra_of i dir) with
  | Some EDangling => false
  | Some _ => true
  | None => false
  end.

Fixpoint zip_to (src dst : list string) : list (string * string) :=
  match src, dst with
  | s :: src', d :: dst' => (s, d) :: zip_to src' dst'
  | _, _ => []
  end.

(* main up to g.ParseFlags() inclusive *)
Definition parse_flags (i : input) : res flags :=
  match parse_args None (i_args i) [] with
  | PHelp => Stop (Exit DHelp)
  | PBad => Stop (Exit DTopFlag)
  | PFlags _ args =>
    match args with
    | [] => Stop (Exit DUsageNoArgs)
    | sub :: rest0 =>
      if sub =? "version" then Stop (Exit DVersion) else
      match subcmd_of sub with
      | None => Stop (Exit DUsageUnknownSub)
      | Some c =>
        (* ParseCommonFlags *)
        match rest0 with
        | [] => Stop (Exit DUsageNoSubArgs)
        | _ =>
          match parse_args (Some c) rest0 [] with
          | PHelp => Stop (Exit DHelp)
          | PBad => Stop (Exit DFlagError)
          | PFlags vals rest =>
            let tn := flag_val "type" vals "" in
            let fname := flag_val "file" vals "" in
            if (tn =? "") && (fname =? "") then Stop (Exit DUsageNoTypeNoFile) else
            let types := if tn =? "" then [] else split_c ","%char tn in
            let specified := negb (tn =? "") && negb (tn =? "*") in
            let dir := fix_path (hd "" rest) in
            do_ guard ((dir =? ".") || dir_exists i dir) DWorkDir;
            do_ (if fname =? "" then Ok tt else
                 do_ guard (ext fname =? ".go") DFileNotGo;
                 guard (file_exists i dir fname) DFileNotExists);
            let ver := let v := flag_val "version" vals "" in
                       if v =? "" then (let v' := flag_val "ver" vals "" in if v' =? "" then "v0.7.0" else v') else v in
            let base := {| fl_sub := c; fl_cmdline := "shoot " ++ join " " args;
                           fl_types := types; fl_specified := specified; fl_file := fname;
                           fl_sep := specified || flag_on "sep" vals || flag_on "separate" vals;
                           fl_dir := dir; fl_raw := flag_on "r" vals || flag_on "raw" vals; fl_ver := ver;
                           fl_getset := false; fl_dest := "."; fl_alias := ""; fl_to := [] |} in
            match c with
            | CNew =>
                Ok {| fl_sub := c; fl_cmdline := fl_cmdline base; fl_types := types; fl_specified := specified;
                      fl_file := fname; fl_sep := fl_sep base; fl_dir := dir; fl_raw := fl_raw base; fl_ver := ver;
                      fl_getset := flag_on "getset" vals; fl_dest := "."; fl_alias := ""; fl_to := [] |}
            | CEnum =>
                do_ guard (negb (flag_on "gorm" vals) || flag_on "sql" vals) DGormNeedsSql;
                Ok base
            | CRest => Ok base
            | CMap =>
                let to := flag_val "to" vals "" in
                let dst := split_c ","%char to in
                do_ (match types with
                     | [] => guard (to =? "") DToNeedsType
                     | _ => guard ((to =? "") || Nat.eqb (List.length dst) (List.length types)) DToAlign
                     end);
                let tomap := match types with
                             | [] => []
                             | _ => if to =? "" then zip_to types types else zip_to types dst
                             end in
                let destdir := fix_path (flag_val "path" vals "") in
                do_ guard ((destdir =? ".") ||
                           match assoc destdir (i_dests i) with Some _ => is_pkgdir i dir | None => false end) DDestDir;
                Ok {| fl_sub := c; fl_cmdline := fl_cmdline base; fl_types := types; fl_specified := specified;
                      fl_file := fname; fl_sep := fl_sep base; fl_dir := dir; fl_raw := fl_raw base; fl_ver := ver;
                      fl_getset := false; fl_dest := destdir; fl_alias := flag_val "alias" vals ""; fl_to := tomap |}
            end
          end
        end
      end
    end
  end.

(* ------------------------------------------------------- LoadPackage *)

Record loaded := {
  ld_files : list file;          (* g.Pkg().Syntax *)
  ld_dest : list file;           (* g.destPkg.Syntax (map) *)
  ld_destname : string;          (* g.destPkg.Name *)
  ld_allinone : string           (* g.allInOneFile *)
}.

Fixpoint all_same (l : list string) : bool :=
  match l with
  | a :: ((b :: _) as r) => (a =? b) && all_same r
  | _ => true
  end.

(* findCmdLine: (?m)^//go:generate.*<QuoteMeta cmdline>$ on one // comment line *)
Definition find_cmd_line (text cmdline : string) : bool :=
  String.prefix "//go:generate" text && ends_with cmdline (sdrop 13 text).

Definition file_has_cmdline (cmdline : string) (f : file) : bool :=
  existsb (fun d => match d with DComment t => find_cmd_line t cmdline | _ => false end) (f_decls f).

Fixpoint find_allinone (cmdline : string) (fs : list file) : string :=
  match fs with
  | [] => ""
  | f :: r => if file_has_cmdline cmdline f then f_name f else find_allinone cmdline r
  end.

Definition pkg_names (fs : list file) : list string :=
  filter (fun n => negb (n =? "")) (map f_pkg fs).

Definition pkg_name_of (fs : list file) : string :=
  match pkg_names fs with n :: _ => n | [] => "" end.

Definition load_package (i : input) (fl : flags) : res loaded :=
  let files := files_of i (fl_dir fl) in
  do d <- (match fl_sub fl with
           | CMap =>
               if fl_dest fl =? "." then Ok (Some (DestPkg (pkg_name_of files) files))
               else match assoc (fl_dest fl) (i_dests i) with
                    | Some d => Ok (Some d)
                    | None => fatal DDestDir          (* excluded by parse_flags *)
                    end
           | _ => Ok None
           end);
  (* packages.Load itself fails when a pattern names a .go file next to the package pattern ".";
     a regular file with another name is taken for a directory without Go files *)
  do_ guard (match d with Some DestFile => negb (ends_with ".go" (fl_dest fl)) | _ => true end) DLoadError;
  let dfiles := match d with Some (DestPkg _ fs) => fs | _ => [] end in
  let dname := match d with Some (DestPkg n _) => n | _ => "" end in
  (* hasMultiPkgs for every loaded package, then the same pattern twice *)
  (* outside a module `go list` reports no package at all, so none of the patterns is found *)
  do_ guard (i_inmodule i) DNoPackage;
  do_ guard (all_same (pkg_names files) && all_same (pkg_names dfiles)) DMultiPkg;
  (* the pattern "." twice: the second match of the same directory is fatal; a directory without
     Go files is matched by its import path "." and not checked *)
  do_ guard (match fl_sub fl with
             | CMap => negb (fl_dest fl =? ".") || match files with [] => true | _ => false end
             | _ => true
             end) DMultiPkg;
  let aio := if (fl_file fl =? "") && mem "*" (fl_types fl) then find_allinone (fl_cmdline fl) files else "" in
  Ok {| ld_files := files; ld_dest := dfiles; ld_destname := dname; ld_allinone := aio |}.

(* ------------------------------------------------ walks over the syntax *)

Definition local_tspecs (ls : list ldecl) : list tspec :=
  flat_map (fun l => match l with LType s => s | LConst _ => [] end) ls.

(* the TypeSpec nodes shoot.InspectTopLevel meets in a file, in source order: package-level
   declarations only (function bodies are never entered); the flag is kept for the callers and is
   always true *)
Definition decl_tspecs (d : decl) : list (tspec * bool) :=
  match d with
  | DType s => map (fun t => (t, true)) s
  | _ => []
  end.
Definition file_tspecs (f : file) : list (tspec * bool) := flat_map decl_tspecs (f_decls f).

Definition top_tspecs (fs : list file) : list tspec :=
  flat_map (fun f => flat_map (fun d => match d with DType s => s | _ => [] end) (f_decls f)) fs.

Fixpoint find_tspec (n : string) (l : list tspec) : option tspec :=
  match l with
  | [] => None
  | t :: r => if ts_name t =? n then Some t else find_tspec n r
  end.

(* g.TestFile *)
(* g.TestFile: a file without package clause has no position (Fset.File(file.Pos()) == nil) and is
   never the requested file *)
Definition test_file (fl : flags) (f : file) : bool :=
  (fl_file fl =? "") || (negb (f_pkg f =? "") && (f_name f =? fl_file fl)).

(* the same, step by step: Fset.File(file.Pos()) is nil for a file without package clause *)
Definition file_pos (f : file) : option string := if f_pkg f =? "" then None else Some (f_name f).
Definition test_file_m (fl : flags) (f : file) : res bool :=
  if fl_file fl =? "" then Ok true
  else match file_pos f with
       | None => Ok false                                   (* if tf == nil { return false } *)
       | Some _ => do name <- deref PTestFilePos (file_pos f);     (* tf.Name() *)
                   Ok (name =? fl_file fl)
       end.

Definition is_struct (t : tspec) : bool := match ts_body t with BStruct _ => true | _ => false end.

Definition int_names : list string :=
  ["int"; "int8"; "int16"; "int32"; "int64"; "uint"; "uint8"; "uint16"; "uint32"; "uint64"; "uintptr"; "byte"; "rune"].

(* go/types: the underlying type of the type denoted by identifier n is an
   integer basic type (aliases and named types are followed) *)
Fixpoint under_int (fuel : nat) (tops : list tspec) (n : string) : bool :=
  match fuel with
  | O => false
  | S k =>
      match find_tspec n tops with
      | Some t => match ts_body t with BOther (TId m) => under_int k tops m | _ => false end
      | None => mem n int_names
      end
  end.

(* go/types: the struct type underlying the named type n, if any *)
Fixpoint under_struct (fuel : nat) (tops : list tspec) (n : string) : option (list field) :=
  match fuel with
  | O => None
  | S k =>
      match find_tspec n tops with
      | Some t => match ts_body t with
                  | BStruct fs => Some fs
                  | BOther (TId m) => under_struct k tops m
                  | _ => None
                  end
      | None => None
      end
  end.

(* getGoFile: the file declaring the package-level type n *)
Fixpoint go_file (n : string) (fs : list file) : string :=
  match fs with
  | [] => ""
  | f :: r =>
      if existsb (fun d => match d with DType s => existsb (fun t => ts_name t =? n) s | _ => false end) (f_decls f)
      then f_name f else go_file n r
  end.

(* ---------------------------------------------------------------- new *)

(* expandIfStruct works on go/types: an embedded field may name a type of the package (also an
   instantiated generic one: Node[T]) or of an imported package (ext.Loop).  A scope is the list of
   package-level type specs of one package; [fo] maps the local names of the imported packages to
   their scopes. *)
Definition foreign := list (string * list tspec).

Definition core (t : texpr) : texpr := match t with TStar x => x | x => x end.
Definition is_star (t : texpr) : bool := match t with TStar _ => true | _ => false end.
Definition local_name (t : texpr) : option string :=
  match t with TId n => Some n | TGen n _ => Some n | _ => None end.
Definition sel_name (t : texpr) : option (string * string) :=
  match t with TSel q n => Some (q, n) | _ => None end.

(* the struct named n in a scope.  *types.Named looks at Underlying(); *types.Pointer at
   Elem().Underlying(); an embedded alias is a *types.Alias and matches no case of the switch,
   a pointer to an alias does (Underlying() follows the alias) *)
Definition struct_in (scope : list tspec) (ptr : bool) (n : string) : option (list field * list tspec) :=
  match find_tspec n scope with
  | None => None
  | Some s =>
      if negb ptr && ts_alias s then None
      else match under_struct (S (List.length scope)) scope n with
           | Some fs => Some (fs, scope)
           | None => None
           end
  end.

(* the struct an embedded field of type t (written in scope tops) expands to, with the scope its
   own fields are written in *)
Definition embedded_struct (fo : foreign) (tops : list tspec) (t : texpr) : option (list field * list tspec) :=
  match local_name (core t) with
  | Some n => struct_in tops (is_star t) n
  | None =>
      match sel_name (core t) with
      | Some (q, n) => match assoc q fo with
                       | Some ft => struct_in ft (is_star t) n
                       | None => None
                       end
      | None => None
      end
  end.

Definition is_embedded (f : field) : bool := match fd_names f with [] => true | _ => false end.

Definition foreign_size (fo : foreign) : nat := fold_right (fun x n => List.length (snd x) + n) 0 fo.

(* more than the longest chain of distinct type specs *)
Definition expand_fuel (fo : foreign) (tops : list tspec) : nat := foreign_size fo + List.length tops + 3.

(* expandIfStruct / extractStructFields (both generators): fuel bounds the
   nesting depth; running out of it is the unbounded recursion *)
Fixpoint expand (site : lsite) (fuel : nat) (fo : foreign) (tops : list tspec) (t : texpr) : res unit :=
  match embedded_struct fo tops t with
  | None => Ok tt
  | Some (fs, tops') =>
      match fuel with
      | O => Stop (Diverge site)
      | S k => each (fun f => if is_embedded f then expand site k fo tops' (fd_type f) else Ok tt) fs
      end
  end.

(* constructor.extractTopFiels *)
Definition new_top_field (fl : flags) (fuel : nat) (fo : foreign) (tops : list tspec) (f : field) : res unit :=
  if is_embedded f then expand LNewEmbed fuel fo tops (fd_type f)
  else each (fun name =>
               if String.prefix "_" name then Ok tt
               else if fd_newdash f then Ok tt
               else if fl_getset fl && is_exported name && (fd_get f || fd_set f) then fatal DNewExportedGetSet
               else Ok tt) (fd_names f).

(* parseFields: the ast.Inspect walk with testNode(typeName, n); returns whether a
   type was found.  typeName "" matches every name (testNode skips the name test) *)
Fixpoint new_walk (fl : flags) (fuel : nat) (fo : foreign) (tops : list tspec) (T : string) (l : list (tspec * bool)) (found : bool)
  : res bool :=
  match l with
  | [] => Ok found
  | (t, _) :: r =>
      if negb (T =? "") && negb (ts_name t =? T) then new_walk fl fuel fo tops T r found
      else match ts_body t with
           | BStruct fs =>
               if String.prefix "_" (ts_name t) then new_walk fl fuel fo tops T r found
               else do_ each (new_top_field fl fuel fo tops) fs; new_walk fl fuel fo tops T r true
           | _ => if T =? "" then new_walk fl fuel fo tops T r found else fatal DNewNotStruct
           end
  end.

Definition new_make (fo : foreign) (fl : flags) (ld : loaded) (T : string) : res bool :=
  let tops := top_tspecs (ld_files ld) in
  do found <- new_walk fl (expand_fuel fo tops) fo tops T (flat_map file_tspecs (ld_files ld)) false;
  do_ guard found DNewNotExists;
  Ok true.

Definition new_list (fl : flags) (ld : loaded) : list string :=
  flat_map (fun f => if test_file fl f then
                       flat_map (fun '(t, _) => if is_struct t && negb (String.prefix "_" (ts_name t))
                                                then [ts_name t] else []) (file_tspecs f)
                     else []) (ld_files ld).

(* --------------------------------------------------------------- enum *)

(* the GenDecl nodes InspectTopLevel meets in a file, in source order (package level only) *)
Inductive gdecl := GType (s : list tspec) | GConst (s : list vspec).
Definition decl_gdecls (d : decl) : list gdecl :=
  match d with
  | DType s => [GType s]
  | DConst s => [GConst s]
  | _ => []
  end.
Definition file_gdecls (f : file) : list gdecl := flat_map decl_gdecls (f_decls f).

(* the loop over the ValueSpecs of one const declaration; typ = the carried
   type name; returns the number of constants collected *)
Fixpoint enum_vspecs (tops : list tspec) (T : string) (typ : string) (l : list vspec) (n : nat) : res nat :=
  match l with
  | [] => Ok n
  | v :: r =>
      match vs_type v, vs_hasval v with
      | None, true => enum_vspecs tops T "" r n                  (* untyped with a value: reset, skip *)
      | _, _ =>
          let step (typ' : string) :=
            if negb (typ' =? T) then enum_vspecs tops T typ' r n
            else
              let names := filter (fun x => negb (x =? "_")) (vs_names v) in
              match names with
              | [] => enum_vspecs tops T typ' r n
              | _ =>
                  if negb (under_int (S (List.length tops)) tops T) then fatal DEnumNonInt
                  else if negb (vs_intval v) then fatal DEnumNotIntValue
                  else enum_vspecs tops T typ' r (n + List.length names)
              end in
          match vs_type v with
          | Some (TId m) => step m
          | Some _ => enum_vspecs tops T "" r n                  (* a non-identifier type (pkg.T): skip the spec, forget the carried type *)
          | None => step typ
          end
      end
  end.

Fixpoint enum_gdecls (tops : list tspec) (T : string) (l : list gdecl) (n : nat) : res nat :=
  match l with
  | [] => Ok n
  | GType s :: r =>
      if existsb (fun t => ts_alias t && (ts_name t =? T)) s then fatal DEnumAlias
      else enum_gdecls tops T r n
  | GConst s :: r => do n' <- enum_vspecs tops T "" s n; enum_gdecls tops T r n'
  end.

(* makeStr + the NameList test of MakeData: true = data produced *)
Definition enum_make (fl : flags) (ld : loaded) (T : string) : res bool :=
  let tops := top_tspecs (ld_files ld) in
  do n <- enum_gdecls tops T (flat_map file_gdecls (ld_files ld)) 0;
  if Nat.eqb n 0 then (if fl_specified fl then fatal DEnumNotExists else Ok false) else Ok true.

(* go/types on a type spec: its underlying type is an integer basic type *)
Definition spec_under_int (tops : list tspec) (t : tspec) : bool :=
  match ts_body t with
  | BOther (TId m) => under_int (S (List.length tops)) tops m
  | _ => false
  end.

Definition enum_list (fl : flags) (ld : loaded) : list string :=
  let tops := top_tspecs (ld_files ld) in
  flat_map (fun f => if test_file fl f then
                       flat_map (fun g => match g with
                                          | GType s => flat_map (fun t => if spec_under_int tops t && negb (ts_alias t)
                                                                          then [ts_name t] else []) s
                                          | GConst _ => []
                                          end) (file_gdecls f)
                     else []) (ld_files ld).

(* --------------------------------------------------------------- rest *)

(* restclient.testNode *)
Definition rest_test (T : string) (t : tspec) : bool :=
  ((T =? "") || (ts_name t =? T)) &&
  match ts_body t with
  | BIface items =>
      existsb (fun it => match it with IEmbed EmRest => true | _ => false end) items
      (* an embedded universe type is skipped (obj.Pkg() == nil -> continue) *)
  | _ => false
  end.

(* the loop of testNode over the embedded elements, with its dereference: what obj.Pkg() is *)
Definition embed_pkg (e : iembed) : option bool :=        (* Some true: the package is shoot and the name RestClient *)
  match e with EmRest => Some true | EmNamed => Some false | EmUniverse => None | EmOther => Some false end.
Definition rest_item_m (it : iitem) : res bool :=
  match it with
  | IMethod _ _ _ _ => Ok false                             (* len(field.Names) > 0: continue *)
  | IEmbed EmOther => Ok false                              (* the assertion to types.Named fails: continue *)
  | IEmbed e =>
      match embed_pkg e with
      | None => Ok false                                    (* obj.Pkg() == nil: continue *)
      | Some _ => deref PRestEmbedPkg (embed_pkg e)         (* obj.Pkg().Path() == SelfPkgPath && ... *)
      end
  end.
Fixpoint rest_items_m (l : list iitem) : res bool :=
  match l with
  | [] => Ok false
  | it :: r => do b <- rest_item_m it; if b then Ok true else rest_items_m r
  end.
Definition rest_test_m (T : string) (t : tspec) : res bool :=
  if negb ((T =? "") || (ts_name t =? T)) then Ok false
  else match ts_body t with
       | BIface items => rest_items_m items
       | _ => Ok false
       end.

(* isStructType(name, file): the first package-level type spec of that name in
   the SAME file decides *)
Definition is_struct_type (name : string) (f : file) : bool :=
  match find_tspec name (top_tspecs [f]) with
  | Some t => is_struct t
  | None => false
  end.

(* go/types: the qualified identifier q.n denotes a named type; context.Context is
   recognised by package path and name.  The import table of the rendered
   packages is fixed (see harness/failgen.py) *)
Definition sel_named (q n : string) : bool :=
  ((q =? "context") && (n =? "Context")) ||
  ((q =? "http") && mem n ["Response"; "Header"; "Request"; "Client"]) ||
  ((q =? "time") && mem n ["Duration"; "Time"]).

(* isPkgStructType(name, file): the first package-level type spec of that name in the same
   file, or in any other file of the package, is a struct *)
Definition is_pkg_struct (name : string) (f : file) (fs : list file) : bool :=
  is_struct_type name f || existsb (is_struct_type name) fs.

Definition is_query_verb (m : string) : bool := (m =? "GET") || (m =? "DELETE").

(* go/types: the named type q.n has a basic underlying type (time.Duration) *)
Definition sel_basic (q n : string) : bool := (q =? "time") && (n =? "Duration").

(* the placeholders of a path: all non-overlapping matches of the regexp {(\w+)} *)
Definition is_word (c : ascii) : bool := is_upper c || is_lower c || is_digit c || Ascii.eqb c "_"%char.
Fixpoint placeholders_aux (s : string) (acc : option string) : list string :=
  match s with
  | EmptyString => []
  | String c r =>
      if Ascii.eqb c "{"%char then placeholders_aux r (Some EmptyString)
      else match acc with
           | None => placeholders_aux r None
           | Some a =>
               if is_word c then placeholders_aux r (Some (a ++ String c EmptyString))
               else if Ascii.eqb c "}"%char && negb (a =? "") then a :: placeholders_aux r None
               else placeholders_aux r None
           end
  end.
Definition placeholders (path : string) : list string := placeholders_aux path None.

(* realPathParams: a placeholder that is the alias of a parameter stands for that parameter *)
Definition real_path_params (alias : list (string * string)) (path : string) : list string :=
  map (fun name => match find (fun kv => snd kv =? name) alias with
                   | Some kv => fst kv
                   | None => name
                   end) (placeholders path).
Definition is_body_verb (m : string) : bool := mem m ["POST"; "PUT"; "PATCH"].

(* handleExpr; the state is (a body parameter is bound, a query map is bound).  A struct
   parameter makes handleStruct re-parse the package directory with parser.ParseDir, which fails
   when a *.go entry cannot be opened or parsed (baddir) *)
Fixpoint rest_param (baddir : bool) (fs : list file) (f : file) (m : string) (t : texpr) (st : bool * bool)
  : res (bool * bool) :=
  let '(body, qmap) := st in
  match t with
  | TSel q n =>
      if negb (sel_named q n) then Ok st
      else if (q =? "context") && (n =? "Context") then Ok st
      else if sel_basic q n && is_query_verb m then Ok st       (* a named scalar of another package: a query parameter *)
      else if body then fatal DRestAmbiguousBody else Ok (true, qmap)
  | TId n =>
      if is_pkg_struct n f fs then
        (if body then fatal DRestAmbiguousBody else if baddir then fatal DRestExtract else Ok (true, qmap))
      else Ok st
  | TMap _ _ =>
      if is_query_verb m then (if qmap then fatal DRestAmbiguousQuery else Ok (body, true)) else Ok st
  | TStar x => rest_param baddir fs f m x st
  | _ => fatal DRestParamType
  end.

(* for _, name := range param.Names { handleExpr(param.Type, name, ...) } *)
Fixpoint rest_names (baddir : bool) (fs : list file) (f : file) (m : string) (t : texpr) (names : list string)
         (st : bool * bool) : res (bool * bool) :=
  match names with
  | [] => Ok st
  | x :: l => do_ guard (negb (x =? "_")) DRestUnnamedParam;
              do b <- rest_param baddir fs f m t st; rest_names baddir fs f m t l b
  end.

Fixpoint rest_params (baddir : bool) (fs : list file) (f : file) (m : string) (ps : list param) (st : bool * bool)
  : res (bool * bool) :=
  match ps with
  | [] => Ok st
  | p :: r => do_ guard (match pa_names p with [] => false | _ => true end) DRestUnnamedParam;
              do b <- rest_names baddir fs f m (pa_type p) (pa_names p) st; rest_params baddir fs f m r b
  end.

(* IsParamPtrMap[method][name]: the parameter called name is written with a pointer type *)
Definition ptr_param (ps : list param) (name : string) : bool :=
  existsb (fun p => mem name (pa_names p) && match pa_type p with TStar _ => true | _ => false end) ps.

(* exprToString(expr) == "*http.Response" / "error" *)
Definition is_http_response (t : texpr) : bool :=
  match t with TStar (TSel q n) => (q =? "http") && (n =? "Response") | _ => false end.
Definition is_error_id (t : texpr) : bool :=
  match t with TId n => n =? "error" | _ => false end.

(* the second regexp of parsePath on the trimmed path: either a quoted
   non-empty text without inner quote, or a non-empty text without any quote *)
Definition quote : string := String (ascii_of_nat 34) EmptyString.
Definition path_ok (p : string) : bool :=
  let n := String.length p in
  if contains quote p then
    Nat.leb 3 n && String.prefix quote p && ends_with quote p &&
    negb (contains quote (stake (n - 2) (sdrop 1 p)))
  else negb (p =? "").

Definition rest_method (baddir : bool) (fs : list file) (f : file) (doc : mdoc) (params results : list param) : res unit :=
  match doc with
  | MDNone => Ok tt                                  (* warning, method ignored *)
  | MDBad => Ok tt                                   (* warning, method ignored *)
  | MDReq verb path alias =>
      let m := upper verb in
      do_ guard (path_ok path) DRestBadPath;
      do st <- rest_params baddir fs f m params (false, false);
      do_ guard (negb (existsb (ptr_param params) (real_path_params alias path))) DRestPtrPathParam;
      do_ guard (negb (is_body_verb m) || fst st) DRestNeedsBody;
      (* resultValues: one entry per returned value; `a, b T` declares two *)
      let vals := flat_map (fun r => match pa_names r with
                                     | [] => [("", pa_type r)]
                                     | ns => map (fun x => (x, pa_type r)) ns
                                     end) results in
      let n := List.length vals in
      do_ guard (Nat.leb 2 n) DRestFewResults;
      do_ guard (Nat.leb n 3) DRestManyResults;
      do v2 <- nth_or_panic PRestResultIndex (n - 2) vals;               (* results[n-2] *)
      do_ guard (is_http_response (snd v2)) DRestSecondToLast;
      do v1 <- nth_or_panic PRestResultIndex (n - 1) vals;               (* results[n-1] *)
      do_ guard (is_error_id (snd v1)) DRestLast;
      if Nat.eqb n 3 then
        do v0 <- nth_or_panic PRestResultIndex 0 vals;                   (* results[0] *)
        do_ guard (fst v0 =? "") DRestNamedResults;
        match snd v0 with
        | TStar _ | TArr _ | TMap _ _ => Ok tt
        | TArrN _ => fatal DRestArrayReturn
        | _ => fatal DRestReturnType
        end
      else Ok tt
  end.

Definition rest_iface (baddir : bool) (fs : list file) (f : file) (items : list iitem) : res unit :=
  each (fun it => match it with
                  | IEmbed _ => Ok tt
                  | IMethod _ doc ps rs => rest_method baddir fs f doc ps rs
                  end) items.

Fixpoint rest_walk (baddir : bool) (fs : list file) (T : string) (f : file) (l : list (tspec * bool)) (found : bool) : res bool :=
  match l with
  | [] => Ok found
  | (t, _) :: r =>
      do hit <- rest_test_m T t;
      if hit then
        match ts_body t with
        | BIface items => do_ rest_iface baddir fs f items; rest_walk baddir fs T f r true
        | _ => rest_walk baddir fs T f r found
        end
      else rest_walk baddir fs T f r found
  end.

Fixpoint rest_files (baddir : bool) (all : list file) (T : string) (fs : list file) (found : bool) : res bool :=
  match fs with
  | [] => Ok found
  | f :: r => do b <- rest_walk baddir all T f (file_tspecs f) found; rest_files baddir all T r b
  end.

Definition rest_make (baddir : bool) (ld : loaded) (T : string) : res bool :=
  do found <- rest_files baddir (ld_files ld) T (ld_files ld) false;
  do_ guard found DRestNotExists;
  Ok true.

Definition rest_list (fl : flags) (ld : loaded) : list string :=
  flat_map (fun f => if test_file fl f then
                       flat_map (fun '(t, _) => if rest_test "" t then [ts_name t] else []) (file_tspecs f)
                     else []) (ld_files ld).

(* ---------------------------------------------------------------- map *)

(* mapper.testNode *)
Definition map_test (T : string) (t : tspec) : bool :=
  ((T =? "") || (ts_name t =? T)) && is_struct t && (negb (T =? "") || is_exported (ts_name t)).

(* parseFields: every matching spec has its embedded fields expanded; returns
   (found, names of the unexported fields at top level) *)
Fixpoint map_walk (fuel : nat) (fo : foreign) (tops : list tspec) (T : string) (l : list (tspec * bool)) (found : bool)
  : res bool :=
  match l with
  | [] => Ok found
  | (t, _) :: r =>
      if map_test T t then
        match ts_body t with
        | BStruct fs =>
            do_ each (fun f => if is_embedded f then expand LMapEmbed fuel fo tops (fd_type f) else Ok tt) fs;
            map_walk fuel fo tops T r true
        | _ => map_walk fuel fo tops T r found
        end
      else map_walk fuel fo tops T r found
  end.

Definition map_parse_fields (fo : foreign) (files : list file) (T : string) : res bool :=
  let tops := top_tspecs files in
  map_walk (expand_fuel fo tops) fo tops T (flat_map file_tspecs files) false.

Definition funcs_of (files : list file) : list (file * fdecl) :=
  flat_map (fun f => flat_map (fun d => match d with DFunc fd => [(f, fd)] | _ => [] end) (f_decls f)) files.

Definition no_results (f : fdecl) : bool :=
  match fn_results f with None => true | Some [] => true | Some _ => false end.

(* firstName: the name a parameter or receiver is declared with, "" when it is unnamed *)
Definition first_name (p : param) : res string :=
  match pa_names p with
  | [] => Ok ""                                             (* if len(f.Names) == 0 { return "" } *)
  | l => nth_or_panic PFirstName 0 l                        (* f.Names[0].Name *)
  end.

(* findAssignedFieldPaths / extractParamToFieldMap: ast.Inspect(body, ...) after the nil test *)
Definition walk_body (b : option (list ldecl)) : res unit :=
  match b with
  | None => Ok tt                                           (* if fn.Body == nil { return } *)
  | Some _ => do_ deref PBodyWalk b; Ok tt
  end.

(* types.AssignableTo(T, interface{ ShootNew() }): a method ShootNew() with a
   value receiver declared on T (promotion through embedded fields is outside
   the grammar) *)
Definition implements_shootnew (files : list file) (T : string) : bool :=
  existsb (fun '(_, f) =>
             (fn_name f =? "ShootNew") &&
             match fn_recv f with
             | Some [r] => match pa_type r with TId n => n =? T | _ => false end
             | _ => false
             end &&
             match fn_params f with [] => true | _ => false end && no_results f) (funcs_of files).

(* mapper.parseCtors(pkg, theTyp, typName): no exit; the index expressions after their tests *)
Definition map_ctors (files : list file) (T : string) : res unit :=
  each (fun '(_, f) =>
          match fn_recv f with
          | Some _ => Ok tt
          | None =>
              if negb (fn_name f =? "New" ++ T) then Ok tt else
              match fn_results f with
              | None => Ok tt                               (* fn.Type.Results == nil *)
              | Some rs =>
                  if negb (Nat.eqb (List.length rs) 1) then Ok tt else   (* len == 0 || len > 1: continue *)
                  do r <- nth_or_panic PCtorResult0 0 rs;                (* fn.Type.Results.List[0] *)
                  match pa_type r with
                  | TStar (TId n) =>
                      if negb (n =? T) then Ok tt else
                      match fn_params f with
                      | [] => Ok tt
                      | ps => do_ walk_body (fn_body f);                 (* extractParamToFieldMap(fn) *)
                              each (fun p => do_ first_name p; Ok tt) ps  (* pname := firstName(p) *)
                      end
                  | _ => Ok tt
                  end
              end
          end) (funcs_of files).

(* names of all fields of a struct, promoted ones included (parseFields flattens
   the embedded structs of the package) *)
Fixpoint flat_names (fuel : nat) (tops : list tspec) (fs : list field) : list string :=
  match fuel with
  | O => []
  | S k => flat_map (fun f => if is_embedded f
                              then match embedded_struct [] tops (fd_type f) with
                                   | Some (fs', _) => flat_names k tops fs'
                                   | None => []
                                   end
                              else fd_names f) fs
  end.

(* g.unexportedFields after parseFields(T) *)
Definition unexported_fields (files : list file) (T : string) : list string :=
  let tops := top_tspecs files in
  match find_tspec T tops with
  | Some t => match ts_body t with
              | BStruct fs => filter (fun n => negb (is_exported n)) (flat_names (S (List.length tops)) tops fs)
              | _ => []
              end
  | None => []
  end.

(* mapper.parseGetSetMethods: no exit; SetX needs exactly one parameter, X() exactly one result *)
Definition map_accessors (files : list file) (T : string) : res unit :=
  let ufs := unexported_fields files T in
  match ufs with
  | [] => Ok tt
  | _ =>
    let super := (map to_pascal_case ufs ++ map (fun n => ("Set" ++ to_pascal_case n)%string) ufs)%list in
    each (fun '(_, f) =>
            match fn_recv f with
            | None => Ok tt
            | Some [] => Ok tt                                   (* len(fn.Recv.List) == 0: continue *)
            | Some rl =>
                if negb (mem (fn_name f) super) then Ok tt else
                do r <- nth_or_panic PAccRecv0 0 rl;              (* fn.Recv.List[0].Type *)
                match (match pa_type r with TStar x => x | x => x end) with
                | TId n =>
                    if negb (n =? T) then Ok tt else
                    if String.prefix "Set" (fn_name f) then
                      if negb (no_results f) then Ok tt
                      else if negb (Nat.eqb (List.length (fn_params f)) 1) then Ok tt   (* len(params.List) != 1 *)
                      else do_ nth_or_panic PAccParam0 0 (fn_params f); Ok tt          (* params.List[0].Type *)
                    else
                      match fn_params f with
                      | _ :: _ => Ok tt
                      | [] =>
                          match fn_results f with
                          | None => Ok tt
                          | Some rs => if negb (Nat.eqb (List.length rs) 1) then Ok tt  (* len(results.List) != 1 *)
                                       else do_ nth_or_panic PAccResult0 0 rs; Ok tt    (* results.List[0].Type *)
                          end
                      end
                | _ => Ok tt
                end
            end) (funcs_of files)
  end.

(* isWriteMethod / isReadMethod *)
Definition reserved (keys : list string) (key name : string) : bool :=
  existsb (fun k => (name =? k ++ lower key) || (name =? k ++ to_pascal_case key)) keys.

(* the parameter type denotes the destination type D: q.D with q a local name
   of the destination package in this file *)
Definition is_dest_type (f : file) (D : string) (t : texpr) : bool :=
  match t with
  | TSel q n => mem q (f_imports_dest f) && (n =? D)
  | _ => false
  end.

(* one function declaration in mapper.parseManual; state = (write method seen, read method seen) *)
Definition manual_step (key T D : string) (f : file) (fd : fdecl) (st : bool * bool) : res (bool * bool) :=
  let '(w, r) := st in
  match fn_recv fd with
  | None => Ok st                                           (* fn.Recv == nil *)
  | Some [] => Ok st                                        (* len(fn.Recv.List) == 0: continue *)
  | Some rl =>
      let is_write := reserved ["to"; "write"] key (fn_name fd) in
      let is_read := negb is_write && reserved ["from"; "read"] key (fn_name fd) in
      if negb is_write && negb is_read then Ok st else
      do recv <- nth_or_panic PManualRecv0 0 rl;             (* recv := fn.Recv.List[0] *)
      match pa_type recv with
      | TStar x =>
          if negb (match x with TId n => n =? T | _ => false end) then Ok st else
          if negb (Nat.eqb (List.length (fn_params fd)) 1) then Ok st else    (* warning: incorrect signature *)
          if negb (no_results fd) then Ok st else
          do p <- nth_or_panic PManualParam0 0 (fn_params fd);  (* param := fn.Type.Params.List[0] *)
          let is_ptr := match pa_type p with TStar _ => true | _ => false end in
          let base := match pa_type p with TStar x => x | x => x end in
          let is_same := is_dest_type f D base in
          if is_write then
            if negb (is_same && is_ptr) then fatal DMapWriteParam
            else if w then fatal DMapDupWrite
            else do_ first_name p;                           (* findAssignedFieldPaths(fn, firstName(param)) *)
                 do_ walk_body (fn_body fd);
                 Ok (true, r)
          else
            if negb is_same then fatal DMapReadParam
            else if r then fatal DMapDupRead
            else do_ first_name recv;                        (* findAssignedFieldPaths(fn, firstName(recv)) *)
                 do_ walk_body (fn_body fd);
                 Ok (w, true)
      | x =>
          if match x with TId n => n =? T | _ => false end then fatal DMapPtrRecv else Ok st
      end
  end.

Fixpoint map_manual (key T D : string) (l : list (file * fdecl)) (st : bool * bool) : res unit :=
  match l with
  | [] => Ok tt
  | (f, fd) :: rest => do st' <- manual_step key T D f fd st; map_manual key T D rest st'
  end.

Definition map_make (fo : foreign) (fl : flags) (ld : loaded) (T : string) : res bool :=
  let D := match assoc T (rev (fl_to fl)) with Some d => if d =? "" then T else d | None => T end in
  do s <- map_parse_fields fo (ld_files ld) T;
  do_ guard s DMapSrcNotExists;
  do d <- map_parse_fields fo (ld_dest ld) D;
  if negb d then (if fl_specified fl then fatal DMapDestNotExists else Ok false) else
  (* parseCtors *)
  do_ (if implements_shootnew (ld_files ld) T then map_ctors (ld_files ld) T else Ok tt);
  do_ (if implements_shootnew (ld_dest ld) D then map_ctors (ld_dest ld) D else Ok tt);
  (* parseMethods *)
  do_ (if implements_shootnew (ld_files ld) T then map_accessors (ld_files ld) T else Ok tt);
  do_ (if implements_shootnew (ld_dest ld) D then map_accessors (ld_dest ld) D else Ok tt);
  (* parseManual *)
  let key := if fl_alias fl =? "" then ld_destname ld else fl_alias fl in
  do_ map_manual key T D (funcs_of (ld_files ld)) (false, false);
  Ok true.

Definition map_list (fl : flags) (ld : loaded) : list string :=
  flat_map (fun f => if test_file fl f then
                       flat_map (fun '(t, _) => if map_test "" t then [ts_name t] else []) (file_tspecs f)
                     else []) (ld_files ld).

(* ----------------------------------------------------------- Generate *)

(* parser.ParseDir on the package directory fails: a *.go entry that cannot be opened, or a
   Go file without package clause (a syntax error) *)
Definition has_dangling_go (i : input) (fl : flags) : bool :=
  existsb (fun '(n, e) => ends_with ".go" n && match e with EDangling => true | _ => false end) (extra_of i (fl_dir fl)) ||
  existsb (fun f => f_pkg f =? "") (files_of i (fl_dir fl)).

Definition make_data (i : input) (fl : flags) (ld : loaded) (T : string) : res bool :=
  match fl_sub fl with
  | CNew => new_make (i_foreign i) fl ld T
  | CEnum => enum_make fl ld T
  | CRest => rest_make (has_dangling_go i fl) ld T
  | CMap => map_make (i_foreign i) fl ld T
  end.

Definition list_types (fl : flags) (ld : loaded) : list string :=
  match fl_sub fl with
  | CNew => new_list fl ld
  | CEnum => enum_list fl ld
  | CRest => rest_list fl ld
  | CMap => map_list fl ld
  end.

(* GeneratorBase.fileName(typeName, false); fmap = fileNameMap *)
Definition file_name (fl : flags) (ld : loaded) (fmap : list (string * string)) (T : string) : string :=
  let cmd := "shoot" ++ sub_name (fl_sub fl) in
  let fname := if negb (fl_file fl =? "") then fl_file fl
               else if negb (ld_allinone ld =? "") then ld_allinone ld
               else match assoc T fmap with Some x => x | None => "" end in
  let gofile := trim_go fname in
  if T =? "" then gofile ++ "." ++ cmd ++ ".go"
  else let T' := if is_exported T then T else "_" ++ T in
       gofile ++ "." ++ cmd ++ "." ++ lower T' ++ ".go".

(* confirmTypes *)
Definition confirm_types (fl : flags) (ld : loaded) : res (list string * list (string * string)) :=
  if fl_specified fl then
    do_ each (fun T => if fl_file fl =? "" then Ok tt
                       else guard (fl_file fl =? go_file T (ld_files ld)) DNotInFile) (fl_types fl);
    Ok (fl_types fl, map (fun T => (T, go_file T (ld_files ld))) (fl_types fl))
  else
    (* ListTypes: g.TestFile(f) for every file, and for `rest` testNode on every type spec of the tested files *)
    do_ each (fun f => do ok <- test_file_m fl f;
                       if ok then match fl_sub fl with
                                  | CRest => each (fun x => do_ rest_test_m "" (fst x); Ok tt) (file_tspecs f)
                                  | _ => Ok tt
                                  end
                       else Ok tt) (ld_files ld);
    Ok (list_types fl ld, []).

Definition render_of (i : input) (T : string) : rclass :=
  match assoc T (i_render i) with Some r => r | None => ROk end.

(* the loop of Generate: returns (file names written separately (in order), number of sources to merge) *)
Fixpoint gen_loop (i : input) (fl : flags) (ld : loaded) (fmap : list (string * string)) (types : list string)
         (sep : list string) (merged : nat) : res (list string * nat) :=
  match types with
  | [] => Ok (sep, merged)
  | T :: r =>
      do made <- make_data i fl ld T;
      if negb made then gen_loop i fl ld fmap r sep merged else
      match render_of i T with
      | RExecErr => fatal DExecTemplate
      | REmpty => gen_loop i fl ld fmap r sep merged
      | rc =>
          match rc, fl_raw fl with
          | RFormatErr, false => fatal DFormatSource
          | _, _ =>
              if fl_sep fl then
                (if mem (file_name fl ld fmap T) sep then fatal DDupOutput
                 else gen_loop i fl ld fmap r (sep ++ [file_name fl ld fmap T])%list merged)
              else gen_loop i fl ld fmap r sep (S merged)
          end
      end
  end.

(* keys of srcMap: later writes to the same key replace earlier ones *)
Fixpoint dedup (l : list string) : list string :=
  match l with
  | [] => []
  | x :: r => if mem x r then dedup r else x :: dedup r
  end.

Definition generate (i : input) (fl : flags) (ld : loaded) : res (list string) :=
  do ct <- confirm_types fl ld;
  let '(types, fmap) := ct in
  do g <- gen_loop i fl ld fmap types [] 0;
  let '(sep, merged) := g in
  do_ guard (Nat.eqb merged 0 || i_merge_ok i) DMergeSources;
  Ok (dedup (sep ++ (if Nat.eqb merged 0 then [] else [file_name fl ld fmap ""]))%list).

(* ------------------------------------------------- the file system part *)

Inductive effect :=
| FCreateTemp (out : string)       (* os.CreateTemp(dir, "."+out+"_") *)
| FWriteTemp (out : string)        (* tmpFile.Write(src) ; Close *)
| FRemoveTemp (out : string)       (* os.Remove(tmp) after a failed write *)
| FRename (out : string)           (* os.Rename(tmp, dir/out) *)
| FRemove (name : string).         (* os.Remove of Clean *)

Record world := {
  w_dir : list (string * entry);   (* entries of the package directory (Go sources of the package excluded) *)
  w_log : list effect;             (* effects so far, oldest first *)
  w_ops : nat                      (* number of fallible system calls issued so far *)
}.

Definition tmp_name (out : string) : string := "." ++ out ++ "_tmp".

Fixpoint dir_set (n : string) (e : entry) (d : list (string * entry)) : list (string * entry) :=
  match d with
  | [] => [(n, e)]
  | (k, v) :: r => if k =? n then (n, e) :: r else (k, v) :: dir_set n e r
  end.

Fixpoint dir_del (n : string) (d : list (string * entry)) : list (string * entry) :=
  match d with
  | [] => []
  | (k, v) :: r => if k =? n then r else (k, v) :: dir_del n r
  end.

Definition emit (e : effect) (d : list (string * entry)) (w : world) : world :=
  {| w_dir := d; w_log := (w_log w ++ [e])%list; w_ops := S (w_ops w) |}.
Definition tick (w : world) : world := {| w_dir := w_dir w; w_log := w_log w; w_ops := S (w_ops w) |}.

Definition header (fl : flags) : string :=
  "// Code generated by " ++ quote ++ fl_cmdline fl ++ quote ++ "; DO NOT EDIT. (" ++ fl_ver fl ++ ")".

(* main.notedownSrc(dir, out, src).  io k = the k-th fallible system call
   succeeds; renaming over a directory fails whatever io says *)
Definition notedown (io : nat -> bool) (fl : flags) (out : string) (w : world) : res unit * world :=
  if negb (io (w_ops w)) then (fatal DCreateTemp, tick w) else
  let w1 := emit (FCreateTemp out) (dir_set (tmp_name out) (EFile "") (w_dir w)) w in
  if negb (io (w_ops w1)) then
    (fatal DWriteTemp, emit (FRemoveTemp out) (dir_del (tmp_name out) (w_dir w1)) (tick w1))
  else
  let w2 := emit (FWriteTemp out) (dir_set (tmp_name out) (EFile (header fl)) (w_dir w1)) w1 in
  let target_is_dir := match assoc out (w_dir w2) with Some EDir => true | _ => false end in
  if negb (io (w_ops w2)) || target_is_dir then (fatal DRename, tick w2) else
  (Ok tt, emit (FRename out) (dir_set out (EFile (header fl)) (dir_del (tmp_name out) (w_dir w2))) w2).

Fixpoint write_all (io : nat -> bool) (fl : flags) (outs : list string) (w : world) : res unit * world :=
  match outs with
  | [] => (Ok tt, w)
  | o :: r =>
      match notedown io fl o w with
      | (Ok _, w') => write_all io fl r w'
      | (Stop s, w') => (Stop s, w')
      end
  end.

(* filepath.Match("*.shoot<cmd>*.go", name) for a name without separators *)
Definition glob_match (c : subcmd) (name : string) : bool :=
  let n := String.length name in
  ends_with ".go" name && contains (".shoot" ++ sub_name c) (stake (n - 3) name).

(* isAllInOneFile: ^// Code generated by.*-type=\*.*DO NOT EDIT. *)
Definition is_aio_line (line : string) : bool :=
  String.prefix "// Code generated by" line &&
  match index_of "-type=*" (sdrop 20 line) with
  | None => false
  | Some a =>
      let rest := sdrop (a + 7) (sdrop 20 line) in
      match index_of "DO NOT EDIT" rest with
      | None => false
      | Some b => Nat.ltb (b + 11) (String.length rest)
      end
  end.

(* isGeneratedBy: ^// Code generated by QUOTE shoot <cmd> SPACE .*DO NOT EDIT. *)
Definition is_gen_line (c : subcmd) (line : string) : bool :=
  let p := "// Code generated by " ++ quote ++ "shoot " ++ sub_name c ++ " " in
  String.prefix p line &&
  let rest := sdrop (String.length p) line in
  match index_of "DO NOT EDIT" rest with
  | None => false
  | Some b => Nat.ltb (b + 11) (String.length rest)
  end.

(* insertion sort by byte order: filepath.Glob returns the names sorted *)
Fixpoint insert_sorted (x : string) (l : list string) : list string :=
  match l with
  | [] => [x]
  | y :: r => if String.leb x y then x :: l else y :: insert_sorted x r
  end.
Definition sort_names (l : list string) : list string := fold_right insert_sorted [] l.

(* GeneratorBase.Clean: the loop over the matches *)
Fixpoint clean_loop (io : nat -> bool) (fl : flags) (genfile : string) (names : list string) (w : world)
  : res unit * world :=
  match names with
  | [] => (Ok tt, w)
  | n :: r =>
      if n =? genfile then clean_loop io fl genfile r w else      (* filepath.Base(file) == genfile *)
      match assoc n (w_dir w) with
      | Some (EFile line) =>
          if is_aio_line line then clean_loop io fl genfile r w
          else if negb (is_gen_line (fl_sub fl) line) then clean_loop io fl genfile r w
          else if negb (io (w_ops w)) then (fatal DCleanError, tick w)
          else clean_loop io fl genfile r (emit (FRemove n) (dir_del n (w_dir w)) w)
      | Some _ => (fatal DCleanError, w)              (* firstLine: open / read error *)
      | None => clean_loop io fl genfile r w           (* a Go source of the package: first line `package ...` *)
      end
  end.

Definition clean (io : nat -> bool) (fl : flags) (ld : loaded) (srcs : list string) (w : world) : res unit * world :=
  if fl_sep fl then (Ok tt, w)
  else if ld_allinone ld =? "" then (Ok tt, w)
  else
    let genfile := file_name fl ld [] "" in
    let names := sort_names (dedup (filter (glob_match (fl_sub fl)) (map fst (w_dir w) ++ srcs)%list)) in
    clean_loop io fl genfile names w.

(* --------------------------------------------------------------- main *)

(* the three phases that only read *)
Definition analyse (i : input) : res (flags * loaded * list string) :=
  do fl <- parse_flags i;
  do ld <- load_package i fl;
  do outs <- generate i fl ld;
  Ok (fl, ld, outs).

(* the entries of the package directory before the run.  (When [dir] does not
   denote the package directory no Go file is loaded and nothing is written.) *)
Definition world0 (i : input) : world := {| w_dir := i_extra i; w_log := []; w_ops := 0 |}.

(* sigma = the iteration order of Go's map srcMap; io = the fault oracle *)
Definition run (sigma : list string -> list string) (io : nat -> bool) (i : input) : stop * world :=
  let w0 := world0 i in
  match analyse i with
  | Stop s => (s, w0)
  | Ok (fl, ld, outs) =>
      match write_all io fl (sigma outs) w0 with
      | (Stop s, w1) => (s, w1)
      | (Ok _, w1) =>
          match outs with
          | [] => (Exit DNothing, w1)
          | _ =>
              match clean io fl ld (map f_name (files_of i (fl_dir fl))) w1 with
              | (Stop s, w2) => (s, w2)
              | (Ok _, w2) => (Exit DSuccess, w2)
              end
          end
      end
  end.

Definition id_order (l : list string) : list string := l.
Definition no_fault (_ : nat) : bool := true.

(* ------------------------------------------------ decidable guards (C18) *)

(* The boolean guards of the classification theorems.  They are definitions, not
   proofs: the correspondence check evaluates them on every sampled case to
   measure how much of the stream lies inside the theorems' domain. *)

(* the type of the package an embedded field names (pointer and type arguments stripped) *)
Definition tname (t : texpr) : option string := local_name (core t).
(* the imported type an embedded field names *)
Definition tsel (t : texpr) : option (string * string) :=
  match local_name (core t) with Some _ => None | None => sel_name (core t) end.

(* position of the first type spec named n *)
Fixpoint pos (n : string) (l : list tspec) : option nat :=
  match l with
  | [] => None
  | s :: r => if ts_name s =? n then Some 0 else option_map S (pos n r)
  end.

(* a reference to m from the spec at position p: m is undeclared or declared strictly earlier *)
Definition ref_ok (tops : list tspec) (p : nat) (m : string) : bool :=
  match pos m tops with None => true | Some q => Nat.ltb q p end.

Definition spec_ok (tops : list tspec) (p : nat) (s : tspec) : bool :=
  match ts_body s with
  | BStruct fs => forallb (fun f => if is_embedded f
                                    then match tname (fd_type f) with Some m => ref_ok tops p m | None => true end
                                    else true) fs
  | BOther (TId m) => ref_ok tops p m
  | _ => true
  end.

Fixpoint specs_ok (tops : list tspec) (p : nat) (l : list tspec) : bool :=
  match l with
  | [] => true
  | s :: r => spec_ok tops p s && specs_ok tops (S p) r
  end.

(* "declared before use": every embedded field and every `type A B` refers to an earlier declaration *)
Definition ordered (tops : list tspec) : bool := specs_ok tops 0 tops.

Definition is_file (e : entry) : bool := match e with EFile _ => true | _ => false end.
Definition files_only (d : list (string * entry)) : bool := forallb (fun x => is_file (snd x)) d.

(* The two ways a directory state can make a run fail AFTER it wrote something (open findings
   K_rename_fail_after_write, K_clean_unreadable_after_write), entry by entry:
   a directory at the name of an output; when the all-in-one cleanup runs, an entry matching
   *.shoot<cmd>*.go that is not a regular file. *)
Definition entry_ok (outs : list string) (fl : flags) (ld : loaded) (x : string * entry) : bool :=
  negb (mem (fst x) outs && match snd x with EDir => true | _ => false end) &&
  (fl_sep fl || (ld_allinone ld =? "") || negb (glob_match (fl_sub fl) (fst x)) || is_file (snd x)).

(* the guard of C18_nonzero_exit_changes_nothing: decided from the result of the read-only phases *)
Definition state_ok (i : input) : bool :=
  match analyse i with
  | Ok (fl, ld, outs) => forallb (entry_ok outs fl ld) (i_extra i)
  | Stop _ => true
  end.

(* no embedded field of a struct of this scope names an imported type *)
Definition sel_free (tops : list tspec) : bool :=
  forallb (fun s => match ts_body s with
                    | BStruct fs => forallb (fun f => negb (is_embedded f) ||
                                                      match tsel (fd_type f) with None => true | Some _ => false end) fs
                    | _ => true
                    end) tops.

(* the imported packages: declared before use, and their structs embed no imported type themselves *)
Definition foreign_ok (fo : foreign) : bool := forallb (fun x => ordered (snd x) && sel_free (snd x)) fo.

(* the guard of C18_always_a_deliberate_exit, decidable form *)
Definition input_ok (i : input) : bool :=
  ordered (top_tspecs (i_files i)) && foreign_ok (i_foreign i) &&
  forallb (fun x => match snd x with
                    | DestPkg _ fs => ordered (top_tspecs fs)
                    | DestFile => true
                    end) (i_dests i).
