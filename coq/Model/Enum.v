(* Model of `shoot enum` (internal/enumer/{str.go,make.go,generator.go,enumer.tmpl},
   enumer.go, constraints/constraints.go) -- properties C04, C12, C14.

   Layout (same as the code):

     pkg (abstract Go package: named integer types + const blocks in files)
        |  const_env      = what go/types computes (value and type of every constant)
        |  collect        = str.go makeStr, the literal carry-down walk over all files
        |  make_str       = sort, valueMap/strMap, NameList, Max, Enums
        v
     gen (template data: NameList, guard literals, strof, flags)
        |  t_values .. t_value_map, str_of, is_valid, has/add/remove,
        |  marshal/unmarshal/scan, parse_enum/try_parse_enum/is_enum,
        |  guard_ok/compiles       = the meaning of enumer.tmpl and enumer.go,
        v                            relative to the constant values `cenv` that the
     observable behaviour            compiler sees in the CURRENT source (the tables
                                     reference the constants by name)

   `declared` is the independent, declarative reading of "the typed constants of
   type T" (Go's implicit-repetition rule); Proofs/EnumCollect.v shows that the
   literal walk refines it on the grammar.

   No proofs in this file. *)
From Coq Require Import List ZArith Bool String Ascii DecimalString.
Import ListNotations.
Local Open Scope string_scope.
Local Open Scope Z_scope.

(* ------------------------------------------------------------------ strings *)

(* fmt.Sprintf("%d", x) *)
Definition dec (z : Z) : string := NilZero.string_of_int (Z.to_int z).

Fixpoint drop (n : nat) (s : string) : string :=
  match n, s with
  | O, _ => s
  | S n', EmptyString => EmptyString
  | S n', String _ s' => drop n' s'
  end.

(* strings.TrimPrefix(s, p) *)
Definition trim_prefix (s p : string) : string :=
  if String.prefix p s then drop (String.length p) s else s.

(* strings.Join(l, sep) *)
Definition join (sep : string) (l : list string) : string := String.concat sep l.

Fixpoint assoc_s {A} (k : string) (l : list (string * A)) : option A :=
  match l with
  | [] => None
  | (k', v) :: l' => if String.eqb k k' then Some v else assoc_s k l'
  end.

Fixpoint assoc_z {A} (k : Z) (l : list (Z * A)) : option A :=
  match l with
  | [] => None
  | (k', v) :: l' => if Z.eqb k k' then Some v else assoc_z k l'
  end.

Definition mem_s (k : string) (l : list string) : bool := existsb (String.eqb k) l.
Definition mem_z (k : Z) (l : list Z) : bool := existsb (Z.eqb k) l.

Fixpoint nodup_s (l : list string) : bool :=
  match l with [] => true | x :: l' => negb (mem_s x l') && nodup_s l' end.
Fixpoint nodup_z (l : list Z) : bool :=
  match l with [] => true | x :: l' => negb (mem_z x l') && nodup_z l' end.

(* -------------------------------------------------------------------- kinds *)

(* the ten integer kinds; int and uint are 64 bits wide (GOARCH amd64/arm64,
   the platform the check runs on -- listed in the trusted base) *)
Inductive kind := KInt | KInt8 | KInt16 | KInt32 | KInt64
                | KUint | KUint8 | KUint16 | KUint32 | KUint64.

Definition kind_eqb (a b : kind) : bool :=
  match a, b with
  | KInt, KInt | KInt8, KInt8 | KInt16, KInt16 | KInt32, KInt32 | KInt64, KInt64
  | KUint, KUint | KUint8, KUint8 | KUint16, KUint16 | KUint32, KUint32 | KUint64, KUint64 => true
  | _, _ => false
  end.

Definition width (k : kind) : Z :=
  match k with
  | KInt8 | KUint8 => 8 | KInt16 | KUint16 => 16 | KInt32 | KUint32 => 32
  | KInt | KInt64 | KUint | KUint64 => 64
  end.

Definition signed (k : kind) : bool :=
  match k with KInt | KInt8 | KInt16 | KInt32 | KInt64 => true | _ => false end.

Definition kmin (k : kind) : Z := if signed k then - 2 ^ (width k - 1) else 0.
Definition kmax (k : kind) : Z := if signed k then 2 ^ (width k - 1) - 1 else 2 ^ width k - 1.
Definition in_range (k : kind) (x : Z) : bool := (kmin k <=? x) && (x <=? kmax k).

(* the non-constant conversion T(v) between integer types: keep the low
   `width` bits, reinterpret in T's signedness *)
Definition wrap (k : kind) (v : Z) : Z :=
  let m := 2 ^ width k in
  if signed k then (v + m / 2) mod m - m / 2 else v mod m.

(* the uint64 bit pattern stored in Value.value, and its int64 reading *)
Definition to_u64 (v : Z) : Z := v mod 2 ^ 64.
Definition as_i64 (u : Z) : Z := if u <? 2 ^ 63 then u else u - 2 ^ 64.

(* ------------------------------------------------------------- spec grammar *)

(* constant expressions of the grammar: iota, literals (also negative),
   references to earlier constants, + - * << | *)
Inductive cexpr :=
| EIota
| ELit (z : Z)
| ERef (n : string)
| EAdd (a b : cexpr)
| ESub (a b : cexpr)
| EMul (a b : cexpr)
| EShl (a b : cexpr)
| EOr (a b : cexpr).

(* the type part of a value spec as the AST shows it *)
Inductive vtype :=
| TNone                     (* no type *)
| TIdent (t : string)       (* an identifier: Level *)
| TForeign (k : kind).      (* any other type expression (pkg.Type), of integer kind k *)

(* one ValueSpec: names (possibly "_"), optional type, values ([] = carried down) *)
Record vspec := { vs_names : list string; vs_type : vtype; vs_vals : list cexpr }.

Definition cblock := list vspec.          (* const ( ... ) *)
Definition gofile := list cblock.         (* the const declarations of one file, in order *)

Record pkg := {
  p_types : list (string * kind);         (* type Level int8 *)
  p_files : list gofile                   (* in the order of packages.Package.Syntax *)
}.

(* the type go/types gives a constant *)
Inductive ctype := CUntyped | CNamed (t : string) | CForeign (k : kind).

(* ce_ok: the expression evaluates and is representable in the constant's type;
   ce_implicit: the spec has no type but its expression is typed (`AB = A | B`) *)
Record centry := { ce_name : string; ce_val : Z; ce_type : ctype; ce_ok : bool; ce_implicit : bool }.
Definition cenv_t := list centry.

Fixpoint lookup_c (n : string) (env : cenv_t) : option centry :=
  match env with
  | [] => None
  | e :: env' => if String.eqb n (ce_name e) then Some e else lookup_c n env'
  end.

(* exact (arbitrary precision) constant arithmetic; None = does not compile
   (undefined reference, negative shift count) *)
Fixpoint eval (env : cenv_t) (iota : Z) (e : cexpr) : option Z :=
  let bin f a b :=
    match eval env iota a, eval env iota b with
    | Some x, Some y => Some (f x y)
    | _, _ => None
    end in
  match e with
  | EIota => Some iota
  | ELit z => Some z
  | ERef n => match lookup_c n env with Some c => Some (ce_val c) | None => None end
  | EAdd a b => bin Z.add a b
  | ESub a b => bin Z.sub a b
  | EMul a b => bin Z.mul a b
  | EOr a b => bin Z.lor a b
  | EShl a b =>
      match eval env iota a, eval env iota b with
      | Some x, Some y => if y <? 0 then None else Some (Z.shiftl x y)
      | _, _ => None
      end
  end.

(* the type of an expression without an explicit type: that of its first
   typed operand, else untyped *)
Fixpoint etype (env : cenv_t) (e : cexpr) : ctype :=
  match e with
  | EIota | ELit _ => CUntyped
  | ERef n => match lookup_c n env with Some c => ce_type c | None => CUntyped end
  | EAdd a b | ESub a b | EMul a b | EOr a b =>
      match etype env a with CUntyped => etype env b | t => t end
  | EShl a _ => etype env a
  end.

Definition kind_of_type (p : pkg) (t : string) : option kind := assoc_s t (p_types p).

Definition kind_of_ctype (p : pkg) (t : ctype) : option kind :=
  match t with
  | CUntyped => None
  | CNamed n => kind_of_type p n
  | CForeign k => Some k
  end.

(* ---- what go/types computes: Go's rule "an empty expression list repeats
   the first preceding non-empty expression list and its type if any" ---- *)

Definition ctype_of (env : cenv_t) (ty : vtype) (e : cexpr) : ctype :=
  match ty with
  | TIdent t => CNamed t
  | TForeign k => CForeign k
  | TNone => etype env e
  end.

(* entries of the names of one spec; every name sees only the constants
   declared before the spec *)
Fixpoint spec_entries (p : pkg) (env : cenv_t) (iota : Z) (ty : vtype)
         (names : list string) (exprs : list cexpr) : list centry :=
  match names with
  | [] => []
  | n :: names' =>
      let e := hd (ELit 0) exprs in
      let v := eval env iota e in
      let ct := ctype_of env ty e in
      let ok := match exprs, v with
                | _ :: _, Some x =>
                    match kind_of_ctype p ct with
                    | Some k => in_range k x
                    | None => match ct with CUntyped => true | _ => false end
                    end
                | _, _ => false
                end in
      let impl := match ty, ct with
                  | TNone, CUntyped => false
                  | TNone, _ => true
                  | _, _ => false
                  end in
      let rest := spec_entries p env iota ty names' (tl exprs) in
      if String.eqb n "_" then
        (* the blank identifier declares nothing, but its expression is still checked *)
        {| ce_name := "_"; ce_val := 0; ce_type := CUntyped; ce_ok := ok; ce_implicit := false |} :: rest
      else {| ce_name := n; ce_val := match v with Some x => x | None => 0 end;
              ce_type := ct; ce_ok := ok; ce_implicit := impl |} :: rest
  end.

Fixpoint block_entries (p : pkg) (env : cenv_t) (iota : Z) (last : vtype * list cexpr)
         (b : cblock) : list centry :=
  match b with
  | [] => []
  | s :: b' =>
      let cur := match vs_vals s with [] => last | _ :: _ => (vs_type s, vs_vals s) end in
      let es := spec_entries p env iota (fst cur) (vs_names s) (snd cur) in
      (es ++ block_entries p (env ++ es) (iota + 1) cur b')%list
  end.

Fixpoint blocks_entries (p : pkg) (env : cenv_t) (bs : list cblock) : cenv_t :=
  match bs with
  | [] => env
  | b :: bs' => blocks_entries p (env ++ block_entries p env 0 (TNone, []) b)%list bs'
  end.

Definition all_blocks (p : pkg) : list cblock := List.concat (p_files p).

(* all constants of the package in declaration order ("_" entries included,
   they carry only the ok flag) *)
Definition const_env (p : pkg) : cenv_t := blocks_entries p [] (all_blocks p).

Definition named_entries (env : cenv_t) : cenv_t :=
  filter (fun e => negb (String.eqb (ce_name e) "_")) env.

(* pkg.defs[n] -> (value, kind is unsigned?) *)
Definition const_val (env : cenv_t) (n : string) : Z :=
  match lookup_c n env with Some c => ce_val c | None => 0 end.

(* the declarative reading: the constants whose type is T, in declaration order *)
Definition ctype_is (T : string) (t : ctype) : bool :=
  match t with CNamed n => String.eqb n T | _ => false end.

Definition declared (T : string) (p : pkg) : list (string * Z) :=
  map (fun e => (ce_name e, ce_val e))
      (filter (fun e => ctype_is T (ce_type e)) (named_entries (const_env p))).

(* the first declared constant with value v: the name that stands for the value *)
Definition first_name (D : list (string * Z)) (v : Z) : option string :=
  match filter (fun nv => snd nv =? v) D with
  | nv :: _ => Some (fst nv)
  | [] => None
  end.

(* ------------------------------------------- str.go makeStr, literally ---- *)

Record value := { v_name : string; v_bits : Z (* uint64 *); v_signed : bool }.

Definition mk_value (p : pkg) (env : cenv_t) (n : string) : value :=
  match lookup_c n env with
  | Some c =>
      {| v_name := n; v_bits := to_u64 (ce_val c);
         v_signed := match kind_of_ctype p (ce_type c) with
                     | Some k => signed k
                     | None => true
                     end |}
  | None => {| v_name := n; v_bits := 0; v_signed := true |}
  end.

Definition names_values (p : pkg) (env : cenv_t) (names : list string) : list value :=
  map (mk_value p env) (filter (fun n => negb (String.eqb n "_")) names).

(* the loop over decl.Specs with the remembered type `typ` *)
Fixpoint collect_block (p : pkg) (env : cenv_t) (T : string) (typ : string) (b : cblock)
  : list value :=
  match b with
  | [] => []
  | s :: b' =>
      match vs_type s, vs_vals s with
      | TNone, _ :: _ => collect_block p env T "" b'        (* untyped with value: reset, skip *)
      | TForeign _, _ => collect_block p env T "" b'        (* not an identifier: skip and reset (K_enum_foreign_carry, repaired) *)
      | TIdent t, _ =>
          if String.eqb t T
          then (names_values p env (vs_names s) ++ collect_block p env T t b')%list
          else collect_block p env T t b'
      | TNone, [] =>
          if String.eqb typ T
          then (names_values p env (vs_names s) ++ collect_block p env T typ b')%list
          else collect_block p env T typ b'
      end
  end.

(* for every file, for every const declaration: typ := "" *)
Definition collect (p : pkg) (T : string) : list value :=
  let env := const_env p in
  flat_map (fun f => flat_map (collect_block p env T "") f) (p_files p).

(* sort.SliceStable(values, less) -- modelled as insertion sort that inserts an element
   BEFORE the elements that are not smaller, processing the list from its end: stable
   (constants with one value keep their declaration order); the stable sorted
   arrangement is unique, so the algorithm does not matter *)
Definition less (a b : value) : bool :=
  if v_signed a then as_i64 (v_bits a) <? as_i64 (v_bits b) else v_bits a <? v_bits b.

Fixpoint insert_v (x : value) (l : list value) : list value :=
  match l with
  | [] => [x]
  | y :: l' => if less y x then y :: insert_v x l' else x :: l
  end.

Fixpoint sort_v (l : list value) : list value :=
  match l with [] => [] | x :: l' => insert_v x (sort_v l') end.

(* the loop after the sort: `if i > 0 && values[i-1].value == v.value { continue }` -- a
   constant whose value is already listed (an alias) is not listed again; K_enum_dup, repaired *)
Fixpoint dedup_v (prev : option Z) (l : list value) : list value :=
  match l with
  | [] => []
  | v :: l' =>
      if match prev with Some b => b =? v_bits v | None => false end
      then dedup_v (Some (v_bits v)) l'
      else v :: dedup_v (Some (v_bits v)) l'
  end.

(* valueMap[name]: the literal printed into the guard *)
Definition guard_lit (v : value) : Z :=
  if negb (v_signed v) then v_bits v else as_i64 (v_bits v).

Record flags := { f_bit : bool; f_json : bool; f_text : bool; f_sql : bool; f_gorm : bool }.

(* the template data of one type *)
Record gen := {
  g_type : string;
  g_kind : kind;
  g_names : list string;             (* NameList: one name per value (the first declared), sorted by value *)
  g_all : list string;               (* AllNames: every constant, sorted by value (stable) *)
  g_guard : list (string * Z);       (* valueof *)
  g_strof : list (string * string);  (* strof *)
  g_enums : string;                  (* Enums *)
  g_flags : flags
}.

Definition make_str (p : pkg) (T : string) (k : kind) (fl : flags) : gen :=
  let vs := sort_v (collect p T) in
  let us := dedup_v None vs in
  {| g_type := T; g_kind := k;
     g_names := map v_name us;
     g_all := map v_name vs;
     g_guard := map (fun v => (v_name v, guard_lit v)) vs;
     g_strof := map (fun v => (v_name v, trim_prefix (v_name v) T)) vs;
     g_enums := join "," (map (fun v => "'" ++ trim_prefix (v_name v) T ++ "'") us);
     g_flags := fl |}.

(* MakeData: nothing is generated for a type without constants (for an explicitly named type
   this is reported as an error since def717b; constants declared inside function bodies are not
   part of the grammar and, since bdaa379, not collected either) *)
Definition generate (p : pkg) (T : string) (fl : flags) : option gen :=
  match kind_of_type p T with
  | None => None
  | Some k =>
      let g := make_str p T k fl in
      match g_names g with [] => None | _ :: _ => Some g end
  end.

(* --------------------------------- the meaning of the generated file ------ *)
(* `ce` = the constants as the compiler sees them in the current source.     *)

(* {{strof .}} *)
Definition strof (g : gen) (n : string) : string :=
  match assoc_s n (g_strof g) with Some s => s | None => "" end.

Definition t_strings (g : gen) : list string := map (strof g) (g_names g).

(* -bit: Has / Add / Remove.  Go's & | &^ on a fixed-width integer coincide
   with Z.land/Z.lor/Z.ldiff on its (two's complement) value and stay in range
   (EnumBits.land_in_range etc.) *)
Definition has (x f : Z) : bool := Z.land x f =? f.
Definition add (x f : Z) : Z := Z.lor x f.
Definition remove (x f : Z) : Z := Z.ldiff x f.

(* K_bit_receiver_shadow (repaired in /repo): the receiver is named after the lower-cased
   first letter of the type; the working copy of the receiver in the -bit String() is
   <receiver>_ , or <receiver>x_ when that would collide with the loop's own i_ / v_.  The
   names do not influence the behaviour any more, so they are not part of the model. *)

Inductive errk := ENotString | ENotFound | EBadType.

(* what database/sql may hand to Scan *)
Inductive sqlv := SNil | SBytes (s : string) | SStr (s : string) | SInt (z : Z) | SBool (b : bool)
                | SFloat (z : Z) | STime (unix : Z).

(* -gorm *)
Definition gorm_data_type : string := "string".
Definition gorm_db_data_type (g : gen) : string := "ENUM(" ++ g_enums g ++ ")".

Section Generated.
  Variable ce : cenv_t.
  Variable g : gen.

  Definition t_values : list Z := map (const_val ce) (g_names g).
  Definition t_string_map : list (Z * string) :=
    map (fun n => (const_val ce n, strof g n)) (g_names g).
  (* ValueMap lists every constant, also a second name of a value *)
  Definition t_value_map : list (string * Z) :=
    map (fun n => (strof g n, const_val ce n)) (g_all g).
  (* const _t_max = A | B | C *)
  Definition t_max : Z := fold_left Z.lor t_values 0.

  (* _t_map[v] (through the observation shim: _t_string_map[v]); a Go map
     miss yields "" *)
  Definition name_of (v : Z) : string :=
    match assoc_z v t_string_map with Some s => s | None => "" end.

  (* the for loop of String(); buf is the bytes.Buffer *)
  Fixpoint bit_loop (vals : list Z) (x_ : Z) (buf : string) : Z * string :=
    match vals with
    | [] => (x_, buf)
    | v :: vals' =>
        if v =? 0 then bit_loop vals' x_ buf                       (* continue *)
        else if x_ =? 0 then (x_, buf)                             (* break *)
        else if has x_ v
             then bit_loop vals' (remove x_ v) (buf ++ ", " ++ name_of v)
             else bit_loop vals' x_ buf
    end.

  Definition str_of (x : Z) : string :=
    match assoc_z x t_string_map with
    | Some s => s
    | None =>
        if (x <? 0) || (x >? t_max) then dec x
        else if f_bit (g_flags g) then
          let '(x_, buf) := bit_loop t_values x "" in
          if (x_ =? 0) && negb (String.eqb buf "") then drop 2 buf else dec x
        else dec x
    end.

  Definition is_valid (x : Z) : bool :=
    match assoc_z x t_string_map with Some _ => true | None => false end.

  (* ---- enumer.go ---- *)
  (* ParseEnum returns (t, err); t is the zero value on a miss *)
  Definition parse_enum (s : string) : Z * option errk :=
    match assoc_s s t_value_map with
    | Some v => (v, None)
    | None => (0, Some ENotFound)
    end.

  (* TryParseEnum(str, &v): (result, *v afterwards) *)
  Definition try_parse_enum (s : string) (tgt : Z) : bool * Z :=
    match parse_enum s with
    | (v, None) => (true, v)
    | (_, Some _) => (false, tgt)
    end.

  (* IsEnum[T, TV](value): x := T(value); a value that is not representable in T (TV(x) != value or
     the sign flipped, i.e. wrap v <> v) is no enum value; otherwise the loop over Values() *)
  Definition is_enum (v : Z) : bool :=
    (wrap (g_kind g) v =? v) && existsb (fun d => d =? wrap (g_kind g) v) t_values.

  (* ---- codecs; each unmarshaller returns (error, target afterwards) ---- *)
  Section Json.
    Variable jenc : string -> string.           (* json.Marshal of a string *)
    Variable jdec : string -> option string.    (* json.Unmarshal into a *string; None = error *)

    Definition marshal_json (x : Z) : string := jenc (str_of x).
    Definition unmarshal_json (data : string) (tgt : Z) : option errk * Z :=
      match jdec data with
      | None => (Some ENotString, tgt)
      | Some s =>
          match parse_enum s with
          | (v, None) => (None, v)
          | (_, Some e) => (Some e, tgt)
          end
      end.
  End Json.

  Definition marshal_text (x : Z) : string := str_of x.
  Definition unmarshal_text (text : string) (tgt : Z) : option errk * Z :=
    match parse_enum text with
    | (v, None) => (None, v)
    | (_, Some e) => (Some e, tgt)
    end.

  Definition sql_value (x : Z) : sqlv := SStr (str_of x).       (* Value() *)
  (* Scan accepts the name as []byte or as a Go string (what Value() produces) *)
  Definition scan (v : sqlv) (tgt : Z) : option errk * Z :=
    match v with
    | SBytes s | SStr s =>
        match parse_enum s with
        | (x, None) => (None, x)
        | (_, Some e) => (Some e, tgt)
        end
    | _ => (Some EBadType, tgt)
    end.

  (* ---- does the generated file (still) compile against `ce`? ---- *)
  (* `_ = x[Name - lit]` with `var x [1]struct{}`: the constant index must be 0
     (non-zero in-range index: "out of bounds"; not representable: "overflows") *)
  Definition guard_ok : bool :=
    forallb (fun nv => match lookup_c (fst nv) ce with
                       | Some c => ce_val c - snd nv =? 0
                       | None => false                 (* undefined: Name *)
                       end) (g_guard g).
  (* map literals with constant keys: duplicate keys are compile errors *)
  Definition keys_ok : bool := nodup_z t_values && nodup_s (map fst t_value_map).

  (* bit_map_bug: K_bit_map is present (the template references _t_map) *)
  Definition compiles (bit_map_bug : bool) : bool :=
    guard_ok && keys_ok && negb (f_bit (g_flags g) && bit_map_bug).
End Generated.

(* ------------------------------------------------ grammar well-formedness -- *)

(* every constant evaluates, is representable in its type, names are unique *)
Definition wf_pkg (p : pkg) : bool :=
  forallb ce_ok (const_env p)
  && nodup_s (map ce_name (named_entries (const_env p)))
  && nodup_s (map fst (p_types p))
  (* one package scope: no constant is named like a type, none has the empty name *)
  && forallb (fun e => negb (String.eqb (ce_name e) "") && negb (mem_s (ce_name e) (map fst (p_types p))))
             (const_env p).

Fixpoint block_shape_ok (first : bool) (b : cblock) : bool :=
  match b with
  | [] => true
  | s :: b' =>
      (match vs_vals s with
       | [] => negb first && match vs_type s with TNone => true | _ => false end
       | _ :: _ => Nat.eqb (List.length (vs_vals s)) (List.length (vs_names s))
       end)
      && block_shape_ok false b'
  end.

(* syntactic shape Go requires: the first spec of a block has values, a spec
   with a type has values, as many values as names; carried-down specs have as
   many names as the spec they repeat *)
Fixpoint carried_len_ok (n : nat) (b : cblock) : bool :=
  match b with
  | [] => true
  | s :: b' =>
      match vs_vals s with
      | [] => Nat.eqb (List.length (vs_names s)) n && carried_len_ok n b'
      | _ :: _ => carried_len_ok (List.length (vs_vals s)) b'
      end
  end.

Definition shape_ok (p : pkg) : bool :=
  forallb (fun b => block_shape_ok true b && carried_len_ok 0 b) (all_blocks p).

(* guard of the refinement collect = declared *)
(* K_enum_implicit_type: no spec without a type whose expression is of type T (`AB = A | B` with
   A, B of type T).  Implicitly typed constants of OTHER types do not matter for T. *)
Definition no_implicit (p : pkg) (T : string) : bool :=
  forallb (fun e => negb (ce_implicit e && ctype_is T (ce_type e))) (const_env p).

(* ------------------------------------------------ -bit grammar (C14) ------- *)

(* a single-bit flag: 2^i *)
Definition is_single (f : Z) : bool := (0 <? f) && (f =? 2 ^ Z.log2 f).

Definition bits_upto (v : Z) : list Z := map Z.of_nat (seq 0 (Z.to_nat (Z.log2 v + 1))).

(* every declared value is non-negative and each of its bits is itself a
   declared (single-bit) flag: single bits, an optional zero, composites of
   declared bits *)
Definition bits_declared_b (vals : list Z) : bool :=
  forallb (fun v => (0 <=? v) &&
                    forallb (fun i => negb (Z.testbit v i) || mem_z (2 ^ i) vals) (bits_upto v)) vals.
