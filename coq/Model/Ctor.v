(* Model of /repo/internal/constructor  (shoot new): the analysis of one struct
   type -- parseFields/extractTopFiels/expandIfStruct/extractStructFields/
   checkShadowAndAppend (fields.go), makeNew/newParamsList/newBody/newBodyRec
   (new.go, fields.go) -- written literally (same loops, same order, same
   quirks), plus
     * the spec grammar (abstract Go package: struct declarations over a type
       palette, doc comments and raw tags as text),
     * the abstract generated program (type parameters, parameter list, literal
       tree) and its meaning [eval_new] (a Go composite literal = the zero value
       of the struct with the listed fields assigned),
     * an INDEPENDENT definition of Go's selector rule [resolve] (the unique
       field of minimal depth), given from the struct graph by depth levels,
       without reference to shoot's algorithm.
   No proofs in this file.  Used by C02, C13, C03, C11. *)
From Coq Require Import String Ascii List Bool Arith ZArith.
From Shoot Require Import Base.Str Base.GoVal Model.Transfer Model.CtorDirective.
Import ListNotations.
Local Open Scope string_scope.

(* ------------------------------------------------------------------ types *)
Inductive ty :=
| TBasic (n : string)                                  (* predeclared: int, string, bool, any, ... *)
| TPtr (t : ty)
| TSlice (t : ty)
| TMap (k v : ty)
| TNamed (pkg : string) (n : string) (args : list ty)  (* pkg = "" : the package under generation *)
| TParam (n : string).                                 (* a type parameter of the enclosing declaration *)

(* types.TypeString(t, g.qualifier): package NAME for foreign packages, nothing
   for the package under generation; type arguments separated by ", " (go1.24) *)
Fixpoint type_string (t : ty) : string :=
  match t with
  | TBasic n => n
  | TPtr t' => "*" ++ type_string t'
  | TSlice t' => "[]" ++ type_string t'
  | TMap k v => "map[" ++ type_string k ++ "]" ++ type_string v
  | TNamed pkg n args =>
      (if String.eqb pkg "" then n else pkg ++ "." ++ n) ++
      match args with
      | [] => ""
      | _ => "[" ++ String.concat ", " (map type_string args) ++ "]"
      end
  | TParam n => n
  end.

Fixpoint subst (s : list (ident * ty)) (t : ty) : ty :=
  match t with
  | TBasic n => TBasic n
  | TPtr t' => TPtr (subst s t')
  | TSlice t' => TSlice (subst s t')
  | TMap k v => TMap (subst s k) (subst s v)
  | TNamed pkg n args => TNamed pkg n (map (subst s) args)
  | TParam n => match assoc n s with Some t' => t' | None => TParam n end
  end.

(* --------------------------------------------------------- the spec grammar *)
(* one field declaration of a struct type, as the AST has it *)
Record fdecl := {
  fd_names : list ident;        (* [] = embedded field *)
  fd_ty : ty;
  fd_doc : string;              (* f.Doc.Text(): "" when there is no doc comment *)
  fd_tag : option string        (* f.Tag.Value: the raw literal including its back quotes *)
}.

Inductive constraint :=
| CIdent (n : string)           (* any, comparable, Number: an *ast.Ident *)
| COther (text : string).       (* fmt.Stringer, ~int | ~string, ...: anything else *)

Record tpgroup := { tp_names : list ident; tp_con : constraint }.   (* [K, V comparable] is one group *)

Record sdecl := {
  sd_pkg : string;              (* "" = the package under generation, else the NAME of a helper package *)
  sd_name : ident;
  sd_tparams : list tpgroup;
  sd_doc : string;              (* doc comment of the type declaration (GenDecl) *)
  sd_fields : list fdecl
}.

(* every struct type visible to the run; named types that are not listed here
   are not structs (time.Duration, helper.Kind, MyInt) *)
Definition pkg_spec := list sdecl.

Inductive tagcase := TagPascal | TagCamel | TagLower | TagUpper.

Record ctor_flags := {
  fl_getset : bool; fl_json : bool; fl_tagcase : tagcase;
  fl_opt : bool; fl_exp : bool (* parsed by the code but never read *); fl_short : bool
}.

Definition plain_flags : ctor_flags :=
  {| fl_getset := false; fl_json := false; fl_tagcase := TagCamel; fl_opt := false; fl_exp := false; fl_short := false |}.

Fixpoint find_struct (pkg : pkg_spec) (q n : string) : option sdecl :=
  match pkg with
  | [] => None
  | sd :: r => if String.eqb (sd_pkg sd) q && String.eqb (sd_name sd) n then Some sd else find_struct r q n
  end.

Definition tparam_names (sd : sdecl) : list ident := flat_map tp_names (sd_tparams sd).

(* a struct type instance: declaration + type arguments *)
Definition sinst := (sdecl * list ty)%type.

(* expandIfStruct's type switch: a named struct type or a pointer to one *)
Definition struct_of (pkg : pkg_spec) (t : ty) : option sinst :=
  match t with
  | TNamed q n args => match find_struct pkg q n with Some sd => Some (sd, args) | None => None end
  | TPtr (TNamed q n args) => match find_struct pkg q n with Some sd => Some (sd, args) | None => None end
  | _ => None
  end.

Definition is_ptr_ty (t : ty) : bool := match t with TPtr _ => true | _ => false end.

(* shortName *)
Definition short_name (t : ty) : string :=
  match t with
  | TNamed _ n _ => n
  | TPtr (TNamed _ n _) => n
  | _ => ""
  end.

(* strings.TrimLeft(name, "*") *)
Fixpoint trim_left_stars (s : string) : string :=
  match s with
  | String c r => if Ascii.eqb c "*"%char then trim_left_stars r else s
  | EmptyString => EmptyString
  end.

(* qualifiedName: (TypeString without ALL leading stars, starts with a star) *)
Definition qualified_name (t : ty) : string * bool :=
  let name := type_string t in
  if String.prefix "*" name then (trim_left_stars name, true) else (name, false).

(* the fields of a struct type as go/types presents them: one entry per name,
   embedded fields named by their type, type arguments substituted *)
Definition tfield := (ident * ty * bool)%type.      (* name, type, embedded *)

Definition struct_fields (si : sinst) : list tfield :=
  let '(sd, args) := si in
  let s := combine (tparam_names sd) args in
  flat_map (fun fd =>
    match fd_names fd with
    | [] => [(short_name (subst s (fd_ty fd)), subst s (fd_ty fd), true)]
    | ns => map (fun n => (n, subst s (fd_ty fd), false)) ns
    end) (sd_fields sd).

(* the type T names itself with inside its own declaration *)
Definition self_inst (sd : sdecl) : sinst := (sd, map TParam (tparam_names sd)).

(* ------------------------------------------------- the flattened field list *)
(* types.go: Field.  [f_path] is a ghost component (the code does not have it):
   the selector path of the entry from the struct under generation. *)
Record field := {
  f_name : ident; f_qtype : string; f_ty : ty; f_depth : nat; f_ptr : bool;
  f_shadowed : bool; f_embedded : bool; f_get : bool; f_set : bool; f_new : bool;
  f_def : string; f_jsontag : string;
  f_path : path
}.

Definition set_shadowed (f : field) : field :=
  {| f_name := f_name f; f_qtype := f_qtype f; f_ty := f_ty f; f_depth := f_depth f; f_ptr := f_ptr f;
     f_shadowed := true; f_embedded := f_embedded f; f_get := f_get f; f_set := f_set f; f_new := f_new f;
     f_def := f_def f; f_jsontag := f_jsontag f; f_path := f_path f |}.

(* the loop of checkShadowAndAppend: returns the updated list and the updated new entry *)
Fixpoint mark_pass (fields : list field) (fld : field) : list field * field :=
  match fields with
  | [] => ([], fld)
  | f :: r =>
      if negb (String.eqb (f_name f) (f_name fld)) then
        let '(r', fld') := mark_pass r fld in (f :: r', fld')
      else if Nat.ltb (f_depth fld) (f_depth f) then
        let '(r', fld') := mark_pass r fld in (set_shadowed f :: r', fld')
      else if Nat.ltb (f_depth f) (f_depth fld) then
        let '(r', fld') := mark_pass r (set_shadowed fld) in (f :: r', fld')
      else
        let '(r', fld') := mark_pass r fld in (f :: r', fld')
  end.

Definition check_shadow_and_append (fields : list field) (fld : field) : list field :=
  let '(fields', fld') := mark_pass fields fld in (fields' ++ [fld'])%list.

Definition embedded_entry (t : ty) (depth : nat) (pre : path) : field :=
  let '(qn, isptr) := qualified_name t in
  {| f_name := short_name t; f_qtype := qn; f_ty := t; f_depth := depth; f_ptr := isptr;
     f_shadowed := false; f_embedded := true; f_get := false; f_set := false; f_new := false;
     f_def := ""; f_jsontag := ""; f_path := (pre ++ [short_name t])%list |}.

(* an entry below the top level: no directives, no tags, no filters *)
Definition promoted_entry (n : ident) (t : ty) (depth : nat) (is_new : bool) (pre : path) : field :=
  {| f_name := n; f_qtype := type_string t; f_ty := t; f_depth := depth; f_ptr := false;
     f_shadowed := false; f_embedded := false; f_get := false; f_set := false; f_new := is_new;
     f_def := ""; f_jsontag := ""; f_path := (pre ++ [n])%list |}.

(* expandIfStruct + extractStructFields.  fuel = remaining embedding depth;
   None = the fuel ran out (the code recurses without bound on a struct that
   embeds itself). *)
Fixpoint expand_if_struct (pkg : pkg_spec) (fuel : nat) (depth : nat) (pre : path) (t : ty)
         (is_new : bool) (fields : list field) : option (list field) :=
  match struct_of pkg t with
  | None => Some fields
  | Some si =>
      match fuel with
      | O => None
      | S fuel' =>
          let e := embedded_entry t depth pre in
          (fix extract (fs : list tfield) (fields : list field) : option (list field) :=
             match fs with
             | [] => Some fields
             | (n, ft, emb) :: fs' =>
                 if emb then
                   match expand_if_struct pkg fuel' (S depth) (f_path e) ft is_new fields with
                   | Some fields' => extract fs' fields'
                   | None => None
                   end
                 else extract fs' (check_shadow_and_append fields
                                     (promoted_entry n ft (S depth) is_new (f_path e)))
             end) (struct_fields si) (check_shadow_and_append fields e)
      end
  end.

Inductive cres (A : Type) :=
| COk (a : A)
| CFatal (msg : string)       (* logx.Fatalf: exit status 1, nothing written *)
| COutOfFuel.                 (* the code does not terminate *)
Arguments COk {A} a.
Arguments CFatal {A} msg.
Arguments COutOfFuel {A}.

(* parseGetSet: None = fatal *)
Definition parse_get_set (doc : string) (name : ident) : option (bool * bool) :=
  let '(g, s) := parse_getset_comment doc in
  let '(get, set) := if Bool.eqb g s then (true, true) else (g, s) in
  if is_exported name then (if g || s then None else Some (false, false))
  else Some (get, set).

Definition top_entry (n : ident) (t : ty) (get set is_new : bool) (defv tag : string) : field :=
  let '(qn, isptr) := qualified_name t in
  {| f_name := n; f_qtype := qn; f_ty := t; f_depth := 0; f_ptr := isptr;
     f_shadowed := false; f_embedded := false; f_get := get; f_set := set; f_new := is_new;
     f_def := defv; f_jsontag := tag; f_path := [n] |}.

Definition tag_is_dash (tag : option string) : bool :=
  match tag with Some t => String.eqb (parse_new_tag t) "-" | None => false end.

(* the "named:" loop of extractTopFiels over the names of one declaration *)
Fixpoint top_names (fl : ctor_flags) (fd : fdecl) (is_new : bool) (names : list ident)
         (fields : list field) : cres (list field) :=
  match names with
  | [] => COk fields
  | n :: names' =>
      if String.prefix "_" n then top_names fl fd is_new names' fields
      else if tag_is_dash (fd_tag fd) then top_names fl fd is_new names' fields
      else
        match (if fl_getset fl then parse_get_set (fd_doc fd) n else Some (false, false)) with
        | None => CFatal ("exported field " ++ n ++ " should not has get/set flag")
        | Some (get, set) =>
            let defv := parse_def (fd_doc fd) in
            let tag := match fd_tag fd with
                       | Some t => if fl_json fl then parse_json_tag t else ""
                       | None => "" end in
            top_names fl fd is_new names'
              (check_shadow_and_append fields (top_entry n (fd_ty fd) get set is_new defv tag))
        end
  end.

(* extractTopFiels: threads the field list and g.hasNew *)
Fixpoint extract_top_fields (pkg : pkg_spec) (fl : ctor_flags) (fuel : nat) (fds : list fdecl)
         (fields : list field) (has_new : bool) : cres (list field * bool) :=
  match fds with
  | [] => COk (fields, has_new)
  | fd :: fds' =>
      let is_new := parse_new_comment (fd_doc fd) in
      let has_new' := if is_new then true else has_new in
      match fd_names fd with
      | [] =>
          match expand_if_struct pkg fuel 0 [] (fd_ty fd) is_new fields with
          | Some fields' => extract_top_fields pkg fl fuel fds' fields' has_new'
          | None => COutOfFuel
          end
      | names =>
          match top_names fl fd is_new names fields with
          | COk fields' => extract_top_fields pkg fl fuel fds' fields' has_new'
          | CFatal m => CFatal m
          | COutOfFuel => COutOfFuel
          end
      end
  end.

(* parseFields (field part) for the struct [sd] of the package under generation;
   MakeData resets hasNew to false for every type *)
Definition flatten (pkg : pkg_spec) (fl : ctor_flags) (fuel : nat) (sd : sdecl) : cres (list field * bool) :=
  extract_top_fields pkg fl fuel (sd_fields sd) [] false.

(* ---------------------------------------------------------------- makeNew *)
Inductive expr := EParam (p : ident) | EDef (text : string).

(* one element of a composite literal:  name: expr,   or   Name: [&]QType{ ... }, *)
Inductive lit :=
| LField (name : ident) (e : expr)
| LEmbed (name : ident) (amp : bool) (t : ty) (qtype : string) (kids : list lit).

(* Go maps keyed by field name: a later write replaces an earlier one *)
Fixpoint map_put {A} (k : ident) (a : A) (m : list (ident * A)) : list (ident * A) :=
  match m with
  | [] => [(k, a)]
  | (k', a') :: r => if String.eqb k k' then (k', a) :: r else (k', a') :: map_put k a r
  end.

Record new_data := {
  nd_tparams : list (string * string);     (* TypeParamList, one (names, constraint) per emitted group *)
  nd_all : list ident;                     (* AllList *)
  nd_name_map : list (ident * string);     (* NewMap: field name -> parameter name *)
  nd_type_map : list (ident * string);     (* TypeMap *)
  nd_def_list : list ident;                (* DefaultList *)
  nd_def_map : list (ident * string);      (* DefaultValueMap *)
  nd_params : list (ident * string);       (* NewParamsList: (parameter, printed type) *)
  nd_body : list lit                       (* NewBody *)
}.

(* parseFields: typeParams gets one entry per group whose constraint is an
   identifier; typeParamsMap is indexed by the group's position.  makeNew pairs
   typeParams[i] with typeParamsMap[i]. *)
Definition type_params (sd : sdecl) : list string :=
  flat_map (fun g => match tp_con g with CIdent n => [n] | COther _ => [] end) (sd_tparams sd).
Definition type_params_map (sd : sdecl) : list string :=
  map (fun g => String.concat ", " (tp_names g)) (sd_tparams sd).
Definition new_tparams (sd : sdecl) : list (string * string) :=
  mapi_aux (fun i t => (nth i (type_params_map sd) "", t)) 0 (type_params sd).

(* TypeParamNameList and the result type *$TypeName of the template *)
Definition new_tname_list (sd : sdecl) : string :=
  String.concat ", " (map fst (new_tparams sd)).
Definition new_result_type (sd : sdecl) : string :=
  "*" ++ sd_name sd ++ match new_tparams sd with [] => "" | _ => "[" ++ new_tname_list sd ++ "]" end.

Definition star_type (f : field) : string := (if f_ptr f then "*" else "") ++ f_qtype f.

(* the loop of makeNew over g.fields *)
Record new_acc := {
  a_all : list ident; a_names : list (ident * string); a_types : list (ident * string);
  a_defs : list ident; a_defmap : list (ident * string)
}.

Fixpoint make_new_loop (has_new : bool) (fields : list field) (a : new_acc) : new_acc :=
  match fields with
  | [] => a
  | f :: r =>
      if f_shadowed f then make_new_loop has_new r a
      else if f_embedded f then make_new_loop has_new r a
      else
        let has_def := negb (String.eqb (f_def f) "") in
        let a1 := {| a_all := (a_all a ++ [f_name f])%list;
                     a_names := a_names a;
                     a_types := map_put (f_name f) (star_type f) (a_types a);
                     a_defs := if has_def then (a_defs a ++ [f_name f])%list else a_defs a;
                     a_defmap := if has_def then map_put (f_name f) (f_def f) (a_defmap a) else a_defmap a |} in
        if has_new && negb (f_new f) then make_new_loop has_new r a1
        else make_new_loop has_new r
               {| a_all := a_all a1; a_names := map_put (f_name f) (to_camel_case (f_name f)) (a_names a1);
                  a_types := a_types a1; a_defs := a_defs a1; a_defmap := a_defmap a1 |}
  end.

(* newParamsList *)
Fixpoint new_params_list (fields : list field) (nm : list (ident * string)) : list (ident * string) :=
  match fields with
  | [] => []
  | f :: r =>
      if f_embedded f || f_shadowed f then new_params_list r nm
      else match assoc (f_name f) nm with
           | None => new_params_list r nm
           | Some p => (p, star_type f) :: new_params_list r nm
           end
  end.

(* newBodyRec(buf, fields, pointer, depth, nameMap): consumes entries while they
   are deeper than [depth]; returns the literal elements and the unconsumed
   rest.  fuel: the recursion is on the remaining list, which shrinks by one at
   every step, so [S (length fields)] is enough. *)
Fixpoint new_body_rec (fuel : nat) (fields : list field) (depth : Z) (nm : list (ident * string))
  : list lit * list field :=
  match fuel with
  | O => ([], fields)
  | S fuel' =>
      match fields with
      | [] => ([], [])
      | f :: rest =>
          if Z.leb (Z.of_nat (f_depth f)) depth then ([], fields)
          else if f_embedded f then
            let '(kids, rest1) := new_body_rec fuel' rest (Z.of_nat (f_depth f)) nm in
            let '(more, rest2) := new_body_rec fuel' rest1 depth nm in
            (LEmbed (f_name f) (f_ptr f) (f_ty f) (f_qtype f) kids :: more, rest2)
          else
            let item :=
              match assoc (f_name f) nm with
              | Some p => if negb (f_shadowed f) then [LField (f_name f) (EParam p)]
                          else if negb (String.eqb (f_def f) "") then [LField (f_name f) (EDef (f_def f))] else []
              | None => if negb (String.eqb (f_def f) "") then [LField (f_name f) (EDef (f_def f))] else []
              end in
            let '(more, rest1) := new_body_rec fuel' rest depth nm in
            ((item ++ more)%list, rest1)
      end
  end.

(* newBody *)
Definition new_body (fields : list field) (nm : list (ident * string)) : list lit :=
  fst (new_body_rec (S (length fields)) fields (-1)%Z nm).

Definition make_new (sd : sdecl) (has_new : bool) (fields : list field) : new_data :=
  let a := make_new_loop has_new fields
             {| a_all := []; a_names := []; a_types := []; a_defs := []; a_defmap := [] |} in
  {| nd_tparams := new_tparams sd;
     nd_all := a_all a; nd_name_map := a_names a; nd_type_map := a_types a;
     nd_def_list := a_defs a; nd_def_map := a_defmap a;
     nd_params := new_params_list fields (a_names a);
     nd_body := new_body fields (a_names a) |}.

(* the whole analysis of NewT for one type *)
Definition new_of (pkg : pkg_spec) (fl : ctor_flags) (fuel : nat) (sd : sdecl) : cres new_data :=
  match flatten pkg fl fuel sd with
  | COk (fields, has_new) => COk (make_new sd has_new fields)
  | CFatal m => CFatal m
  | COutOfFuel => COutOfFuel
  end.

(* the type parameters NewT is declared with, one (name, constraint) per name *)
Definition split_names (s : string) : list string :=
  map trim_space (split_c ","%char s).
Definition tparams_flat (tps : list (string * string)) : list (string * string) :=
  flat_map (fun g : string * string => map (fun n => (n, snd g)) (split_names (fst g))) tps.

(* -------------------------------------------------- meaning of the literal *)
(* the zero value of a struct type: embedded struct values are expanded,
   embedded pointers are nil, every other field is the opaque zero of its type.
   [fuel] bounds the expansion; where it runs out the value is the opaque VZero,
   into which no selection is possible (Stuck, never a silent zero field). *)
Fixpoint zero_struct (pkg : pkg_spec) (fuel : nat) (si : sinst) : val :=
  VStruct (map (fun tf : tfield => let '(n, ft, emb) := tf in
    (n, if emb then
          match struct_of pkg ft with
          | Some si' => if is_ptr_ty ft then VNil
                        else match fuel with O => VZero | S fuel' => zero_struct pkg fuel' si' end
          | None => VZero
          end
        else VZero)) (struct_fields si)).

Definition eval_expr (args : ident -> val) (e : expr) : val :=
  match e with EParam p => args p | EDef s => VDef s end.

(* T{ elems } : the zero value of T with the listed fields assigned in order.
   A name that is not a field of T is Stuck (Go: compile error). *)
Fixpoint eval_lit (pkg : pkg_spec) (fuel : nat) (args : ident -> val) (l : lit) (v : val) {struct l} : res val :=
  match l with
  | LField n e => set_sel v n (eval_expr args e)
  | LEmbed n amp t _ kids =>
      match struct_of pkg t with
      | None => Stuck
      | Some si =>
          bind ((fix go (ks : list lit) (x : val) {struct ks} : res val :=
                   match ks with
                   | [] => Ok x
                   | k :: ks' => bind (eval_lit pkg fuel args k x) (go ks')
                   end) kids (zero_struct pkg fuel si))
               (fun x => set_sel v n (if amp then VPtr x else x))
      end
  end.

Fixpoint eval_elems (pkg : pkg_spec) (fuel : nat) (args : ident -> val) (elems : list lit) (v : val) : res val :=
  match elems with
  | [] => Ok v
  | l :: r => bind (eval_lit pkg fuel args l v) (eval_elems pkg fuel args r)
  end.

(* NewT(args) = &T{ body } *)
Definition eval_new (pkg : pkg_spec) (fuel : nat) (sd : sdecl) (body : list lit) (args : ident -> val) : res val :=
  bind (eval_elems pkg fuel args body (zero_struct pkg fuel (self_inst sd))) (fun v => Ok (VPtr v)).

(* binding of the actual arguments to the parameter names (positional) *)
Fixpoint bind_args (params : list (ident * string)) (vals : list val) : ident -> val :=
  match params, vals with
  | (p, _) :: ps, v :: vs => fun x => if String.eqb x p then v else bind_args ps vs x
  | _, _ => fun _ => VZero
  end.

(* ------------------------------------------- Go's selector rule (independent) *)
(* the fields at embedding depth n below the struct instance si, with their
   selector paths, left to right *)
Fixpoint level (pkg : pkg_spec) (n : nat) (si : sinst) (pre : path) : list (path * tfield) :=
  match n with
  | O => map (fun tf => ((pre ++ [fst (fst tf)])%list, tf)) (struct_fields si)
  | S n' =>
      flat_map (fun tf : tfield => let '(nm, ft, emb) := tf in
        if emb then match struct_of pkg ft with
                    | Some si' => level pkg n' si' (pre ++ [nm])%list
                    | None => []
                    end
        else []) (struct_fields si)
  end.

Definition candidates (pkg : pkg_spec) (n : nat) (si : sinst) (f : ident) : list (path * tfield) :=
  filter (fun c => String.eqb (fst (fst (snd c))) f) (level pkg n si []).

(* x.f denotes the field at the shallowest depth where there is such an f; if
   there is not exactly one at that depth the selector is illegal (None).
   Depths d, d+1, ..., d+fuel-1 are searched. *)
Fixpoint resolve_from (pkg : pkg_spec) (si : sinst) (f : ident) (d fuel : nat) : option path :=
  match fuel with
  | O => None
  | S fuel' =>
      match candidates pkg d si f with
      | [] => resolve_from pkg si f (S d) fuel'
      | [c] => Some (fst c)
      | _ => None
      end
  end.

Definition resolve (pkg : pkg_spec) (fuel : nat) (sd : sdecl) (f : ident) : option path :=
  resolve_from pkg (self_inst sd) f 0 fuel.

(* the fields of T in declaration order, depth-first through embedded structs
   (leaves only), with their paths: the order the property speaks about *)
Fixpoint leaf_paths (pkg : pkg_spec) (fuel : nat) (si : sinst) (pre : path) : list path :=
  flat_map (fun tf : tfield => let '(nm, ft, emb) := tf in
    if emb then match struct_of pkg ft with
                | Some si' => match fuel with O => [] | S fuel' => leaf_paths pkg fuel' si' (pre ++ [nm])%list end
                | None => [(pre ++ [nm])%list]
                end
    else [(pre ++ [nm])%list]) (struct_fields si).
