(* Model of /repo/internal/mapper: the ANALYSIS of `shoot map` (fields.go,
   methods.go compatlize, ctor.go, manual.go's effect, match.go, mismatch.go,
   check.go) transcribed function by function, and the reading of
   mapper.tmpl as an ASSIGNMENT PLAN.  MapperEval.v gives the plan its meaning
   on values.  No proofs in this file.

   Literal points (each was observed on the binary or read off the code):
   * [Field] objects are shared by both directions and by all candidate pairs;
     they are kept in two arrays (source side, destination side) and `Target`
     is an index into the other array, so a later candidate overwrites
     Target/IsPtr/Type exactly as the pointer-sharing Go code does.
   * the template emits one statement per SOURCE field and reads the strategy
     flags of that field's final Target (ToX), resp. per DESTINATION field
     (FromX).
   * writeSrcSet/writeDestSet are keyed by field NAME; readSrcMap/writeSrcMap
     by source field name (last writer wins).
   * Go map iteration (srcPtrTypeMap/destPtrTypeMap in nilCheckWrite) goes
     through an iteration oracle [sigma]; the code sorts afterwards.
   Data refinement: dotted path strings ("Model.ID") are lists of components
   (["Model";"ID"]); sort.Strings on dotted strings equals the component-wise
   lexicographic order because '.' sorts before every identifier byte. *)
From Coq Require Import String Ascii List Bool Arith ZArith.
From Shoot Require Import Base.Str Model.Transfer Model.MapVal.
Import ListNotations.
Local Open Scope string_scope.
Local Open Scope list_scope.

Definition path := list string.

Fixpoint path_eqb (a b : path) : bool :=
  match a, b with
  | [], [] => true
  | x :: a', y :: b' => String.eqb x y && path_eqb a' b'
  | _, _ => false
  end.

(* a is a prefix of b (possibly equal) *)
Fixpoint path_prefix (a b : path) : bool :=
  match a, b with
  | [], _ => true
  | x :: a', y :: b' => String.eqb x y && path_prefix a' b'
  | _ :: _, [] => false
  end.

(* ------------------------------------------------------------------ Field *)
Record field := mkF {
  f_name : string;           (* Name: ID, or the accessor's method name *)
  f_path : path;             (* Path: Model.ID *)
  f_ty : ty;                 (* typ *)
  f_depth : nat;
  f_backing : string;        (* backingName *)
  f_isget : bool;
  f_isset : bool;
  f_target : option nat;     (* Target: index into the OTHER side's array *)
  f_canassign : bool;
  f_isconv : bool;
  f_canmap : bool;
  f_caneach : bool;
  f_type : option ty;        (* Type: conversion target / sub-mapped named type *)
  f_func : string;           (* Func: mapper method name, "" if none *)
  f_isptr : bool;
  f_zero : bool              (* Zero <> "" (constructor parameters only) *)
}.

Definition new_field (name : string) (p : path) (t : ty) (depth : nat) : field :=
  mkF name p t depth "" false false None false false false false None "" false false.

Definition fdummy : field := new_field "" [] (TBasic BBool) 0.

Definition set_target (x : option nat) (f : field) : field :=
  mkF (f_name f) (f_path f) (f_ty f) (f_depth f) (f_backing f) (f_isget f) (f_isset f)
      x (f_canassign f) (f_isconv f) (f_canmap f) (f_caneach f) (f_type f) (f_func f) (f_isptr f) (f_zero f).
Definition set_canassign (f : field) : field :=
  mkF (f_name f) (f_path f) (f_ty f) (f_depth f) (f_backing f) (f_isget f) (f_isset f)
      (f_target f) true (f_isconv f) (f_canmap f) (f_caneach f) (f_type f) (f_func f) (f_isptr f) (f_zero f).
Definition set_isconv (t : ty) (f : field) : field :=
  mkF (f_name f) (f_path f) (f_ty f) (f_depth f) (f_backing f) (f_isget f) (f_isset f)
      (f_target f) (f_canassign f) true (f_canmap f) (f_caneach f) (Some t) (f_func f) (f_isptr f) (f_zero f).
Definition set_func (fn : string) (f : field) : field :=
  mkF (f_name f) (f_path f) (f_ty f) (f_depth f) (f_backing f) (f_isget f) (f_isset f)
      (f_target f) (f_canassign f) (f_isconv f) (f_canmap f) (f_caneach f) (f_type f) fn (f_isptr f) (f_zero f).
Definition set_submap (each : bool) (t : ty) (f : field) : field :=
  mkF (f_name f) (f_path f) (f_ty f) (f_depth f) (f_backing f) (f_isget f) (f_isset f)
      (f_target f) (f_canassign f) (f_isconv f)
      (if each then f_canmap f else true) (if each then true else f_caneach f)
      (Some t) (f_func f) (f_isptr f) (f_zero f).
Definition set_isptr (b : bool) (f : field) : field :=
  mkF (f_name f) (f_path f) (f_ty f) (f_depth f) (f_backing f) (f_isget f) (f_isset f)
      (f_target f) (f_canassign f) (f_isconv f) (f_canmap f) (f_caneach f) (f_type f) (f_func f) b (f_zero f).
Definition set_zero (f : field) : field :=
  mkF (f_name f) (f_path f) (f_ty f) (f_depth f) (f_backing f) (f_isget f) (f_isset f)
      (f_target f) (f_canassign f) (f_isconv f) (f_canmap f) (f_caneach f) (f_type f) (f_func f) (f_isptr f) true.
Definition set_place (p : path) (t : ty) (d : nat) (f : field) : field :=
  mkF (f_name f) p t d (f_backing f) (f_isget f) (f_isset f)
      (f_target f) (f_canassign f) (f_isconv f) (f_canmap f) (f_caneach f) (f_type f) (f_func f) (f_isptr f) (f_zero f).

(* Field.MatchingName *)
Definition matching_name (f : field) : string :=
  if String.eqb (f_backing f) "" then f_name f else f_backing f.

(* Field.IsEmbeded: the path contains a dot *)
Definition is_embedded (f : field) : bool := Nat.ltb 1 (length (f_path f)).

(* Field.CoveredBy(path): equal, or path+"." is a prefix, or the field's path
   ends with "."+last component of path *)
Definition covered_by (f : field) (p : path) : bool :=
  path_eqb (f_path f) p
  || (path_prefix p (f_path f) && Nat.ltb (length p) (length (f_path f)))
  || (Nat.ltb 1 (length (f_path f)) && String.eqb (last (f_path f) "") (last p "")).

(* ------------------------------------------------------- fields.go (parse) *)
(* typeName(t) *)
Definition type_name (t : ty) : string :=
  match t with
  | TNamed _ n => n
  | TPtr (TNamed _ n) => n
  | _ => ""
  end.

(* appendOrReplace: scan ALL same-named entries; replace (and stop) at the first
   one that is deeper than the newcomer; append only if no entry has the name *)
Fixpoint aor_scan (fs : list field) (nf : field) (found : bool) : list field * bool :=
  match fs with
  | [] => ([], found)
  | f :: r =>
      if String.eqb (f_name f) (f_name nf) then
        if Nat.ltb (f_depth nf) (f_depth f)
        then (set_place (f_path nf) (f_ty nf) (f_depth nf) f :: r, true)
        else let '(r', fd) := aor_scan r nf true in (f :: r', fd)
      else let '(r', fd) := aor_scan r nf found in (f :: r', fd)
  end.
Definition append_or_replace (fs : list field) (nf : field) : list field :=
  let '(fs', found) := aor_scan fs nf false in
  if found then fs' else fs' ++ [nf].

(* ptrTypeMap: pointer-embedded prefix |-> named struct type *)
Definition ptrmap := list (path * ty).
Fixpoint pm_has (m : ptrmap) (p : path) : bool :=
  match m with [] => false | (q, _) :: r => path_eqb p q || pm_has r p end.
Fixpoint pm_get (m : ptrmap) (p : path) : option ty :=
  match m with [] => None | (q, t) :: r => if path_eqb p q then Some t else pm_get r p end.
(* map assignment ptrTypeMap[pre] = …: keep one entry per key *)
Definition pm_set (m : ptrmap) (p : path) (t : ty) : ptrmap :=
  if pm_has m p then map (fun qt => if path_eqb (fst qt) p then (p, t) else qt) m else m ++ [(p, t)].

(* expandIfStruct / extractStructFields (mutually recursive in Go; [fuel]
   bounds the embedding depth: a self-embedding struct makes the Go code
   recurse forever and the model run out of fuel) *)
Fixpoint expand_if_struct (e : env) (fuel : nat) (pre : path) (depth : nat) (t : ty)
         (acc : ptrmap * list field) : ptrmap * list field :=
  match fuel with
  | O => acc
  | S fuel' =>
      let extract (p : pkg) (fs : list sfield) (acc : ptrmap * list field) :=
        fold_left (fun (acc : ptrmap * list field) (f : sfield) =>
                     if sf_emb f
                     then expand_if_struct e fuel' (pre ++ [type_name (sf_ty f)]) (S depth) (sf_ty f) acc
                     else (fst acc, append_or_replace (snd acc)
                                      (new_field (sf_name f) (pre ++ [sf_name f]) (sf_ty f) depth)))
                  fs acc in
      match t with
      | TPtr (TNamed p n) =>
          match lookup_decl e p n with
          | Some (DStruct fs) => extract p fs (pm_set (fst acc) pre (TNamed p n), snd acc)
          | _ => acc
          end
      | TNamed p n =>
          match lookup_decl e p n with
          | Some (DStruct fs) => extract p fs acc
          | _ => acc
          end
      | _ => acc
      end
  end.

Definition tagmap := list (string * string).
Fixpoint tm_get (m : tagmap) (k : string) : option string :=
  match m with [] => None | (a, b) :: r => if String.eqb a k then Some b else tm_get r k end.

Record parsed := { p_fields : list field; p_ptr : ptrmap; p_tags : tagmap }.

(* extractTopFiels over the AST field list of the struct; [with_tags] = a tag
   map is passed (source side only) *)
Definition extract_top (e : env) (fuel : nat) (with_tags : bool) (fs : list sfield) : parsed :=
  let '(pm, fl, tm) :=
    fold_left (fun (acc : ptrmap * list field * tagmap) (f : sfield) =>
                 let '(pm, fl, tm) := acc in
                 if sf_emb f then
                   let '(pm', fl') := expand_if_struct e fuel [type_name (sf_ty f)] 1 (sf_ty f) (pm, fl) in
                   (pm', fl', tm)
                 else if String.eqb (sf_tag f) "-" then acc
                 else
                   let tm' := if negb (String.eqb (sf_tag f) "") && with_tags
                              then (to_pascal_case (sf_name f), to_pascal_case (sf_tag f)) :: tm
                              else tm in
                   (pm, append_or_replace fl (new_field (sf_name f) [sf_name f] (sf_ty f) 0), tm'))
              fs ([], [], []) in
  {| p_fields := fl; p_ptr := pm; p_tags := tm |}.

(* parseFields: None = type not found / not a struct *)
Definition parse_fields (e : env) (fuel : nat) (p : pkg) (n : string) (with_tags : bool) : option parsed :=
  match lookup_decl e p n with
  | Some (DStruct fs) => Some (extract_top e fuel with_tags fs)
  | _ => None
  end.

Definition exported_of (fs : list field) : list field := filter (fun f => is_exported (f_name f)) fs.
Definition unexported_of (fs : list field) : list field := filter (fun f => negb (is_exported (f_name f))) fs.

(* ------------------------------------------------- the mapping job (spec) *)
Record mfunc := { mf_name : string; mf_param : ty; mf_result : ty }.

(* an accessor of a shoot-new type as listed by ParseGetSetIface (getters, then
   setters, each sorted by name as go/types orders interface methods); [ac_path]
   is the field the generated accessor reads/writes (used by the evaluator) *)
Record accessor := { ac_name : string; ac_ty : ty; ac_set : bool; ac_path : path }.

(* a parameter of NewT as recovered by parseCtors/extractParamToFieldMap: the
   struct field it initialises (name and literal path) and its type *)
Record cparam := { cp_field : string; cp_path : path; cp_ty : ty }.

Record job := {
  j_env : env;
  j_fuel : nat;                         (* bound on struct nesting, >= number of declarations *)
  j_src : string;                       (* source type name (package PSrc) *)
  j_dst : string;                       (* destination type name (package PDst) *)
  j_funcs : list mfunc;                 (* mappingFuncList, in declaration order *)
  j_ic : bool;                          (* -i *)
  j_src_acc : list accessor;            (* getsetMethods (empty unless the source is a shoot-new type) *)
  j_dst_acc : list accessor;            (* destGetSetMethods *)
  j_src_ctor : list cparam;             (* srcCtorParams *)
  j_dst_ctor : list cparam;             (* destCtorParams *)
  j_src_shootnew : bool;                (* the source type implements NewShooter *)
  j_manual_to : option (list string);   (* manual toX: paths it assigns on its parameter *)
  j_manual_from : option (list string); (* manual fromX: paths it assigns on its receiver *)
  j_mapper_hop : option path            (* Some p: the mapper type is embedded BY POINTER at path p of the source
                                           type and its methods have value receivers, so that `t.F(x)` dereferences
                                           t.p (mismatch.go loadTypeMapperPkg accepts `*Mapper`); None otherwise *)
}.

(* ---------------------------------------------------- methods.go compatlize *)
Definition trim_left_once (s cut : string) : string := trim_prefix cut s.

Definition pseudo_field (a : accessor) : field :=
  if ac_set a then
    mkF (ac_name a) [ac_name a] (ac_ty a) 0 (trim_left_once (ac_name a) "Set") false true
        None false false false false None "" false false
  else
    mkF (ac_name a) [ac_name a] (ac_ty a) 0 (ac_name a) true false
        None false false false false None "" false false.

Definition compatlize (fs : list field) (ms : list accessor) : list field := fs ++ map pseudo_field ms.

(* ctor.go parseCtors: one Field per parameter *)
Definition ctor_field (c : cparam) : field :=
  let name := if is_exported (cp_field c) then cp_field c else ("Set" ++ to_pascal_case (cp_field c))%string in
  mkF name (cp_path c) (cp_ty c) 0 (cp_field c) false false None false false false false None "" false false.

(* ------------------------------------------------------------ match.go *)
Definition can_name_match (f1 f2 : field) (tm : tagmap) (ic : bool) : bool :=
  if f_isget f1 && f_isget f2 then false
  else if f_isset f1 && f_isset f2 then false
  else
    let m1 := matching_name f1 in
    let m2 := matching_name f2 in
    let m1 := match tm_get tm m1 with Some t => t | None => m1 end in
    if ic then equal_fold m1 m2 else smart_match m1 m2.

(* ------------------------------------------------------------- the state *)
Definition sset := list string.
Definition s_has (s : sset) (x : string) : bool := existsb (String.eqb x) s.
Definition s_add (s : sset) (x : string) : sset := x :: s.
Definition smap := list (string * string).
Definition m_set (m : smap) (k v : string) : smap := (k, v) :: m.
Definition m_get (m : smap) (k : string) : option string := tm_get m k.
(* the entries a Go map holds: the latest assignment per key (m_set conses, so the FIRST
   entry of a key is the live one; the others are dead) *)
Fixpoint m_live (m : smap) : smap :=
  match m with
  | [] => []
  | (k, v) :: r => (k, v) :: filter (fun kv => negb (String.eqb (fst kv) k)) (m_live r)
  end.

Record st := mkSt {
  s_src : list field;      (* exportedFields (after compatlize) *)
  s_dst : list field;      (* destExportedFields *)
  s_wsrc : sset;           (* writeSrcSet *)
  s_wdst : sset;           (* writeDestSet *)
  s_rmap : smap;           (* readSrcMap : source name -> destination name *)
  s_wmap : smap            (* writeSrcMap: source name -> destination name *)
}.

Fixpoint upd {A} (l : list A) (i : nat) (g : A -> A) : list A :=
  match l, i with
  | [], _ => []
  | x :: r, O => g x :: r
  | x :: r, S i' => x :: upd r i' g
  end.

Definition src_at (s : st) (i : nat) : field := nth i (s_src s) fdummy.
Definition dst_at (s : st) (j : nat) : field := nth j (s_dst s) fdummy.
Definition on_src (i : nat) (g : field -> field) (s : st) : st :=
  mkSt (upd (s_src s) i g) (s_dst s) (s_wsrc s) (s_wdst s) (s_rmap s) (s_wmap s).
Definition on_dst (j : nat) (g : field -> field) (s : st) : st :=
  mkSt (s_src s) (upd (s_dst s) j g) (s_wsrc s) (s_wdst s) (s_rmap s) (s_wmap s).
(* writeDestSet.Adds(f2.Name); readSrcMap[f1.Name] = f2.Name *)
Definition claim_dst (n1 n2 : string) (s : st) : st :=
  mkSt (s_src s) (s_dst s) (s_wsrc s) (s_add (s_wdst s) n2) (m_set (s_rmap s) n1 n2) (s_wmap s).
(* writeSrcSet.Adds(f1.Name); writeSrcMap[f1.Name] = f2.Name *)
Definition claim_src (n1 n2 : string) (s : st) : st :=
  mkSt (s_src s) (s_dst s) (s_add (s_wsrc s) n1) (s_wdst s) (s_rmap s) (m_set (s_wmap s) n1 n2).

Definition dst_free (s : st) (j : nat) : bool :=
  negb (s_has (s_wdst s) (f_name (dst_at s j))) && negb (f_isget (dst_at s j)).
Definition src_free (s : st) (i : nat) : bool :=
  negb (s_has (s_wsrc s) (f_name (src_at s i))) && negb (f_isget (src_at s i)).

(* The two kinds of state change the passes make.  Every assignment of a
   strategy flag in makeFuncMap/makeSubMap/makeTypeMatch happens together with
   the Target assignment, the Adds and the map entry:
     to_claim   : f1.Target = f2; <g on f2>; <h on f1>; writeDestSet.Adds(f2.Name); readSrcMap[f1.Name] = f2.Name
     from_claim : f2.Target = f1; <g on f1>; <h on f2>; writeSrcSet.Adds(f1.Name); writeSrcMap[f1.Name] = f2.Name
   (g sets the strategy flag of the written field, h is the IsPtr write on the
   field being read, identity outside makeSubMap) *)
Definition to_claim (i j : nat) (g h : field -> field) (s : st) : st :=
  claim_dst (f_name (src_at s i)) (f_name (dst_at s j))
            (on_dst j g (on_src i (fun f => h (set_target (Some j) f)) s)).
Definition from_claim (i j : nat) (g h : field -> field) (s : st) : st :=
  claim_src (f_name (src_at s i)) (f_name (dst_at s j))
            (on_src i g (on_dst j (fun f => h (set_target (Some i) f)) s)).

(* -------------------------------------------- mismatch.go makeFuncMap *)
Fixpoint func_loop (fns : list mfunc) (i j : nat) (s : st) : st :=
  match fns with
  | [] => s
  | fn :: rest =>
      let t1 := f_ty (src_at s i) in
      let t2 := f_ty (dst_at s j) in
      let s1 :=
        if dst_free s j && (type_equals (mf_param fn) t1 && type_equals (mf_result fn) t2)
        then to_claim i j (set_func (mf_name fn)) (fun f => f) s
        else s in
      let s2 :=
        if src_free s1 i && (type_equals (mf_param fn) t2 && type_equals (mf_result fn) t1)
        then from_claim i j (set_func (mf_name fn)) (fun f => f) s1
        else s1 in
      match f_target (src_at s2 i), f_target (dst_at s2 j) with
      | Some _, Some _ => s2          (* break *)
      | _, _ => func_loop rest i j s2
      end
  end.

(* -------------------------------------------- mismatch.go makeSubMap *)
Definition strip_ptr (t : ty) : bool * ty :=
  match t with TPtr x => (true, x) | _ => (false, t) end.

Definition sub_map (i j : nat) (typ1 typ2 : ty) (is_slice : bool) (s : st) : st :=
  let '(isptr1, t1) := strip_ptr typ1 in
  let '(isptr2, t2) := strip_ptr typ2 in
  match t1, t2 with
  | TNamed PSrc n1, TNamed PDst n2 =>
      let s1 :=
        if dst_free s j
        then to_claim i j (fun f => set_isptr isptr2 (set_submap is_slice t2 f)) (set_isptr isptr1) s
        else s in
      if src_free s1 i
      then from_claim i j (fun f => set_isptr isptr1 (set_submap is_slice t1 f)) (set_isptr isptr2) s1
      else s1
  | _, _ => s
  end.

(* makeSubListMap *)
Definition sub_list_map (i j : nat) (s : st) : st :=
  match f_ty (src_at s i), f_ty (dst_at s j) with
  | TSlice e1, TSlice e2 => sub_map i j e1 e2 true s
  | _, _ => s
  end.

(* one (f1, f2) iteration of makeTypeMismatch *)
Definition step_mismatch (tm : tagmap) (ic : bool) (fns : list mfunc) (i j : nat) (s : st) : st :=
  if negb (can_name_match (src_at s i) (dst_at s j) tm ic) then s
  else
    let s := func_loop fns i j s in
    let s := sub_map i j (f_ty (src_at s i)) (f_ty (dst_at s j)) false s in
    sub_list_map i j s.

(* one (f1, f2) iteration of makeTypeMatch *)
Definition step_match (e : env) (tm : tagmap) (ic : bool) (i j : nat) (s : st) : st :=
  if negb (can_name_match (src_at s i) (dst_at s j) tm ic) then s
  else
    let t1 := f_ty (src_at s i) in
    let t2 := f_ty (dst_at s j) in
    let '(same, conv) := match_type e t1 t2 in
    let '(_, convback) := match_type e t2 t1 in
    let s1 :=
      if dst_free s j && (same || conv)
      then to_claim i j (if same then set_canassign else set_isconv t2) (fun f => f) s
      else s in
    if src_free s1 i && (same || convback)
    then from_claim i j (if same then set_canassign else set_isconv t1) (fun f => f) s1
    else s1.

(* for _, f1 := range exportedFields { for _, f2 := range destExportedFields { … } } *)
Definition double_loop (step : nat -> nat -> st -> st) (s : st) : st :=
  fold_left (fun s i => fold_left (fun s j => step i j s) (seq 0 (length (s_dst s))) s)
            (seq 0 (length (s_src s))) s.

(* ---------------------------------------------------- ctor.go makeCtorMatch *)
(* readers: the fields of the side being READ; params: the constructor
   parameters of the side being WRITTEN; ws: that side's write set *)
Fixpoint ctor_func_loop (fns : list mfunc) (fi : nat) (ft pt : ty) (pname : string) (k : nat)
         (acc : list field * sset) : list field * sset :=
  match fns with
  | [] => acc
  | fn :: rest =>
      let acc' :=
        if type_equals (mf_param fn) ft && type_equals (mf_result fn) pt
        then (upd (fst acc) k (fun p => set_func (mf_name fn) (set_target (Some fi) p)), s_add (snd acc) pname)
        else acc in
      ctor_func_loop rest fi ft pt pname k acc'
  end.

Definition ctor_step (e : env) (tm : tagmap) (ic : bool) (fns : list mfunc) (readers : list field)
           (fi k : nat) (acc : list field * sset) : list field * sset :=
  let f := nth fi readers fdummy in
  let p := nth k (fst acc) fdummy in
  if f_isset f then acc
  else if negb (can_name_match f p tm ic) then acc
  else if s_has (snd acc) (f_name p) then acc
  else
    let '(same, conv) := match_type e (f_ty f) (f_ty p) in
    let ps := if same then upd (fst acc) k set_canassign
              else if conv then upd (fst acc) k (set_isconv (f_ty p))
              else fst acc in
    if same || conv
    then (upd ps k (set_target (Some fi)), s_add (snd acc) (f_name p))
    else ctor_func_loop fns fi (f_ty f) (f_ty p) (f_name p) k (ps, snd acc).

(* returns (parameters with flags / Zero, write set, hasNonZero) *)
Definition make_ctor_match (e : env) (tm : tagmap) (ic : bool) (fns : list mfunc)
           (readers params : list field) (ws : sset) : list field * sset * bool :=
  match params with
  | [] => (params, ws, false)
  | _ =>
      let '(ps, ws') :=
        fold_left (fun acc fi => fold_left (fun acc k => ctor_step e tm ic fns readers fi k acc)
                                           (seq 0 (length params)) acc)
                  (seq 0 (length readers)) (params, ws) in
      let has_non_zero := existsb (fun p => match f_target p with Some _ => true | None => false end) ps in
      let ps' := map (fun p => match f_target p with Some _ => p | None => set_zero p end) ps in
      (ps', ws', has_non_zero)
  end.

(* ------------------------------------------------------- manual.go effect *)
(* names added to writeSrcSet by a manual fromX: r.x = … on a shoot-new source
   becomes SetX *)
Definition manual_src_name (shootnew : bool) (n : string) : string :=
  if shootnew && negb (is_exported n) then ("Set" ++ to_pascal_case n)%string else n.

(* --------------------------------------------------------------- check.go *)
(* prepareReadPaths: for an embedded field, the proper prefixes of its path
   that are pointer hops, in increasing length *)
Fixpoint prefixes_from (done : path) (rest : path) : list path :=
  match rest with
  | [] => []
  | [_] => []
  | x :: r => (done ++ [x]) :: prefixes_from (done ++ [x]) r
  end.
Definition read_paths (pm : ptrmap) (f : field) : list path :=
  if is_embedded f then filter (pm_has pm) (prefixes_from [] (f_path f)) else [].

(* pathsMap[name]: last embedded field of that name wins (map assignment); only
   non-empty path lists are stored *)
Definition paths_map (pm : ptrmap) (fs : list field) : list (string * list path) :=
  fold_left (fun m f => match read_paths pm f with [] => m | ps => (f_name f, ps) :: m end) fs [].
Fixpoint pmap_get (m : list (string * list path)) (k : string) : option (list path) :=
  match m with [] => None | (a, b) :: r => if String.eqb a k then Some b else pmap_get r k end.

(* lexicographic order on strings / paths (sort.Strings on the dotted form) *)
Fixpoint str_ltb (a b : string) : bool :=
  match a, b with
  | EmptyString, EmptyString => false
  | EmptyString, String _ _ => true
  | String _ _, EmptyString => false
  | String x a', String y b' =>
      if Nat.ltb (code x) (code y) then true
      else if Nat.ltb (code y) (code x) then false
      else str_ltb a' b'
  end.
Fixpoint path_ltb (a b : path) : bool :=
  match a, b with
  | [], [] => false
  | [], _ :: _ => true
  | _ :: _, [] => false
  | x :: a', y :: b' =>
      if str_ltb x y then true else if str_ltb y x then false else path_ltb a' b'
  end.
Fixpoint insert_path (p : path) (l : list path) : list path :=
  match l with
  | [] => [p]
  | q :: r => if path_ltb q p then q :: insert_path p r else p :: l
  end.
Definition sort_paths (l : list path) : list path := fold_right insert_path [] l.

(* nilCheckWrite for one side: [written f] tells whether field f is assigned in
   the direction considered; the pointer map is iterated through the oracle.
   The data.PtrTypeMap test makes every path appear once. *)
Definition oracle := list (path * ty) -> list (path * ty).

Definition ptr_path_list (sigma : oracle) (pm : ptrmap) (fs : list field) (written : field -> bool) : list path :=
  let step (acc : list path) (f : field) :=
    if written f && is_embedded f then
      fold_left (fun acc pt => if existsb (path_eqb (fst pt)) acc then acc
                               else if covered_by f (fst pt) then acc ++ [fst pt] else acc)
                (sigma pm) acc
    else acc in
  sort_paths (fold_left step fs []).

(* -------------------------------------------------------- the assignment plan *)
Inductive strategy :=
| SAssign
| SConv (from to : ty)
| SFunc (f : string)
| SMap (sp dp : bool) (sn dn : string)      (* sub-struct ToX/FromX; sp/dp: source/dest side holds a pointer *)
| SEach (sp dp : bool) (sn dn : string).    (* element-wise over slices *)

(* a field as the generated code touches it: by selector (resolved to [r_path])
   or through its getter/setter *)
Record fref := { r_name : string; r_path : path; r_acc : bool }.

Record stmt := {
  st_dst : fref;
  st_src : fref;
  st_how : strategy;
  st_guard : list path        (* read-side nil conditions, conjunction, in this order *)
}.

Inductive carg :=
| CZero (t : ty)
| CVal (src : fref) (how : strategy).

Record plan := {
  pl_ctor : option (list (path * carg));  (* constructor call: (field path the parameter initialises, argument) *)
  pl_alloc : list (path * ty);            (* embedded pointers allocated up front, in this order *)
  pl_stmts : list stmt;
  pl_manual : bool;                       (* a manual toX/fromX runs last *)
  pl_reset : bool                         (* FromX: `*s = S{}` on a non-nil receiver before anything is written
                                             (unconditional text of mapper.tmpl; meaningless for ToX) *)
}.

(* the element type of a slice type, the type itself otherwise *)
Definition unslice (t : ty) : ty := match t with TSlice x => x | _ => t end.

Definition named_name (t : option ty) : string :=
  match t with Some (TNamed _ n) => n | _ => "" end.

(* the strategies the template emits for a written field [w] read from [r]
   (To: w = destination field, r = source field; From: the reverse); the
   template's {{if}}s are not exclusive, so this is a list *)
Definition strategies (to_dir : bool) (w r : field) : list strategy :=
  (if f_canassign w then [SAssign] else [])
  ++ (if f_isconv w then [SConv (f_ty r) (match f_type w with Some t => t | None => f_ty w end)] else [])
  ++ (if negb (String.eqb (f_func w) "") then [SFunc (f_func w)] else [])
  ++ (let sp := if to_dir then f_isptr r else f_isptr w in
      let dp := if to_dir then f_isptr w else f_isptr r in
      let sn := if to_dir then type_name (snd (strip_ptr (unslice (f_ty r)))) else named_name (f_type w) in
      let dn := if to_dir then named_name (f_type w) else type_name (snd (strip_ptr (unslice (f_ty r)))) in
      (if f_canmap w then [SMap sp dp sn dn] else [])
      ++ (if f_caneach w then [SEach sp dp sn dn] else [])).

Definition ref_of (f : field) : fref :=
  {| r_name := f_name f; r_path := f_path f; r_acc := f_isget f || f_isset f |}.

Record analysis := {
  a_state : st;                         (* after makeTypeMatch *)
  a_src_ctor : list field;              (* srcCtorParams with flags *)
  a_dst_ctor : list field;
  a_use_src_ctor : bool;                (* data.SrcCtorParams set (hasNonZero) *)
  a_use_dst_ctor : bool;
  a_src_parsed : parsed;
  a_dst_parsed : parsed;
  a_to : plan;
  a_from : plan
}.

Definition guard_of (need : bool) (pmap : list (string * list path)) (name : string) : list path :=
  if need then match pmap_get pmap name with Some ps => sort_paths ps | None => [] end else [].

Definition ctor_args (to_dir : bool) (params : list field) (readers : list field) : list (path * carg) :=
  flat_map (fun p =>
    let from_target :=
      match f_target p with
      | Some fi => let r := nth fi readers fdummy in
                   map (fun h => (f_path p, CVal (ref_of r) h))
                       ((if f_canassign p then [SAssign] else [])
                        ++ (if f_isconv p then [SConv (f_ty r) (match f_type p with Some t => t | None => f_ty p end)] else [])
                        ++ (if negb (String.eqb (f_func p) "") then [SFunc (f_func p)] else []))
      | None => []
      end in
    if to_dir then
      (* ToX: {{if $df.Zero}} zero {{else if $sf}} the LAST applicable of assign/conv/func *)
      if f_zero p then [(f_path p, CZero (f_ty p))]
      else match rev from_target with x :: _ => [x] | [] => [] end
    else
      (* FromX: zero if Zero, and additionally one argument per flag *)
      (if f_zero p then [(f_path p, CZero (f_ty p))] else []) ++ from_target) params.

(* everything up to (and including) makeCtorMatch *)
Record prep := {
  pr_src : parsed;
  pr_dst : parsed;
  pr_s0 : st;                 (* fields after makeCompatible, write sets after parseManual and makeCtorMatch *)
  pr_dctor : list field;
  pr_sctor : list field;
  pr_use_d : bool;
  pr_use_s : bool
}.

Definition prepare (jb : job) : option prep :=
  let e := j_env jb in
  match parse_fields e (j_fuel jb) PSrc (j_src jb) true, parse_fields e (j_fuel jb) PDst (j_dst jb) false with
  | Some ps, Some pd =>
      let tm := p_tags ps in
      let ic := j_ic jb in
      let fns := j_funcs jb in
      (* parseManual: fresh write sets, pre-marked by the manual methods *)
      let wdst0 := match j_manual_to jb with Some ns => rev ns | None => [] end in
      let wsrc0 := match j_manual_from jb with
                   | Some ns => rev (map (manual_src_name (j_src_shootnew jb)) ns)
                   | None => [] end in
      (* makeCompatible *)
      let srcf := compatlize (exported_of (p_fields ps)) (j_src_acc jb) in
      let dstf := compatlize (exported_of (p_fields pd)) (j_dst_acc jb) in
      (* makeCtorMatch: destination constructor fed from source fields, then the reverse *)
      let '(dctor, wdst1, use_d) :=
        make_ctor_match e tm ic fns srcf (map ctor_field (j_dst_ctor jb)) wdst0 in
      let '(sctor, wsrc1, use_s) :=
        make_ctor_match e [] ic fns dstf (map ctor_field (j_src_ctor jb)) wsrc0 in
      Some {| pr_src := ps; pr_dst := pd; pr_s0 := mkSt srcf dstf wsrc1 wdst1 [] [];
              pr_dctor := dctor; pr_sctor := sctor; pr_use_d := use_d; pr_use_s := use_s |}
  | _, _ => None
  end.

(* makeTypeMismatch, then makeTypeMatch *)
Definition run_passes (e : env) (tm : tagmap) (ic : bool) (fns : list mfunc) (s0 : st) : st :=
  double_loop (step_match e tm ic) (double_loop (step_mismatch tm ic fns) s0).

(* the statement list of ToX: one block per source field with a Target *)
Definition to_stmts (spaths : list (string * list path)) (src_need : string -> bool) (s2 : st) : list stmt :=
  flat_map (fun sf =>
    match f_target sf with
    | Some j =>
        let df := dst_at s2 j in
        map (fun h => {| st_dst := ref_of df; st_src := ref_of sf; st_how := h;
                         st_guard := guard_of (src_need (f_name sf)) spaths (f_name sf) |})
            (strategies true df sf)
    | None => []
    end) (s_src s2).

(* the statement list of FromX: one block per destination field with a Target *)
Definition from_stmts (dpaths : list (string * list path)) (dst_need : string -> bool) (s2 : st) : list stmt :=
  flat_map (fun df =>
    match f_target df with
    | Some i =>
        let sf := src_at s2 i in
        map (fun h => {| st_dst := ref_of sf; st_src := ref_of df; st_how := h;
                         st_guard := guard_of (dst_need (f_name sf)) dpaths (f_name df) |})
            (strategies false sf df)
    | None => []
    end) (s_dst s2).

Definition analyse (sigma : oracle) (jb : job) : option analysis :=
  match prepare jb with
  | None => None
  | Some pr =>
      let e := j_env jb in
      let ps := pr_src pr in
      let pd := pr_dst pr in
      let s2 := run_passes e (p_tags ps) (j_ic jb) (j_funcs jb) (pr_s0 pr) in
      (* makeReadWriteCheck *)
      let spaths := paths_map (p_ptr ps) (s_src s2) in
      let dpaths := paths_map (p_ptr pd) (s_dst s2) in
      let src_need (name : string) :=
        match m_get (s_rmap s2) name with
        | Some _ => match pmap_get spaths name with Some _ => true | None => false end
        | None => false end in
      let dst_need (sname : string) :=
        match m_get (s_wmap s2) sname with
        | Some d => match pmap_get dpaths d with Some _ => true | None => false end
        | None => false end in
      let src_alloc := ptr_path_list sigma (p_ptr ps) (s_src s2)
                         (fun f => match m_get (s_wmap s2) (f_name f) with Some _ => true | None => false end) in
      (* `for _, d := range g.writeDestMap()`: the VALUES the map readSrcMap holds, i.e. its live entries (a
         source field that claimed two destination fields -- fan-out -- only keeps the later one) *)
      let dst_alloc := ptr_path_list sigma (p_ptr pd) (s_dst s2)
                         (fun f => existsb (fun kv => String.eqb (f_name f) (snd kv)) (m_live (s_rmap s2))) in
      let with_ty (pm : ptrmap) (l : list path) :=
        map (fun p => (p, match pm_get pm p with Some t => t | None => TBasic BBool end)) l in
      let use_d := pr_use_d pr in
      let use_s := pr_use_s pr in
      let pto := {| pl_ctor := if use_d then Some (ctor_args true (pr_dctor pr) (s_src s2)) else None;
                    pl_alloc := if use_d then [] else with_ty (p_ptr pd) dst_alloc;
                    pl_stmts := to_stmts spaths src_need s2;
                    pl_manual := match j_manual_to jb with Some _ => true | None => false end;
                    pl_reset := true |} in
      let pfrom := {| pl_ctor := if use_s then Some (ctor_args false (pr_sctor pr) (s_dst s2)) else None;
                      pl_alloc := if use_s then [] else with_ty (p_ptr ps) src_alloc;
                      pl_stmts := from_stmts dpaths dst_need s2;
                      pl_manual := match j_manual_from jb with Some _ => true | None => false end;
                      pl_reset := true |} in
      Some {| a_state := s2; a_src_ctor := pr_sctor pr; a_dst_ctor := pr_dctor pr;
              a_use_src_ctor := use_s; a_use_dst_ctor := use_d;
              a_src_parsed := ps; a_dst_parsed := pd; a_to := pto; a_from := pfrom |}
  end.

(* -way: which methods are generated *)
Inductive way := WBoth | WToOnly | WFromOnly.
Definition has_to (w : way) : bool := match w with WFromOnly => false | _ => true end.
Definition has_from (w : way) : bool := match w with WToOnly => false | _ => true end.
