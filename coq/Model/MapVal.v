(* Types, declarations and Go-like values for the mapper model (C05/C09/C15).
   Self-contained (does not depend on Base/GoVal.v).  No proofs here.

   * [ty] is the type palette of the src/dest pair grammar.
   * [env] holds the named-type declarations of the packages involved.
   * The go/types predicates shoot calls (Identical via shoot.TypeEquals,
     ConvertibleTo, Underlying) are MODELLED on this palette ("modelled, not
     verified": differentially tested against the real go/types through the L1
     probe and, end to end, by compiling and executing every generated mapper).
   * [val] are Go values; dereferencing nil is an explicit [Panic] outcome of
     the evaluators in MapperEval.v. *)
From Coq Require Import String Ascii List Bool Arith ZArith.
From Shoot Require Import Base.Str.
Import ListNotations.
Local Open Scope string_scope.

(* ------------------------------------------------------------------ types *)
Inductive basic :=
| BInt | BInt8 | BInt16 | BInt32 | BInt64
| BUint | BUint8 | BUint16 | BUint32 | BUint64
| BFloat32 | BFloat64 | BString | BBool.

Inductive pkg := PSrc | PDst | POth (n : string).

Inductive ty :=
| TBasic (b : basic)
| TNamed (p : pkg) (n : string)
| TPtr (t : ty)
| TSlice (t : ty)
| TMap (k v : ty).

Definition basic_code (b : basic) : nat :=
  match b with
  | BInt => 0 | BInt8 => 1 | BInt16 => 2 | BInt32 => 3 | BInt64 => 4
  | BUint => 5 | BUint8 => 6 | BUint16 => 7 | BUint32 => 8 | BUint64 => 9
  | BFloat32 => 10 | BFloat64 => 11 | BString => 12 | BBool => 13
  end.
Definition basic_eqb (a b : basic) : bool := Nat.eqb (basic_code a) (basic_code b).

Definition pkg_eqb (a b : pkg) : bool :=
  match a, b with
  | PSrc, PSrc => true
  | PDst, PDst => true
  | POth x, POth y => String.eqb x y
  | _, _ => false
  end.

Fixpoint ty_eqb (a b : ty) : bool :=
  match a, b with
  | TBasic x, TBasic y => basic_eqb x y
  | TNamed p n, TNamed q m => pkg_eqb p q && String.eqb n m
  | TPtr x, TPtr y => ty_eqb x y
  | TSlice x, TSlice y => ty_eqb x y
  | TMap k v, TMap k' v' => ty_eqb k k' && ty_eqb v v'
  | _, _ => false
  end.

(* a struct field declaration; [sf_emb] = embedded (then [sf_name] is the type
   name, as Go names embedded fields); [sf_tag] is the value of the map:"…" key
   of the field tag ("" if absent) *)
Record sfield := { sf_name : string; sf_emb : bool; sf_ty : ty; sf_tag : string }.

Inductive tdecl :=
| DBasic (b : basic)               (* type N <basic> *)
| DStruct (fs : list sfield).      (* type N struct { … } *)

Definition env := list ((pkg * string) * tdecl).

Fixpoint lookup_decl (e : env) (p : pkg) (n : string) : option tdecl :=
  match e with
  | [] => None
  | ((q, m), d) :: r => if pkg_eqb p q && String.eqb n m then Some d else lookup_decl r p n
  end.

(* --------------------------------------------- go/types predicates (model) *)
Inductive under :=
| UBasic (b : basic)
| UStruct (p : pkg) (fs : list sfield)    (* p: declaring package (for unexported field identity) *)
| UPtr (t : ty) | USlice (t : ty) | UMap (k v : ty)
| UNone.

Definition underlying (e : env) (t : ty) : under :=
  match t with
  | TBasic b => UBasic b
  | TNamed p n =>
      match lookup_decl e p n with
      | Some (DBasic b) => UBasic b
      | Some (DStruct fs) => UStruct p fs
      | None => UNone
      end
  | TPtr t => UPtr t
  | TSlice t => USlice t
  | TMap k v => UMap k v
  end.

Definition is_int_kind (b : basic) : bool :=
  match b with
  | BInt | BInt8 | BInt16 | BInt32 | BInt64 | BUint | BUint8 | BUint16 | BUint32 | BUint64 => true
  | _ => false
  end.
Definition is_float_kind (b : basic) : bool :=
  match b with BFloat32 | BFloat64 => true | _ => false end.
Definition is_numeric_kind (b : basic) : bool := is_int_kind b || is_float_kind b.
(* match.go isFixedWidthInt: Int8..Int64, Uint8..Uint64 (not int, not uint) *)
Definition is_fixed_width_kind (b : basic) : bool :=
  match b with
  | BInt8 | BInt16 | BInt32 | BInt64 | BUint8 | BUint16 | BUint32 | BUint64 => true
  | _ => false
  end.

(* identical struct types ignoring tags: same field sequence (name, embedded,
   identical type); an unexported field name is identical only inside one package *)
Fixpoint sfields_identical (same_pkg : bool) (a b : list sfield) : bool :=
  match a, b with
  | [], [] => true
  | x :: a', y :: b' =>
      String.eqb (sf_name x) (sf_name y) && Bool.eqb (sf_emb x) (sf_emb y)
      && ty_eqb (sf_ty x) (sf_ty y)
      && (is_exported (sf_name x) || same_pkg)
      && sfields_identical same_pkg a' b'
  | _, _ => false
  end.

Definition under_identical (a b : under) : bool :=
  match a, b with
  | UBasic x, UBasic y => basic_eqb x y
  | UStruct p fs, UStruct q gs => sfields_identical (pkg_eqb p q) fs gs
  | UPtr x, UPtr y => ty_eqb x y
  | USlice x, USlice y => ty_eqb x y
  | UMap k v, UMap k' v' => ty_eqb k k' && ty_eqb v v'
  | _, _ => false
  end.

Definition is_byte_or_rune (u : under) : bool :=
  match u with UBasic b => basic_eqb b BUint8 || basic_eqb b BInt32 | _ => false end.

(* types.ConvertibleTo(V, T) for non-constant values on this palette *)
Definition convertible (e : env) (v t : ty) : bool :=
  let uv := underlying e v in
  let ut := underlying e t in
  ty_eqb v t
  || under_identical uv ut
  || match v, t with
     | TPtr a, TPtr b => under_identical (underlying e a) (underlying e b)
     | _, _ => false
     end
  || match uv, ut with
     | UBasic x, UBasic y =>
         (is_numeric_kind x && is_numeric_kind y)
         || (is_int_kind x && basic_eqb y BString)
     (* string <-> []byte / []rune (element type with underlying uint8 / int32) *)
     | UBasic x, USlice el => basic_eqb x BString && is_byte_or_rune (underlying e el)
     | USlice el, UBasic y => basic_eqb y BString && is_byte_or_rune (underlying e el)
     | _, _ => false
     end.

(* shoot.TypeEquals: equality of the package-path-qualified type strings.  On
   this palette (no universe-scoped named types, no aliases) = structural
   equality *)
Definition type_equals (a b : ty) : bool := ty_eqb a b.

Definition is_string_ty (e : env) (t : ty) : bool :=
  match underlying e t with UBasic b => basic_eqb b BString | _ => false end.
Definition is_fixed_width_int_ty (e : env) (t : ty) : bool :=
  match underlying e t with UBasic b => is_fixed_width_kind b | _ => false end.

(* match.go mayMisConv *)
Definition may_mis_conv (e : env) (a b : ty) : bool :=
  (is_string_ty e a && is_fixed_width_int_ty e b)
  || (is_string_ty e b && is_fixed_width_int_ty e a).

(* match.go matchType: (same, conv) *)
Definition match_type (e : env) (t1 t2 : ty) : bool * bool :=
  let same := type_equals t1 t2 in
  let conv := convertible e t1 t2 in
  let conv := if negb same && conv then (if may_mis_conv e t1 t2 then false else conv) else conv in
  (same, conv).

(* ----------------------------------------------------------------- values *)
Inductive val :=
| VInt (z : Z)                       (* every integer and float kind (floats: integral values only) *)
| VStr (s : string)
| VBool (b : bool)
| VNil                               (* nil pointer / slice / map *)
| VPtr (v : val)                     (* non-nil pointer *)
| VStruct (fs : list (string * val)) (* fields in declaration order, embedded ones under their type name *)
| VList (vs : list val)              (* non-nil slice *)
| VMap (kvs : list (val * val)).     (* non-nil map, entries sorted by the harness *)

Fixpoint val_eqb (a b : val) {struct a} : bool :=
  match a, b with
  | VInt x, VInt y => Z.eqb x y
  | VStr x, VStr y => String.eqb x y
  | VBool x, VBool y => Bool.eqb x y
  | VNil, VNil => true
  | VPtr x, VPtr y => val_eqb x y
  | VStruct fs, VStruct gs =>
      (fix go (fs : list (string * val)) (gs : list (string * val)) : bool :=
         match fs, gs with
         | [], [] => true
         | (n, x) :: fs', (m, y) :: gs' => String.eqb n m && val_eqb x y && go fs' gs'
         | _, _ => false
         end) fs gs
  | VList xs, VList ys =>
      (fix go (xs ys : list val) : bool :=
         match xs, ys with
         | [], [] => true
         | x :: xs', y :: ys' => val_eqb x y && go xs' ys'
         | _, _ => false
         end) xs ys
  | VMap xs, VMap ys =>
      (fix go (xs ys : list (val * val)) : bool :=
         match xs, ys with
         | [], [] => true
         | (k, x) :: xs', (k', y) :: ys' => val_eqb k k' && val_eqb x y && go xs' ys'
         | _, _ => false
         end) xs ys
  | _, _ => false
  end.

(* the zero value of a type; [fuel] bounds the nesting of struct declarations
   (struct values cannot be recursive in Go, so the nesting is finite) *)
Fixpoint zero_val (e : env) (fuel : nat) (t : ty) : val :=
  match t with
  | TBasic b => match b with BString => VStr "" | BBool => VBool false | _ => VInt 0 end
  | TPtr _ | TSlice _ | TMap _ _ => VNil
  | TNamed p n =>
      match fuel with
      | O => VNil
      | S fuel' =>
          match lookup_decl e p n with
          | Some (DBasic b) => match b with BString => VStr "" | BBool => VBool false | _ => VInt 0 end
          | Some (DStruct fs) => VStruct (map (fun f => (sf_name f, zero_val e fuel' (sf_ty f))) fs)
          | None => VNil
          end
      end
  end.

(* ------------------------------------------------ conversions T(x) (model) *)
Local Open Scope Z_scope.
Definition wrap_signed (w : Z) (z : Z) : Z := (z + 2 ^ (w - 1)) mod 2 ^ w - 2 ^ (w - 1).
Definition wrap_unsigned (w : Z) (z : Z) : Z := z mod 2 ^ w.
Definition wrap_basic (b : basic) (z : Z) : Z :=
  match b with
  | BInt | BInt64 => wrap_signed 64 z
  | BInt8 => wrap_signed 8 z | BInt16 => wrap_signed 16 z | BInt32 => wrap_signed 32 z
  | BUint | BUint64 => wrap_unsigned 64 z
  | BUint8 => wrap_unsigned 8 z | BUint16 => wrap_unsigned 16 z | BUint32 => wrap_unsigned 32 z
  | _ => z     (* floats: only integral values exactly representable are exercised *)
  end.

Definition byte (z : Z) : ascii := ascii_of_nat (Z.to_nat z).
(* string(rune): UTF-8 encoding; invalid code points give U+FFFD *)
Definition utf8 (z : Z) : string :=
  let bad := String (byte 239) (String (byte 191) (String (byte 189) EmptyString)) in
  if z <? 0 then bad
  else if z <? 128 then String (byte z) EmptyString
  else if z <? 2048 then String (byte (192 + z / 64)) (String (byte (128 + z mod 64)) EmptyString)
  else if (55296 <=? z) && (z <=? 57343) then bad
  else if z <? 65536 then
    String (byte (224 + z / 4096)) (String (byte (128 + (z / 64) mod 64)) (String (byte (128 + z mod 64)) EmptyString))
  else if z <=? 1114111 then
    String (byte (240 + z / 262144)) (String (byte (128 + (z / 4096) mod 64))
      (String (byte (128 + (z / 64) mod 64)) (String (byte (128 + z mod 64)) EmptyString)))
  else bad.

(* value of T(x) for x : V when convertible V T *)
Definition conv_val (e : env) (v t : ty) (x : val) : val :=
  match underlying e v, underlying e t, x with
  | UBasic a, UBasic b, VInt z =>
      if basic_eqb b BString then
        (* string(int): the integer is first converted to rune-range by Go: values outside int32 give U+FFFD *)
        VStr (utf8 z)
      else VInt (wrap_basic b z)
  | _, _, _ => x
  end.
Local Close Scope Z_scope.
