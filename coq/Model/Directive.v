(* Directive parsers of /repo/internal/restclient/cook.go (parsePath, parseKV,
   parseAlias, parseHeaders, parseFieldAlias).

   The Go code uses six regular expressions.  They are written down here
   LITERALLY as terms of a small regex syntax [re], and executed by a
   backtracking matcher [mt] that implements the leftmost-first (Perl-like,
   = Go regexp non-POSIX) semantics for exactly the operators those six
   expressions use: byte classes, concatenation, ordered alternation, greedy and
   lazy repetition, capture groups, ^ and $ with and without (?m), (?i) on
   ASCII letters.  Matching is byte-wise; all classes used are ASCII sets or
   complements of ASCII sets, so on valid UTF-8 byte-wise and rune-wise
   matching coincide (the (?i) Unicode folds of s/k, U+017F and U+212A, are
   outside the model).

   Nothing is proved about RE2 here: the matcher is tied to the real parsers by
   the L1 differential run of harness/c06.py through /repo/cmd/verifprobe
   (well-formed directives and a malformed stream).  No proofs in this file. *)
From Coq Require Import String Ascii List Bool Arith.
From Shoot Require Import Base.Str.
Import ListNotations.
Local Open Scope string_scope.

(* ------------------------------------------------------------------ syntax *)
Inductive re :=
| REps
| RChar (p : ascii -> bool)            (* one byte in a class *)
| RCat (a b : re)
| RAlt (a b : re)                      (* a|b, a preferred *)
| RStarC (greedy : bool) (p : ascii -> bool)   (* [class]* or [class]*? *)
| RStar (greedy : bool) (a : re)       (* (?:a)*, every iteration must consume input *)
| RGroup (n : nat) (a : re)            (* capture group number n *)
| RBol (multi : bool)                  (* ^ *)
| REol (multi : bool).                 (* $ *)

Definition RPlusC (g : bool) (p : ascii -> bool) : re := RCat (RChar p) (RStarC g p).
Definition RPlus (g : bool) (a : re) : re := RCat a (RStar g a).
Definition ROpt (a : re) : re := RAlt a REps.          (* a? greedy *)
Fixpoint RSeq (l : list re) : re :=
  match l with [] => REps | [a] => a | a :: r => RCat a (RSeq r) end.

(* byte classes *)
Definition is_word (c : ascii) : bool := is_upper c || is_lower c || is_digit c || Ascii.eqb c "_".
Definition not_word (c : ascii) : bool := negb (is_word c).
Definition nl : ascii := ascii_of_nat 10.
Definition is_nl (c : ascii) : bool := Ascii.eqb c nl.
Definition not_nl (c : ascii) : bool := negb (is_nl c).                  (* . *)
Definition is_space_re (c : ascii) : bool :=                             (* \s = [\t\n\f\r ] *)
  let n := code c in
  Nat.eqb n 9 || Nat.eqb n 10 || Nat.eqb n 12 || Nat.eqb n 13 || Nat.eqb n 32.
Definition ch (x : ascii) : re := RChar (Ascii.eqb x).
Definition chi (x : ascii) : re := RChar (fun c => Ascii.eqb (to_lower_c c) (to_lower_c x)).   (* (?i) *)
Fixpoint lit (s : string) : re :=
  match s with EmptyString => REps | String c EmptyString => ch c | String c r => RCat (ch c) (lit r) end.
Fixpoint liti (s : string) : re :=
  match s with EmptyString => REps | String c EmptyString => chi c | String c r => RCat (chi c) (liti r) end.
Definition not_c (x : ascii) (c : ascii) : bool := negb (Ascii.eqb c x).

(* ----------------------------------------------------------------- matcher *)
Record mstate := {
  ms_pos : nat;                       (* bytes consumed so far *)
  ms_prev : option ascii;             (* the byte before the position (None at the start of the text) *)
  ms_rest : string;                   (* what is left *)
  ms_caps : list (nat * (nat * nat))  (* group -> (start, end), latest first *)
}.

Definition step (st : mstate) (c : ascii) (r : string) : mstate :=
  {| ms_pos := S (ms_pos st); ms_prev := Some c; ms_rest := r; ms_caps := ms_caps st |}.

Definition orelse {A} (a : option A) (b : unit -> option A) : option A :=
  match a with Some x => Some x | None => b tt end.

(* [class]* : structural on the remaining text *)
Fixpoint star_c (g : bool) (p : ascii -> bool) (pos : nat) (prev : option ascii) (rest : string)
         (caps : list (nat * (nat * nat))) (k : mstate -> option mstate) : option mstate :=
  let here := {| ms_pos := pos; ms_prev := prev; ms_rest := rest; ms_caps := caps |} in
  match rest with
  | String c r =>
      if p c then
        if g then orelse (star_c g p (S pos) (Some c) r caps k) (fun _ => k here)
        else orelse (k here) (fun _ => star_c g p (S pos) (Some c) r caps k)
      else k here
  | EmptyString => k here
  end.

(* (?:a)* : every iteration must consume input; fuel = bytes left + 1 *)
Fixpoint star_loop (g : bool) (step : mstate -> (mstate -> option mstate) -> option mstate)
         (k : mstate -> option mstate) (fuel : nat) (st : mstate) {struct fuel} : option mstate :=
  match fuel with
  | O => None
  | S f =>
      let more := fun _ : unit =>
        step st (fun st' => if Nat.eqb (ms_pos st') (ms_pos st) then None else star_loop g step k f st') in
      if g then orelse (more tt) (fun _ => k st) else orelse (k st) more
  end.

Fixpoint mt (r : re) (st : mstate) (k : mstate -> option mstate) {struct r} : option mstate :=
  match r with
  | REps => k st
  | RChar p =>
      match ms_rest st with
      | String c s' => if p c then k (step st c s') else None
      | EmptyString => None
      end
  | RCat a b => mt a st (fun st' => mt b st' k)
  | RAlt a b => orelse (mt a st k) (fun _ => mt b st k)
  | RStarC g p => star_c g p (ms_pos st) (ms_prev st) (ms_rest st) (ms_caps st) k
  | RStar g a => star_loop g (mt a) k (S (String.length (ms_rest st))) st
  | RGroup n a =>
      mt a st (fun st' =>
        k {| ms_pos := ms_pos st'; ms_prev := ms_prev st'; ms_rest := ms_rest st';
             ms_caps := (n, (ms_pos st, ms_pos st')) :: ms_caps st' |})
  | RBol m =>
      match ms_prev st with
      | None => k st
      | Some c => if m && is_nl c then k st else None
      end
  | REol m =>
      match ms_rest st with
      | EmptyString => k st
      | String c _ => if m && is_nl c then k st else None
      end
  end.

(* leftmost match: try every start position from the left *)
Fixpoint search_from (r : re) (pos : nat) (prev : option ascii) (rest : string) : option (nat * mstate) :=
  let st := {| ms_pos := pos; ms_prev := prev; ms_rest := rest; ms_caps := [] |} in
  match mt r st (fun x => Some x) with
  | Some e => Some (pos, e)
  | None =>
      match rest with
      | String c r' => search_from r (S pos) (Some c) r'
      | EmptyString => None
      end
  end.

Fixpoint cap_lookup (n : nat) (l : list (nat * (nat * nat))) : option (nat * nat) :=
  match l with
  | [] => None
  | (m, se) :: r => if Nat.eqb m n then Some se else cap_lookup n r
  end.

(* text of group n of a match over the whole text s (empty for a group that did not take part) *)
Definition group (s : string) (e : mstate) (n : nat) : string :=
  match cap_lookup n (ms_caps e) with
  | Some (a, b) => substring a (b - a) s
  | None => EmptyString
  end.

(* regexp.FindStringSubmatch: Some getter-of-groups *)
Definition find (r : re) (s : string) : option mstate :=
  match search_from r 0 None s with Some (_, e) => Some e | None => None end.

(* regexp.MatchString *)
Definition matches (r : re) (s : string) : bool :=
  match find r s with Some _ => true | None => false end.

(* regexp.FindAllStringSubmatch(s, -1) for expressions that never match the
   empty string: successive non-overlapping leftmost matches *)
Fixpoint drop_str (n : nat) (s : string) : string :=
  match n, s with
  | O, _ => s
  | S m, String _ r => drop_str m r
  | S _, EmptyString => EmptyString
  end.
Definition last_byte_before (s : string) (pos : nat) : option ascii :=
  match pos with O => None | S p => String.get p s end.

Fixpoint find_all_aux (fuel : nat) (r : re) (s : string) (pos : nat) : list mstate :=
  match fuel with
  | O => []
  | S f =>
      match search_from r pos (last_byte_before s pos) (drop_str pos s) with
      | None => []
      | Some (_, e) =>
          if Nat.leb (ms_pos e) pos then []          (* cannot happen for the expressions below *)
          else e :: find_all_aux f r s (ms_pos e)
      end
  end.
Definition find_all (r : re) (s : string) : list mstate := find_all_aux (S (String.length s)) r s 0.

(* ------------------------------------------------ Go string helpers used *)
Definition is_go_space (c : ascii) : bool :=      (* unicode.IsSpace on ASCII *)
  let n := code c in
  Nat.eqb n 9 || Nat.eqb n 10 || Nat.eqb n 11 || Nat.eqb n 12 || Nat.eqb n 13 || Nat.eqb n 32.

Fixpoint trim_left_p (p : ascii -> bool) (s : string) : string :=
  match s with
  | String c r => if p c then trim_left_p p r else s
  | EmptyString => EmptyString
  end.
Definition srev (s : string) : string := string_of_list (rev (list_of_string s)).
Definition trim_right_p (p : ascii -> bool) (s : string) : string := srev (trim_left_p p (srev s)).
Definition trim_p (p : ascii -> bool) (s : string) : string := trim_right_p p (trim_left_p p s).
Definition trim_space : string -> string := trim_p is_go_space.              (* strings.TrimSpace *)
Definition dquote : ascii := ascii_of_nat 34.
Definition bquote : ascii := ascii_of_nat 96.
Definition trim_dquotes : string -> string := trim_p (Ascii.eqb dquote).     (* strings.Trim(s, dquote) *)
Definition trim_bquotes : string -> string := trim_p (Ascii.eqb bquote).

(* ---------------------------------------------------- the six expressions *)
(* `{([\w|-]+)\W*:\s*([^}]+)}`   (the second class was \W before the repair of K_rest_header_value_trim) *)
Definition kv_key_c (c : ascii) : bool := is_word c || Ascii.eqb c "|" || Ascii.eqb c "-".
Definition re_kv : re :=
  RSeq [ch "{"; RGroup 1 (RPlusC true kv_key_c); RStarC true not_word; ch ":"; RStarC true is_space_re;
        RGroup 2 (RPlusC true (not_c "}")); ch "}"].

(* (?im)^shoot:\W+(get|post|put|patch|delete)\(GROUP2\)\W*;?\W*$   with GROUP2 = any number of non-newline bytes, greedy *)
Definition re_req : re :=
  RSeq [RBol true; liti "shoot:"; RPlusC true not_word;
        RGroup 1 (RAlt (liti "get") (RAlt (liti "post") (RAlt (liti "put") (RAlt (liti "patch") (liti "delete")))));
        ch "("; RGroup 2 (RStarC true not_nl); ch ")"; RStarC true not_word; ROpt (ch ";"); RStarC true not_word;
        REol true].

(* `^(Q[^Q]+Q|[^Q]+)$` with Q the double quote *)
Definition re_path : re :=
  RSeq [RBol false;
        RGroup 1 (RAlt (RSeq [ch dquote; RPlusC true (not_c dquote); ch dquote]) (RPlusC true (not_c dquote)));
        REol false].

(* `{(\w+)}` *)
Definition re_path_param : re := RSeq [ch "{"; RGroup 1 (RPlusC true is_word); ch "}"].

(* (?m)^shoot:.*?\Walias=([^;\n]+)(;.*|\s* )$     (no blank before the closing parenthesis in the Go source) *)
Definition re_alias : re :=
  RSeq [RBol true; lit "shoot:"; RStarC false not_nl; RChar not_word; lit "alias=";
        RGroup 1 (RPlusC true (fun c => negb (Ascii.eqb c ";") && not_nl c));
        RGroup 2 (RAlt (RCat (ch ";") (RStarC true not_nl)) (RStarC true is_space_re));
        REol true].

(* `shoot:.*?\Wheaders=((?:\s*{[^\n]+},?)+)` *)
Definition re_headers : re :=
  RSeq [lit "shoot:"; RStarC false not_nl; RChar not_word; lit "headers=";
        RGroup 1 (RPlus true (RSeq [RStarC true is_space_re; ch "{"; RPlusC true not_nl; ch "}"; ROpt (ch ",")]))].

(* `alias=(\w+)` *)
Definition re_field_alias : re := RSeq [lit "alias="; RGroup 1 (RPlusC true is_word)].

(* ------------------------------------------------------------- the parsers *)
(* Go maps are association lists here: [map_set] overwrites in place or appends
   (the order is only an enumeration of the entries; every Go loop over such a
   map goes through an iteration oracle in Model/Rest.v) *)
Fixpoint map_set (m : list (string * string)) (k v : string) : list (string * string) :=
  match m with
  | [] => [(k, v)]
  | (k', v') :: r => if String.eqb k' k then (k, v) :: r else (k', v') :: map_set r k v
  end.
Fixpoint map_get (m : list (string * string)) (k : string) : option string :=
  match m with
  | [] => None
  | (k', v) :: r => if String.eqb k' k then Some v else map_get r k
  end.

(* func parseKV(str string) map[string]string      (nil and empty are not distinguished) *)
Definition parse_kv (s : string) : list (string * string) :=
  fold_left (fun m e => map_set m (group s e 1) (group s e 2)) (find_all re_kv s) [].

Inductive path_result :=
| PathNone                                            (* ok = false: the method is skipped *)
| PathFatal (path : string)                           (* logx.Fatalf: bad path format *)
| PathOk (verb path : string) (params : list string).

(* func parsePath(doc string) (string, string, []string, bool) *)
Definition parse_path (doc : string) : path_result :=
  match find re_req doc with
  | None => PathNone
  | Some e =>
      let method := upper (group doc e 1) in
      let path := trim_space (group doc e 2) in
      if negb (matches re_path path) then PathFatal path
      else
        let path' := trim_dquotes path in
        PathOk method path' (map (fun m => group path' m 1) (find_all re_path_param path'))
  end.

(* func parseAlias(doc string) map[string]string *)
Definition parse_alias (doc : string) : list (string * string) :=
  match find re_alias doc with
  | None => []
  | Some e => parse_kv (group doc e 1)
  end.

(* func parseHeaders(doc string) map[string]string *)
Definition parse_headers (doc : string) : list (string * string) :=
  match find re_headers doc with
  | None => []
  | Some e => parse_kv (group doc e 1)
  end.

(* reflect.StructTag.Get for the conventional  key:QvalueQ key2:Qvalue2Q
   format (Q the double quote) with values free of backslashes (strconv.Unquote is the identity
   on those); anything else ends the scan like the real function does *)
Fixpoint take_until (p : ascii -> bool) (s : string) : string * string :=
  match s with
  | String c r => if p c then (EmptyString, s) else let (a, b) := take_until p r in (String c a, b)
  | EmptyString => (EmptyString, EmptyString)
  end.
Definition tag_name_end (c : ascii) : bool :=
  negb (Nat.ltb 32 (code c)) || Ascii.eqb c ":" || Ascii.eqb c dquote || Nat.eqb (code c) 127.
Fixpoint tag_get_aux (fuel : nat) (tag key : string) : string :=
  match fuel with
  | O => EmptyString
  | S f =>
      let t := trim_left_p (Ascii.eqb " ") tag in
      match t with
      | EmptyString => EmptyString
      | _ =>
          let (name, r1) := take_until tag_name_end t in
          match name, r1 with
          | EmptyString, _ => EmptyString
          | _, String c1 (String c2 r2) =>
              if Ascii.eqb c1 ":" && Ascii.eqb c2 dquote then
                let (val, r3) := take_until (fun c => Ascii.eqb c dquote || Ascii.eqb c "\") r2 in
                match r3 with
                | String c3 r4 =>
                    if Ascii.eqb c3 dquote then
                      if String.eqb name key then val else tag_get_aux f r4 key
                    else EmptyString            (* a backslash: outside the modelled tag alphabet *)
                | EmptyString => EmptyString
                end
              else EmptyString
          | _, _ => EmptyString
          end
      end
  end.
Definition tag_get (tag key : string) : string := tag_get_aux (S (String.length tag)) tag key.

(* func parseFieldAlias(tag string) string     (tag = the literal, back-quotes included) *)
Definition parse_field_alias (tag : string) : string :=
  let v := tag_get (trim_bquotes tag) "shoot" in
  match find re_field_alias v with
  | None => EmptyString
  | Some e => group v e 1
  end.
