(* Model of the request side of `shoot rest` (property C06):

     cook_method / cook_iface   = internal/restclient/cook.go:19-182 (cookClient, the directive and
                                  parameter part) and paramhandler.go (handleExpr, handleSelectorExpr,
                                  handleIdent, handleStruct, handleMapType, setBodyParamName)
     exec                       = what one generated method does when it is called
                                  (restclient.tmpl:15-92: path substitution, JoinPath, body, request
                                  construction, query, headers, one Do)

   Go maps are association lists; every Go `range` over a map whose order can
   matter takes an iteration oracle (any function returning a permutation of
   its argument).  Standard-library behaviour the property does not talk
   about (fmt %v of scalars, url.JoinPath, json.Marshal,
   the query already present in the base URL) enters as Section variables.
   The result-arity checks of cook.go:135-171 and the response handling of
   the template (lines 88-131, property C10) are not part of this model.
   No proofs here. *)
From Coq Require Import String Ascii List Bool Arith ZArith.
From Shoot Require Import Base.Str Model.Transfer Model.Directive.
Import ListNotations.
Local Open Scope string_scope.

(* ------------------------------------------------- what the generator reads *)
(* parameter type expressions, as handleExpr distinguishes them *)
Inductive texpr :=
| TIdent (n : string)            (* *ast.Ident *)
| TSel (pkg n : string)          (* *ast.SelectorExpr *)
| TMapT                          (* *ast.MapType *)
| TStar (t : texpr)              (* *ast.StarExpr *)
| TOther.                        (* anything else: logx.Fatalf *)

(* one field declaration of a struct type, as extractStructFields sees it *)
Record field_decl := {
  fd_names : list string;        (* [] = embedded field *)
  fd_type : string;              (* printed type expression *)
  fd_star : bool;                (* the type is a *ast.StarExpr *)
  fd_tag : option string         (* the tag literal, back-quotes included *)
}.

Inductive sel_class :=
| SelCtx                         (* context.Context *)
| SelBasic                       (* a *types.Named whose underlying type is a basic type (time.Duration) *)
| SelNamed                       (* any other *types.Named (struct, map, slice, ...) *)
| SelUnnamed.                    (* not a named type: ignored *)

Record env := {
  e_pkg_types : list (string * bool);                       (* type declarations of the package's files (the interface's file first): name, declared as a struct type *)
  e_sel : list ((string * string) * sel_class);             (* go/types view of pkg.Name *)
  e_structs : list ((string * string) * list field_decl)    (* (package, "" = own; type name) -> field declarations found by parser.ParseDir *)
}.

Record param_decl := { pd_names : list string; pd_type : texpr }.
Record method_decl := { md_name : string; md_doc : option string; md_params : list param_decl }.
Inductive iface_item :=
| IEmbed (doc : option string)       (* an embedded interface, e.g. shoot.RestClient[T], with its doc comment *)
| IMethod (m : method_decl).
Definition iface := list iface_item.

(* --------------------------------------------------------- generator state *)
(* Go expressions the generator stores as text *)
Inductive gexpr :=
| EParam (p : string)            (* p *)
| EField (p f : string)          (* p.F *)
| ECall (p f : string).          (* p.Pascal(f)()  -- the getter of the unexported field f *)

Definition expr_key (e : gexpr) : string :=
  match e with
  | EParam p => p
  | EField p f => p ++ "." ++ f
  | ECall p f => p ++ "." ++ to_pascal_case f ++ "()"
  end.

(* TmplData, restricted to one method *)
Record mdata := {
  d_verb : string;                          (* HTTPMethodMap *)
  d_path : string;                          (* PathMap *)
  d_alias : list (string * string);         (* AliasMap *)
  d_path_params : list string;              (* PathParamsMap *)
  d_query_params : list gexpr;              (* QueryParamsMap *)
  d_is_ptr : list (string * string);        (* IsParamPtrMap: the keys set to true (value unused) *)
  d_body : option string;                   (* BodyParamMap *)
  d_dict : option string;                   (* QueryDictMap *)
  d_ctx : option string                     (* CtxParamMap *)
}.

Definition with_alias d a := {| d_verb := d_verb d; d_path := d_path d; d_alias := a; d_path_params := d_path_params d;
  d_query_params := d_query_params d; d_is_ptr := d_is_ptr d; d_body := d_body d; d_dict := d_dict d; d_ctx := d_ctx d |}.
Definition with_query d q := {| d_verb := d_verb d; d_path := d_path d; d_alias := d_alias d; d_path_params := d_path_params d;
  d_query_params := q; d_is_ptr := d_is_ptr d; d_body := d_body d; d_dict := d_dict d; d_ctx := d_ctx d |}.
Definition with_is_ptr d p := {| d_verb := d_verb d; d_path := d_path d; d_alias := d_alias d; d_path_params := d_path_params d;
  d_query_params := d_query_params d; d_is_ptr := p; d_body := d_body d; d_dict := d_dict d; d_ctx := d_ctx d |}.
Definition with_body d b := {| d_verb := d_verb d; d_path := d_path d; d_alias := d_alias d; d_path_params := d_path_params d;
  d_query_params := d_query_params d; d_is_ptr := d_is_ptr d; d_body := b; d_dict := d_dict d; d_ctx := d_ctx d |}.
Definition with_dict d x := {| d_verb := d_verb d; d_path := d_path d; d_alias := d_alias d; d_path_params := d_path_params d;
  d_query_params := d_query_params d; d_is_ptr := d_is_ptr d; d_body := d_body d; d_dict := x; d_ctx := d_ctx d |}.
Definition with_ctx d x := {| d_verb := d_verb d; d_path := d_path d; d_alias := d_alias d; d_path_params := d_path_params d;
  d_query_params := d_query_params d; d_is_ptr := d_is_ptr d; d_body := d_body d; d_dict := d_dict d; d_ctx := x |}.

Inductive cres (A : Type) :=
| COk (a : A)
| CSkip                          (* the method is dropped with a warning *)
| CFatal (why : string).         (* logx.Fatalf: shoot exits 1 *)
Arguments COk {A} a.
Arguments CSkip {A}.
Arguments CFatal {A} why.

Definition cbind {A B} (x : cres A) (f : A -> cres B) : cres B :=
  match x with COk a => f a | CSkip => CSkip | CFatal w => CFatal w end.

Fixpoint assoc2 {V} (l : list ((string * string) * V)) (a b : string) : option V :=
  match l with
  | [] => None
  | ((a', b'), v) :: r => if String.eqb a' a && String.eqb b' b then Some v else assoc2 r a b
  end.
Fixpoint assoc_b (l : list (string * bool)) (k : string) : option bool :=
  match l with
  | [] => None
  | (k', v) :: r => if String.eqb k' k then Some v else assoc_b r k
  end.
Definition mem_str (x : string) (l : list string) : bool := existsb (String.eqb x) l.
Definition is_true_key (m : list (string * string)) (k : string) : bool :=
  match map_get m k with Some _ => true | None => false end.

(* func (g *Generator) isPkgStructType(name, file): the declaration of that name, in the interface's
   file or in any other file of the package, decides (package-level names are unique) *)
Definition is_struct_type (E : env) (n : string) : bool :=
  match assoc_b (e_pkg_types E) n with Some b => b | None => false end.

(* func extractStructFields, flattened to fieldInfo entries *)
Record field_info := { fi_name : string; fi_alias : string; fi_exported : bool; fi_ptr : bool }.
Definition field_infos (fd : field_decl) : list field_info :=
  let alias := match fd_tag fd with Some t => parse_field_alias t | None => EmptyString end in
  match fd_names fd with
  | [] => [{| fi_name := fd_type fd; fi_alias := alias; fi_exported := true; fi_ptr := false |}]
  | ns => map (fun n => {| fi_name := n; fi_alias := alias; fi_exported := is_exported n; fi_ptr := fd_star fd |}) ns
  end.
Definition struct_fields (E : env) (pkg tname : string) : list field_info :=
  match assoc2 (e_structs E) pkg tname with
  | Some fds => flat_map field_infos fds
  | None => []
  end.

(* func (g *Generator) setBodyParamName *)
Definition set_body (name : string) (d : mdata) : cres mdata :=
  match d_body d with
  | Some _ => CFatal "ambiguous body binding"
  | None => COk (with_body d (Some name))
  end.

(* func (g *Generator) handleStruct: one field *)
Definition handle_field (name : string) (d : mdata) (f : field_info) : mdata :=
  let key := if fi_exported f then to_camel_case (fi_name f) else fi_name f in
  let value := if fi_exported f then EField name (fi_name f) else ECall name (fi_name f) in
  let d1 := if fi_ptr f then with_is_ptr d (map_set (d_is_ptr d) (expr_key value) "true") else d in
  let d2 := with_query d1 (d_query_params d1 ++ [value]) in
  with_alias d2 (map_set (d_alias d2) (expr_key value)
                         (if String.eqb (fi_alias f) EmptyString then key else fi_alias f)).

Definition handle_struct (E : env) (pkg tname name : string) (d : mdata) : mdata :=
  fold_left (handle_field name) (struct_fields E pkg tname) d.

(* the scalar branch shared by handleIdent and handleSelectorExpr: a path parameter is left alone,
   any other scalar is a query parameter *)
Definition handle_scalar (name : string) (d : mdata) : mdata :=
  if mem_str name (d_path_params d) then d else with_query d (d_query_params d ++ [EParam name]).
Definition get_or_delete (verb : string) : bool := String.eqb verb "GET" || String.eqb verb "DELETE".

(* func (g *Generator) handleSelectorExpr: a named scalar of another package travels like a scalar on
   GET/DELETE; every other named type is bound as the body and looked up as a struct *)
Definition handle_selector (E : env) (pkg n name : string) (d : mdata) : cres mdata :=
  match assoc2 (e_sel E) pkg n with
  | Some SelCtx => COk (with_ctx d (Some name))
  | Some SelBasic =>
      if get_or_delete (d_verb d) then COk (handle_scalar name d)
      else cbind (set_body name d) (fun d' => COk (handle_struct E pkg n name d'))
  | Some SelNamed => cbind (set_body name d) (fun d' => COk (handle_struct E pkg n name d'))
  | Some SelUnnamed | None => COk d
  end.

(* func (g *Generator) handleIdent *)
Definition handle_ident (E : env) (n name : string) (d : mdata) : cres mdata :=
  if is_struct_type E n then cbind (set_body name d) (fun d' => COk (handle_struct E EmptyString n name d'))
  else COk (handle_scalar name d).

(* func (g *Generator) handleMapType: a second query map of a GET/DELETE method is refused *)
Definition handle_map (name : string) (d : mdata) : cres mdata :=
  if get_or_delete (d_verb d) then
    match d_dict d with
    | Some _ => CFatal "ambiguous query map binding"
    | None => COk (with_dict d (Some name))
    end
  else COk d.

(* func (g *Generator) handleExpr *)
Fixpoint handle_expr (E : env) (t : texpr) (name : string) (d : mdata) : cres mdata :=
  match t with
  | TSel pkg n => handle_selector E pkg n name d
  | TIdent n => handle_ident E n name d
  | TMapT => handle_map name d
  | TStar x => handle_expr E x name d
  | TOther => CFatal "unsupported param type"
  end.

Definition is_star (t : texpr) : bool := match t with TStar _ => true | _ => false end.

(* cook.go:125-137: one parameter name; an unnamed (rendered as the empty name) or blank parameter is refused *)
Definition bad_name (name : string) : bool := String.eqb name EmptyString || String.eqb name "_".
Definition handle_param_name (E : env) (t : texpr) (acc : cres mdata) (name : string) : cres mdata :=
  cbind acc (fun d =>
    if bad_name name then CFatal "parameters must be named"
    else
    cbind (handle_expr E t name d) (fun d' =>
      COk (if is_star t then with_is_ptr d' (map_set (d_is_ptr d') name "true") else d'))).

Definition decl_names (p : param_decl) : list string :=
  match pd_names p with [] => [EmptyString] | ns => ns end.
Definition handle_param (E : env) (acc : cres mdata) (p : param_decl) : cres mdata :=
  fold_left (handle_param_name E (pd_type p)) (decl_names p) acc.

Definition oracle := list (string * string) -> list (string * string).

(* cook.go:103-118 *)
Definition revers_map (sigma : oracle) (as_map : list (string * string)) : list (string * string) :=
  fold_left (fun r kv => map_set r (snd kv) (fst kv)) (sigma as_map) [].
Definition real_path_params (revers : list (string * string)) (pps : list string) : list string :=
  map (fun n => match map_get revers n with Some r => r | None => n end) pps.

(* cook.go: a POST/PUT/PATCH method without body parameter is refused *)
Definition body_verb (verb : string) : bool :=
  String.eqb verb "POST" || String.eqb verb "PUT" || String.eqb verb "PATCH".
(* cook.go: a pointer parameter cannot fill a placeholder (fmt %v would print its address) *)
Definition check_ptr_path (d : mdata) : cres mdata :=
  if existsb (fun p => is_true_key (d_is_ptr d) p) (d_path_params d)
  then CFatal "a path parameter must not be a pointer" else COk d.
Definition check_body (d : mdata) : cres mdata :=
  if body_verb (d_verb d) then
    match d_body d with
    | Some _ => COk d
    | None => CFatal "a body verb needs a struct parameter as request body"
    end
  else COk d.

(* cook.go:83-140 for one method *)
Definition cook_method (sigma : oracle) (E : env) (m : method_decl) : cres mdata :=
  match md_doc m with
  | None => CSkip
  | Some doc =>
      match parse_path doc with
      | PathNone => CSkip
      | PathFatal _ => CFatal "bad path format"
      | PathOk verb path pps =>
          let as_map := parse_alias doc in
          let d0 := {| d_verb := verb; d_path := path; d_alias := as_map;
                       d_path_params := real_path_params (revers_map sigma as_map) pps;
                       d_query_params := []; d_is_ptr := []; d_body := None; d_dict := None; d_ctx := None |} in
          cbind (cbind (fold_left (handle_param E) (md_params m) (COk d0)) check_ptr_path) check_body
      end
  end.

(* cook.go:35-52 *)
Definition default_headers (verb : string) : list (string * string) :=
  if String.eqb verb "GET" then [("Accept", "application/json")]
  else if String.eqb verb "POST" || String.eqb verb "PUT" || String.eqb verb "PATCH"
       then [("Accept", "application/json"); ("Content-Type", "application/json")]
  else [].

(* cook.go:68-76: every embedded interface with a doc comment contributes its headers= directive
   to the map of every verb *)
Definition iface_headers (sigma : oracle) (I : iface) (verb : string) : list (string * string) :=
  fold_left (fun h it =>
               match it with
               | IEmbed (Some doc) => fold_left (fun h' kv => map_set h' (fst kv) (snd kv)) (sigma (parse_headers doc)) h
               | _ => h
               end) I (default_headers verb).

(* MethodList with the per-method data; a fatal method aborts the run *)
Fixpoint cook_methods (sigma : oracle) (E : env) (I : iface) : cres (list (string * mdata)) :=
  match I with
  | [] => COk []
  | IEmbed _ :: r => cook_methods sigma E r
  | IMethod m :: r =>
      match cook_method sigma E m with
      | CFatal w => CFatal w
      | CSkip => cook_methods sigma E r
      | COk d => cbind (cook_methods sigma E r) (fun l => COk ((md_name m, d) :: l))
      end
  end.

(* ------------------------------------------------------------ Go values *)
Inductive sval := SStr (s : string) | SInt (z : Z) | SBool (b : bool).
Inductive fval :=
| FPlain (v : sval)
| FPtr (o : option sval).            (* a pointer field, None = nil *)
Inductive aval :=
| AScalar (v : sval)
| APtr (o : option sval)                               (* pointer to a scalar *)
| AStruct (ptr : bool) (o : option (list (string * fval)))   (* struct by value (ptr = false, Some) or pointer to struct *)
| AMap (es : list (string * sval))                     (* map[string]scalar; nil = empty *)
| ACtx (c : option (nat * bool)).                      (* a context: identity tag, already cancelled; None = nil interface *)

Fixpoint arg_get (args : list (string * aval)) (p : string) : option aval :=
  match args with
  | [] => None
  | (k, v) :: r => if String.eqb k p then Some v else arg_get r p
  end.
Fixpoint field_get (fs : list (string * fval)) (f : string) : option fval :=
  match fs with
  | [] => None
  | (k, v) :: r => if String.eqb k f then Some v else field_get r f
  end.

(* strings.Replace(s, old, new, 1) for a non-empty old *)
Fixpoint replace_first (s old new : string) : string :=
  match s with
  | EmptyString => EmptyString
  | String c r => if String.prefix old s then new ++ drop_str (String.length old) s
                  else String c (replace_first r old new)
  end.

(* sort.Strings order (bytes) *)
Fixpoint str_leb (a b : string) : bool :=
  match a, b with
  | EmptyString, _ => true
  | String _ _, EmptyString => false
  | String x a', String y b' =>
      if Nat.ltb (code x) (code y) then true
      else if Nat.ltb (code y) (code x) then false
      else str_leb a' b'
  end.
Fixpoint insert_kv (kv : string * string) (l : list (string * string)) : list (string * string) :=
  match l with
  | [] => [kv]
  | x :: r => if str_leb (fst kv) (fst x) then kv :: l else x :: insert_kv kv r
  end.
Definition sort_kv (l : list (string * string)) : list (string * string) := fold_right insert_kv [] l.

(* --------------------------------------------------- the generated method *)
Record request := {
  rq_verb : string;
  rq_path : string;                                 (* path_ after the substitutions *)
  rq_url : string;                                  (* url.JoinPath(base, path_) *)
  rq_query : option (list (string * string));       (* None: RawQuery left as it is; Some q: RawQuery = q.Encode() (url.Values.Encode) *)
  rq_headers : list (string * string);              (* the req_.Header.Add calls, in order *)
  rq_body : option string;                          (* None = nil body *)
  rq_ctx : option (nat * bool)                      (* None = http.NewRequest (background) *)
}.

Inductive outcome :=
| OSent (r : request)            (* exactly one c.client.Do(req_) with this request *)
| OErr (what : string)           (* returned an error before any request *)
| OPanic                         (* nil dereference *)
| ONoCompile                     (* the emitted method is not valid Go *)
| OIllTyped.                     (* the argument list does not fit the declaration / outside the modelled values *)

(* static validity of the emitted method body: a body verb needs a body parameter
   (otherwise the template prints json.Marshal() without argument), and the query dictionary must
   not be a pointer (otherwise it prints a range over a pointer to a map) *)
Definition static_ok (d : mdata) : bool :=
  (negb (body_verb (d_verb d)) || match d_body d with Some _ => true | None => false end)
  && (body_verb (d_verb d) || match d_dict d with Some p => negb (is_true_key (d_is_ptr d) p) | None => true end).

Section Std.
Variable fmt_v : sval -> string.                          (* fmt.Sprintf("%v", scalar) *)
Variable join_path : string -> string -> option string.   (* url.JoinPath(base, elem); None = error *)
Variable json_marshal : aval -> option string.            (* json.Marshal; None = error *)
Variable url_query : string -> list (string * string).    (* req_.URL.Query() of the joined URL *)

Inductive ev := EvVal (s : string) | EvNil | EvPanic | EvBad.

(* value of a stored expression, dereferenced when the generator marked it as pointer *)
Definition eval_q (args : list (string * aval)) (e : gexpr) (isptr : bool) : ev :=
  let of_f (fv : fval) :=
    match fv, isptr with
    | FPlain v, false => EvVal (fmt_v v)
    | FPtr None, true => EvNil
    | FPtr (Some v), true => EvVal (fmt_v v)
    | _, _ => EvBad
    end in
  match e with
  | EParam p =>
      match arg_get args p, isptr with
      | Some (AScalar v), false => EvVal (fmt_v v)
      | Some (APtr None), true => EvNil
      | Some (APtr (Some v)), true => EvVal (fmt_v v)
      | _, _ => EvBad
      end
  | EField p f | ECall p f =>
      match arg_get args p with
      | Some (AStruct _ (Some fs)) => match field_get fs f with Some fv => of_f fv | None => EvBad end
      | Some (AStruct true None) => EvPanic
      | _ => EvBad
      end
  end.

(* restclient.tmpl:24-32 *)
Fixpoint subst_path (alias : list (string * string)) (args : list (string * aval)) (pms : list string) (path : string)
  : option string :=
  match pms with
  | [] => Some path
  | pm :: r =>
      let key := match map_get alias pm with
                 | Some a => if String.eqb a EmptyString then pm else a
                 | None => pm
                 end in
      match arg_get args pm with
      | Some (AScalar v) => subst_path alias args r (replace_first path ("{" ++ key ++ "}") (fmt_v v))
      | _ => None
      end
  end.

(* restclient.tmpl:64-77: the query_.Set calls for the stored expressions *)
Inductive qres := QOk (q : list (string * string)) | QPanic | QBad.
Fixpoint set_queries (d : mdata) (args : list (string * aval)) (qs : list gexpr) (q : list (string * string)) : qres :=
  match qs with
  | [] => QOk q
  | e :: r =>
      let k := expr_key e in
      let alias := match map_get (d_alias d) k with
                   | Some a => if String.eqb a EmptyString then k else a
                   | None => k
                   end in
      match eval_q args e (is_true_key (d_is_ptr d) k) with
      | EvVal s => set_queries d args r (map_set q alias s)
      | EvNil => set_queries d args r q
      | EvPanic => QPanic
      | EvBad => QBad
      end
  end.

(* restclient.tmpl:39-47 *)
Definition body_of (d : mdata) (args : list (string * aval)) : outcome + option string :=
  if body_verb (d_verb d) then
    match d_body d with
    | None => inl ONoCompile                                  (* json.Marshal() without argument *)
    | Some p =>
        match arg_get args p with
        | Some a => match json_marshal a with Some j => inr (Some j) | None => inl (OErr "marshal") end
        | None => inl OIllTyped
        end
    end
  else inr None.

(* restclient.tmpl:49-53 *)
Definition ctx_of (d : mdata) (args : list (string * aval)) : outcome + option (nat * bool) :=
  match d_ctx d with
  | None => inr None
  | Some p =>
      match arg_get args p with
      | Some (ACtx (Some c)) => inr (Some c)
      | Some (ACtx None) => inl (OErr "nil context")          (* http.NewRequestWithContext *)
      | _ => inl OIllTyped
      end
  end.

(* restclient.tmpl:59-86 *)
Definition query_of (sigma_d : list (string * sval) -> list (string * sval)) (d : mdata)
           (args : list (string * aval)) (url_ : string) : outcome + option (list (string * string)) :=
  if body_verb (d_verb d) then inr None
  else
    match d_query_params d, d_dict d with
    | [], None => inr None
    | qs, dict =>
        match set_queries d args qs (url_query url_) with
        | QPanic => inl OPanic
        | QBad => inl OIllTyped
        | QOk q =>
            match dict with
            | None => inr (Some q)
            | Some p =>
                if is_true_key (d_is_ptr d) p then inl ONoCompile      (* range over a pointer to a map *)
                else match arg_get args p with
                     | Some (AMap es) =>
                         inr (Some (fold_left (fun q' kv => map_set q' (fst kv) (fmt_v (snd kv))) (sigma_d es) q))
                     | _ => inl OIllTyped
                     end
            end
        end
    end.

Definition exec (sigma_d : list (string * sval) -> list (string * sval))
           (hdrs : list (string * string)) (d : mdata) (base : string) (args : list (string * aval)) : outcome :=
  if negb (static_ok d) then ONoCompile else
  match subst_path (d_alias d) args (d_path_params d) (d_path d) with
  | None => OIllTyped
  | Some path_ =>
      match join_path base path_ with
      | None => OErr "join"
      | Some url_ =>
          match body_of d args with
          | inl o => o
          | inr body =>
              match ctx_of d args with
              | inl o => o
              | inr ctx =>
                  match query_of sigma_d d args url_ with
                  | inl o => o
                  | inr q =>
                      OSent {| rq_verb := d_verb d; rq_path := path_; rq_url := url_;
                               rq_query := q;
                               rq_headers := sort_kv hdrs;
                               rq_body := body;
                               rq_ctx := ctx |}
                  end
              end
          end
      end
  end.

End Std.

(* "the emitted method compiles", as far as it depends on the directive and the parameter
   list: [static_ok] and every path parameter is a declared parameter *)
Definition param_names (m : method_decl) : list string := flat_map pd_names (md_params m).
Definition compiles (m : method_decl) (d : mdata) : bool :=
  static_ok d && forallb (fun p => mem_str p (param_names m)) (d_path_params d).
