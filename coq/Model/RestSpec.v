(* Declarative reading of property C06: what request a method of a RestClient
   interface is REQUIRED to send, computed directly from a structured
   description of the directive and of the parameter list (no generator
   state, no template).  Proofs/RestProofs.v shows that the generator model
   (Model/Rest.v: cook_method + exec) produces exactly this request on every
   well-formed method; Corr/RestCorr.v evaluates it on what the real
   generated client sent (the boolean property of the correspondence).
   No proofs here. *)
From Coq Require Import String Ascii List Bool Arith ZArith.
From Shoot Require Import Base.Str Model.Transfer Model.Directive Model.Rest.
Import ListNotations.
Local Open Scope string_scope.

(* the path of a directive: literal pieces and {name} placeholders *)
Inductive ptok := PLit (s : string) | PHole (n : string).
Definition render_tok (t : ptok) : string :=
  match t with PLit s => s | PHole n => "{" ++ n ++ "}" end.
Definition render_toks (ts : list ptok) : string := String.concat "" (map render_tok ts).
Definition holes (ts : list ptok) : list string :=
  flat_map (fun t => match t with PHole n => [n] | PLit _ => [] end) ts.
Definition fill (f : string -> string) (ts : list ptok) : string :=
  String.concat "" (map (fun t => match t with PLit s => s | PHole n => f n end) ts).

(* a struct field is described by the generator's own fieldInfo record (Model/Rest.v):
   fi_name, fi_alias ("" = no alias tag), fi_exported, fi_ptr *)
Notation fspec := field_info (only parsing).

Inductive pkind :=
| KCtx
| KScalar (ptr : bool)
| KStruct (ptr : bool) (fields : list fspec)
| KMap (ptr : bool)
| KOpaque (ptr : bool).     (* a qualified named type that is neither a struct nor (on GET/DELETE) a scalar:
                               outside the grammar, see wf_kind; the generator binds it as the body *)

Record mspec := {
  s_verb : string;                         (* GET POST PUT PATCH DELETE *)
  s_toks : list ptok;
  s_alias : list (string * string);        (* alias directive: parameter -> name in the path / query *)
  s_params : list (string * pkind)
}.

(* ------------------------------------------------ classification of types *)
Definition kind_base (E : env) (verb : string) (t : texpr) (ptr : bool) : option pkind :=
  match t with
  | TIdent n => if is_struct_type E n then Some (KStruct ptr (struct_fields E EmptyString n))
                else Some (KScalar ptr)
  | TSel pkg n =>
      match assoc2 (e_sel E) pkg n with
      | Some SelCtx => if ptr then None else Some KCtx
      | Some SelBasic => if get_or_delete verb then Some (KScalar ptr) else Some (KOpaque ptr)
      | Some SelNamed =>
          match assoc2 (e_structs E) pkg n with
          | Some _ => Some (KStruct ptr (struct_fields E pkg n))
          | None => Some (KOpaque ptr)
          end
      | _ => None
      end
  | TMapT => Some (KMap ptr)
  | _ => None
  end.
Definition kind_of (E : env) (verb : string) (t : texpr) : option pkind :=
  match t with
  | TStar x => kind_base E verb x true
  | x => kind_base E verb x false
  end.

(* the declared parameters with their kinds, in order *)
(* consistency of the environment: a qualified named scalar is not also listed as a struct
   (type names are unique in a package) *)
Definition env_ok (E : env) : bool :=
  forallb (fun x => match snd x with
                    | SelBasic => match assoc2 (e_structs E) (fst (fst x)) (snd (fst x)) with None => true | Some _ => false end
                    | _ => true
                    end) (e_sel E).

(* an unnamed parameter declaration appears with the empty name (and is therefore outside wf_mspec) *)
Definition typed_params (E : env) (verb : string) (m : method_decl) : list (string * option pkind) :=
  flat_map (fun p => map (fun n => (n, kind_of E verb (pd_type p))) (decl_names p)) (md_params m).

(* ----------------------------------------------------- the required request *)
(* "alias-resolved": the placeholder {h} stands for the parameter aliased to h, or for the
   parameter called h *)
Definition resolve (al : list (string * string)) (h : string) : string :=
  match List.find (fun kv => String.eqb (snd kv) h) al with
  | Some kv => fst kv
  | None => h
  end.
Definition alias_or_name (al : list (string * string)) (p : string) : string :=
  match map_get al p with Some a => a | None => p end.
Definition field_key (f : fspec) : string :=
  if String.eqb (fi_alias f) EmptyString
  then (if fi_exported f then to_camel_case (fi_name f) else fi_name f)
  else fi_alias f.
(* the Go expression that reads the field of parameter p: p.F, or the getter p.F() of an unexported field *)
Definition fexpr (p : string) (f : fspec) : gexpr :=
  if fi_exported f then EField p (fi_name f) else ECall p (fi_name f).

Section Std.
Variable fmt_v : sval -> string.
Variable join_path : string -> string -> option string.
Variable json_marshal : aval -> option string.
Variable url_query : string -> list (string * string).               (* query already present in the joined URL *)
Variable sigma_d : list (string * sval) -> list (string * sval).   (* order in which the map argument is ranged over *)

Definition scalar_text (args : list (string * aval)) (p : string) : option string :=
  match arg_get args p with Some (AScalar v) => Some (fmt_v v) | _ => None end.

(* the path: every placeholder replaced by the text of the alias-resolved argument *)
Definition spec_path (ms : mspec) (args : list (string * aval)) : option string :=
  if forallb (fun h => match scalar_text args (resolve (s_alias ms) h) with Some _ => true | None => false end)
             (holes (s_toks ms))
  then Some (fill (fun h => match scalar_text args (resolve (s_alias ms) h) with Some s => s | None => EmptyString end)
                  (s_toks ms))
  else None.

Inductive wr := WOk (l : list (string * string)) | WPanic | WBad.
Definition wr_app (a b : wr) : wr :=
  match a, b with
  | WOk x, WOk y => WOk (x ++ y)
  | WOk _, o => o
  | o, _ => o
  end.

Definition field_write (fs : list (string * fval)) (f : fspec) : wr :=
  match field_get fs (fi_name f), fi_ptr f with
  | Some (FPlain v), false => WOk [(field_key f, fmt_v v)]
  | Some (FPtr None), true => WOk []                       (* nil pointers are omitted *)
  | Some (FPtr (Some v)), true => WOk [(field_key f, fmt_v v)]
  | _, _ => WBad
  end.

(* the query parameters one declared parameter contributes (GET / DELETE) *)
Definition param_writes (ms : mspec) (args : list (string * aval)) (pk : string * pkind) : wr :=
  let (p, k) := pk in
  match k with
  | KCtx | KMap _ | KOpaque _ => WOk []
  | KScalar ptr =>
      if mem_str p (map (resolve (s_alias ms)) (holes (s_toks ms))) then WOk []     (* travels in the path *)
      else
        match arg_get args p, ptr with
        | Some (AScalar v), false => WOk [(alias_or_name (s_alias ms) p, fmt_v v)]
        | Some (APtr None), true => WOk []
        | Some (APtr (Some v)), true => WOk [(alias_or_name (s_alias ms) p, fmt_v v)]
        | _, _ => WBad
        end
  | KStruct ptr fields =>
      match arg_get args p with
      | Some (AStruct ptr' (Some fs)) =>
          if Bool.eqb ptr ptr' then fold_left wr_app (map (field_write fs) fields) (WOk []) else WBad
      | Some (AStruct true None) => if ptr then (match fields with [] => WOk [] | _ => WPanic end) else WBad
      | _ => WBad
      end
  end.

Definition map_entries (ms : mspec) (args : list (string * aval)) : wr :=
  fold_left (fun acc pk =>
               match snd pk with
               | KMap _ => match arg_get args (fst pk) with
                           | Some (AMap es) => WOk (map (fun kv => (fst kv, fmt_v (snd kv))) (sigma_d es))   (* a later map replaces an earlier one *)
                           | _ => WBad
                           end
               | _ => acc
               end) (s_params ms) (WOk []).

(* all query writes: declared parameters in order, then the map entries; a later write to the
   same key replaces the earlier one (url.Values.Set) *)
Definition spec_writes (ms : mspec) (args : list (string * aval)) : wr :=
  wr_app (fold_left wr_app (map (param_writes ms args) (s_params ms)) (WOk [])) (map_entries ms args).
Definition set_all (q0 ws : list (string * string)) : list (string * string) :=
  fold_left (fun q kv => map_set q (fst kv) (snd kv)) ws q0.

Definition has_query_source (ms : mspec) : bool :=
  existsb (fun pk => match snd pk with
                     | KScalar _ => negb (mem_str (fst pk) (map (resolve (s_alias ms)) (holes (s_toks ms))))
                     | KStruct _ fs => match fs with [] => false | _ => true end
                     | KMap _ => true
                     | KCtx | KOpaque _ => false
                     end) (s_params ms).

Definition last_of_kind (p : pkind -> bool) (ps : list (string * pkind)) : option string :=
  fold_left (fun acc pk => if p (snd pk) then Some (fst pk) else acc) ps None.
Definition is_ctx k := match k with KCtx => true | _ => false end.
Definition is_struct k := match k with KStruct _ _ | KOpaque _ => true | _ => false end.   (* what the generator binds as the body *)
Definition is_map k := match k with KMap _ => true | _ => false end.

(* headers: the verb's defaults, overridden/extended by the interface directive, emitted in key order *)
Definition spec_headers (verb : string) (directive : list (string * string)) : list (string * string) :=
  sort_kv (fold_left (fun h kv => map_set h (fst kv) (snd kv)) directive (default_headers verb)).

Definition spec_request (ms : mspec) (hdr_directive : list (string * string)) (base : string)
           (args : list (string * aval)) : outcome :=
  match spec_path ms args with
  | None => OIllTyped
  | Some path_ =>
      match join_path base path_ with
      | None => OErr "join"
      | Some url_ =>
          let ctxr :=
            match last_of_kind is_ctx (s_params ms) with
            | None => inr None
            | Some p => match arg_get args p with
                        | Some (ACtx (Some c)) => inr (Some c)
                        | Some (ACtx None) => inl (OErr "nil context")
                        | _ => inl OIllTyped
                        end
            end in
          if body_verb (s_verb ms) then
            match last_of_kind is_struct (s_params ms) with
            | None => ONoCompile
            | Some p =>
                match arg_get args p with
                | None => OIllTyped
                | Some a =>
                    match json_marshal a with
                    | None => OErr "marshal"
                    | Some j =>
                        match ctxr with
                        | inl o => o
                        | inr ctx =>
                            OSent {| rq_verb := s_verb ms; rq_path := path_; rq_url := url_; rq_query := None;
                                     rq_headers := spec_headers (s_verb ms) hdr_directive;
                                     rq_body := Some j; rq_ctx := ctx |}
                        end
                    end
                end
            end
          else
            match ctxr with
            | inl o => o
            | inr ctx =>
                if has_query_source ms then
                  match spec_writes ms args with
                  | WPanic => OPanic
                  | WBad => OIllTyped
                  | WOk ws =>
                      OSent {| rq_verb := s_verb ms; rq_path := path_; rq_url := url_;
                               rq_query := Some (set_all (url_query url_) ws);
                               rq_headers := spec_headers (s_verb ms) hdr_directive;
                               rq_body := None; rq_ctx := ctx |}
                  end
                else
                  OSent {| rq_verb := s_verb ms; rq_path := path_; rq_url := url_; rq_query := None;
                           rq_headers := spec_headers (s_verb ms) hdr_directive;
                           rq_body := None; rq_ctx := ctx |}
            end
      end
  end.

End Std.

(* the headers= directives of an interface as one map (a later embedded interface overrides an
   earlier one) *)
Definition iface_directive (I : iface) : list (string * string) :=
  fold_left (fun h it => match it with
                         | IEmbed (Some doc) => fold_left (fun h' kv => map_set h' (fst kv) (snd kv)) (parse_headers doc) h
                         | _ => h
                         end) I [].

(* ----------------------------------------------------------------- guards *)
Definition no_char (x : ascii) (s : string) : bool := sall (fun c => negb (Ascii.eqb c x)) s.
Definition nonempty (s : string) : bool := negb (String.eqb s EmptyString).
Fixpoint nodup_str (l : list string) : bool :=
  match l with [] => true | x :: r => negb (mem_str x r) && nodup_str r end.
Definition count_kind (p : pkind -> bool) (ps : list (string * pkind)) : nat :=
  List.length (filter (fun pk => p (snd pk)) ps).
Definition kind_of_param (ms : mspec) (p : string) : option pkind :=
  match List.find (fun pk => String.eqb (fst pk) p) (s_params ms) with Some pk => Some (snd pk) | None => None end.

(* a method inside the region where the generator can satisfy the property:
   - placeholders are word-character names, literal path pieces carry no brace
   - parameter names are distinct identifiers (no dot; an unnamed or blank parameter is refused by the
     generator), alias sources and targets are distinct,
     alias names are non-empty and free of dots
   - every placeholder resolves to a plain (non-pointer) scalar parameter, and a placeholder that
     is nobody's alias is not itself renamed by the alias directive
   - at most one context, one struct, one map parameter (a second struct or a second query map
     is refused by the generator with a diagnostic); the map is not behind a pointer (open
     finding K_rest_ptr_map); a body verb has its struct parameter (refused otherwise)
   - field names (and the Go expressions reading them) are distinct and every field has a non-empty
     query name *)
Definition wf_tok (t : ptok) : bool :=
  match t with
  | PLit s => no_char "{" s
  | PHole n => nonempty n && sall is_word n
  end.
Definition wf_field (f : fspec) : bool := nonempty (field_key f) && nonempty (fi_name f).
Definition wf_kind (p : string) (k : pkind) : bool :=
  match k with
  | KStruct _ fs => forallb wf_field fs && nodup_str (map fi_name fs) && nodup_str (map (fun f => expr_key (fexpr p f)) fs)
  | KMap ptr => negb ptr
  | KOpaque _ => false
  | _ => true
  end.
Definition wf_mspec (ms : mspec) : bool :=
  forallb wf_tok (s_toks ms)
  && nodup_str (map fst (s_params ms))
  && forallb (fun pk => nonempty (fst pk) && negb (String.eqb (fst pk) "_") && no_char "." (fst pk) && wf_kind (fst pk) (snd pk)) (s_params ms)
  && nodup_str (map fst (s_alias ms)) && nodup_str (map snd (s_alias ms))
  && forallb (fun kv => nonempty (snd kv) && no_char "." (fst kv)) (s_alias ms)
  && forallb (fun h => match kind_of_param ms (resolve (s_alias ms) h) with Some (KScalar false) => true | _ => false end)
             (holes (s_toks ms))
  && forallb (fun h => negb (String.eqb (resolve (s_alias ms) h) h) || negb (mem_str h (map fst (s_alias ms))))
             (holes (s_toks ms))
  && Nat.leb (count_kind is_ctx (s_params ms)) 1
  && Nat.leb (count_kind is_struct (s_params ms)) 1
  && Nat.leb (count_kind is_map (s_params ms)) 1
  && (negb (body_verb (s_verb ms)) || Nat.eqb (count_kind is_struct (s_params ms)) 1)
  && (mem_str (s_verb ms) ["GET"; "POST"; "PUT"; "PATCH"; "DELETE"]).

(* argument values inside the region: they fit the declaration; the text of a path argument is path_text_safe
   (below), a pointer-to-struct argument of a GET/DELETE method is not nil (open
   finding K_rest_nil_struct_ptr) *)
Definition field_typed (fs : list (string * fval)) (f : fspec) : bool :=
  match field_get fs (fi_name f), fi_ptr f with
  | Some (FPlain _), false | Some (FPtr _), true => true
  | _, _ => false
  end.
Definition arg_typed (args : list (string * aval)) (pk : string * pkind) : bool :=
  match snd pk, arg_get args (fst pk) with
  | KCtx, Some (ACtx _) => true
  | KScalar false, Some (AScalar _) => true
  | KScalar true, Some (APtr _) => true
  | KStruct ptr fs, Some (AStruct ptr' (Some vs)) => Bool.eqb ptr ptr' && forallb (field_typed vs) fs
  | KStruct true _, Some (AStruct true None) => true
  | KMap _, Some (AMap _) => true
  | _, _ => false
  end.
(* every declared parameter has an argument of its kind *)
Definition args_typed (ms : mspec) (args : list (string * aval)) : bool := forallb (arg_typed args) (s_params ms).

(* the text of a path argument that the generated code carries to the wire unchanged: one non-empty
   path segment that is not a dot segment and contains no slash, no percent sign and no brace.  Everything
   else belongs to the open findings K_rest_path_percent (the text is not url.PathEscape'd: url.JoinPath
   unescapes, cleans or drops it) and K_rest_subst_rescan (a brace may be substituted again) *)
Definition path_text_safe (s : string) : bool :=
  nonempty s && no_char "/" s && no_char "%" s && no_char "{" s
  && negb (String.eqb s ".") && negb (String.eqb s "..").

Definition args_in_guard (fmt_v : sval -> string) (ms : mspec) (args : list (string * aval)) : bool :=
  args_typed ms args &&
  forallb (fun h => match arg_get args (resolve (s_alias ms) h) with
                    | Some (AScalar v) => path_text_safe (fmt_v v)
                    | _ => false
                    end) (holes (s_toks ms))
  && (body_verb (s_verb ms) ||
      forallb (fun pk => match snd pk, arg_get args (fst pk) with
                         | KStruct true _, Some (AStruct true None) => false
                         | _, _ => true
                         end) (s_params ms)).
