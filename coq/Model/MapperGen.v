(* C09, generator level: a decidable condition on the INPUTS of `shoot map`
   (declarations, jobs) under which every plan the analysis produces passes
   the safety check of Model/MapperSafe.v (proved in
   Proofs/MapperSafeGenProofs.v), so that "no nil dereference" becomes a
   statement about the generator model and not about a per-pair certificate.
   No proofs in this file. *)
From Coq Require Import String Ascii List Bool Arith ZArith.
From Shoot Require Import Base.Str Model.Transfer Model.MapVal Model.Mapper Model.MapperEval Model.MapperSafe.
Import ListNotations.
Local Open Scope string_scope.
Local Open Scope list_scope.

(* the plans of one job as the evaluator wants them *)
Definition tplans_of (jb : job) (a : analysis) : tplans :=
  {| tp_src := j_src jb; tp_dst := j_dst jb; tp_to := a_to a; tp_from := a_from a;
     tp_src_acc := j_src_acc jb; tp_dst_acc := j_dst_acc jb;
     tp_src_ptr := p_ptr (a_src_parsed a); tp_dst_ptr := p_ptr (a_dst_parsed a);
     tp_mapper_hop := j_mapper_hop jb |}.

(* the generated mappers of a run: one analysis per job ([sigma]: map iteration order) *)
Definition penv_of (sigma : oracle) (jobs : list job) : option penv :=
  fold_right (fun jb acc =>
                match acc, analyse sigma jb with
                | Some l, Some a => Some (tplans_of jb a :: l)
                | _, _ => None
                end) (Some []) jobs.

Fixpoint find_job (jobs : list job) (n : string) : option job :=
  match jobs with
  | [] => None
  | jb :: r => if String.eqb (j_src jb) n then Some jb else find_job r n
  end.

(* an embedded field is named after its type (Go's rule; the harness renders declarations so) *)
Definition emb_wf (e : env) : bool :=
  forallb (fun d => match snd d with
                    | DStruct fs => forallb (fun f => negb (sf_emb f) || String.eqb (sf_name f) (type_name (sf_ty f))) fs
                    | DBasic _ => true end) e.

(* the sub-struct pairs makeSubMap / makeSubListMap can claim for two field types *)
Definition sub_names (t1 t2 : ty) : option (string * string) :=
  match snd (strip_ptr t1), snd (strip_ptr t2) with
  | TNamed PSrc n1, TNamed PDst n2 => Some (n1, n2)
  | _, _ => None
  end.
Definition pair_subs (t1 t2 : ty) : list (string * string) :=
  (match sub_names t1 t2 with Some x => [x] | None => [] end)
  ++ match t1, t2 with
     | TSlice e1, TSlice e2 => match sub_names e1 e2 with Some x => [x] | None => [] end
     | _, _ => []
     end.

(* every sub-struct pair of two name-matching fields has its own job (else the
   generated code calls a method that is not generated: K_map_submap_nonstruct) *)
Definition sub_guard (jobs : list job) (jb : job) : bool :=
  match parse_fields (j_env jb) (j_fuel jb) PSrc (j_src jb) true,
        parse_fields (j_env jb) (j_fuel jb) PDst (j_dst jb) false with
  | Some ps, Some pd =>
      forallb (fun f1 =>
        forallb (fun f2 =>
          negb (can_name_match f1 f2 (p_tags ps) (j_ic jb))
          || forallb (fun nn => match find_job jobs (fst nn) with
                                | Some jb' => String.eqb (j_dst jb') (snd nn)
                                | None => false end)
                     (pair_subs (f_ty f1) (f_ty f2)))
          (exported_of (p_fields pd)))
        (exported_of (p_fields ps))
  | _, _ => false
  end.

(* one side: a struct; no field is named like an embedded struct (Field.CoveredBy
   compares last path components); zero values exist *)
Definition side_gen (e : env) (F : nat) (p : pkg) (n : string) : bool :=
  match lookup_decl e p n with
  | Some (DStruct fs) =>
      let LF := rleaves e (S F) fs in
      let HP := rhops e (S F) fs in
      forallb (fun l => forallb (fun h => negb (String.eqb (last (rl_path l) "") (last (fst h) ""))) HP) LF
      && forallb (fun h => zero_wf e (S F) (snd h)) HP
      && zero_wf e (S F) (TNamed p n)
  | _ => false
  end.

(* no accessors, no constructors; a mapper embedded by pointer with value-receiver
   methods (K_map_mapper_ptr_embedded) only when there is no mapper method at all
   (then no statement can call one) *)
Definition plain_gen (jb : job) : bool :=
  match j_src_acc jb, j_dst_acc jb, j_src_ctor jb, j_dst_ctor jb with
  | [], [], [], [] => match j_mapper_hop jb, j_funcs jb with
                      | None, _ => true
                      | Some _, [] => true
                      | Some _, _ :: _ => false
                      end
  | _, _, _, _ => false
  end.

Definition job_gen_guard (e : env) (F : nat) (jobs : list job) (jb : job) : bool :=
  plain_gen jb
  && forallb (fun fn => negb (String.eqb (mf_name fn) "")) (j_funcs jb)
  && side_gen e F PSrc (j_src jb) && side_gen e F PDst (j_dst jb)
  && sub_guard jobs jb.

Definition gen_guard (e : env) (F : nat) (jobs : list job) : bool :=
  env_ok e && emb_wf e && forallb (job_gen_guard e F jobs) jobs.
