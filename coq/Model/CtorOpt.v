(* Model of `shoot new -opt` (functional options): the data makeNew hands to the
   template (AllList, TypeMap, DefaultList, DefaultValueMap, Option, Short), the
   meaning of the emitted With / option functions / SetDefault
   (constructor.tmpl:42-75) and of the runtime shoot.NewWith (constructor.go).

   An option for field f is `func(t *T) { t.f = x }`: the assignment goes through
   Go's selector rule ([resolve]) and panics when a pointer on the way is nil.
   No proofs in this file. *)
From Coq Require Import String Ascii List Bool Arith ZArith.
From Shoot Require Import Base.Str Base.GoVal Model.Transfer Model.CtorDirective Model.Ctor Model.CtorSpec.
Import ListNotations.
Local Open Scope string_scope.

(* $TypeName of the template: the type name, followed by [names] for a generic type *)
Definition tmpl_type_name (sd : sdecl) (nd : new_data) : string :=
  match nd_tparams nd with
  | [] => sd_name sd
  | tps => sd_name sd ++ "[" ++ String.concat ", " (map fst tps) ++ "]"
  end.

(* name of the option function of a field *)
Definition opt_fn_name (short : bool) (tyname : string) (f : ident) : string :=
  if short then to_pascal_case f else to_pascal_case f ++ "Of" ++ tyname.

Record opt_data := {
  od_options : list (string * ident * string);   (* (function name, field, parameter type), AllList order *)
  od_defaults : list (ident * string);           (* SetDefault: (field, default text), DefaultList order *)
  od_has_default : bool                          (* {{if .DefaultList}}: SetDefault exists and With calls it *)
}.

Definition assoc_str (k : ident) (m : list (ident * string)) : string :=
  match assoc k m with Some s => s | None => "" end.

Definition make_opt (fl : ctor_flags) (sd : sdecl) (nd : new_data) : opt_data :=
  {| od_options := map (fun f => (opt_fn_name (fl_short fl) (tmpl_type_name sd nd) f, f, assoc_str f (nd_type_map nd)))
                       (nd_all nd);
     od_defaults := map (fun f => (f, assoc_str f (nd_def_map nd))) (nd_def_list nd);
     od_has_default := match nd_def_list nd with [] => false | _ => true end |}.

(* t.f = x  on a value of the struct type (or a pointer to it) *)
Definition assign (pkg : pkg_spec) (fuel : nat) (sd : sdecl) (v : val) (f : ident) (x : val) : res val :=
  match resolve pkg fuel sd f with
  | Some p => update v p x
  | None => Stuck
  end.

(* SetDefault: one assignment per DefaultList entry, in order *)
Fixpoint set_default (pkg : pkg_spec) (fuel : nat) (sd : sdecl) (defs : list (ident * string)) (v : val) : res val :=
  match defs with
  | [] => Ok v
  | (f, text) :: r => bind (assign pkg fuel sd v f (VDef text)) (set_default pkg fuel sd r)
  end.

(* an option value: the closure returned by <Field>Of<T>(x) *)
Inductive optv := OptV (f : ident) (x : val).

(* for _, opt := range opts { opt(t) } *)
Fixpoint apply_opts (pkg : pkg_spec) (fuel : nat) (sd : sdecl) (opts : list optv) (v : val) : res val :=
  match opts with
  | [] => Ok v
  | OptV f x :: r => bind (assign pkg fuel sd v f x) (apply_opts pkg fuel sd r)
  end.

(* func (t *T) With(opts ...) *T : SetDefault (when the type has defaults), then the options *)
Definition with_ (pkg : pkg_spec) (fuel : nat) (sd : sdecl) (od : opt_data) (v : val) (opts : list optv) : res val :=
  bind (if od_has_default od then set_default pkg fuel sd (od_defaults od) v else Ok v)
       (apply_opts pkg fuel sd opts).

(* shoot.NewWith: t := new(T); if t has a SetDefault method call it; then the options.
   [has_method]: whether *T has a method SetDefault (its own, or -- outside the
   guard -- one promoted from an embedded struct, finding K_opt_promoted_setdefault) *)
Definition new_with (pkg : pkg_spec) (fuel : nat) (sd : sdecl) (od : opt_data) (has_method : bool)
           (opts : list optv) : res val :=
  let t := VPtr (zero_struct pkg fuel (self_inst sd)) in
  bind (if has_method then set_default pkg fuel sd (od_defaults od) t else Ok t)
       (apply_opts pkg fuel sd opts).

(* the whole analysis for -opt *)
Definition opt_of (pkg : pkg_spec) (fl : ctor_flags) (fuel : nat) (sd : sdecl) : cres (new_data * opt_data) :=
  match new_of pkg fl fuel sd with
  | COk nd => COk (nd, make_opt fl sd nd)
  | CFatal m => CFatal m
  | COutOfFuel => COutOfFuel
  end.

(* ------------------------------------------------------------------ guards *)
(* no struct reached through embedding declares a default of its own: its generated
   SetDefault would be promoted to *T and called by NewWith but not by T.With *)
Definition decl_has_def (sd' : sdecl) : bool :=
  existsb (fun fd => negb (String.eqb (parse_def (fd_doc fd)) "") &&
                     existsb (fun n => negb (excluded_decl fd n)) (fd_names fd)) (sd_fields sd').
Definition no_promoted_setdefault (pkg : pkg_spec) (fuel : nat) (sd : sdecl) : bool :=
  forallb (fun o => if occ_emb o then match struct_of pkg (occ_ty o) with
                                      | Some (sd', _) => negb (decl_has_def sd')
                                      | None => true end
                    else true) (all_occ pkg fuel (self_inst sd)).

(* option function names are distinct exported identifiers *)
Definition opt_names_ok (short : bool) (pkg : pkg_spec) (fuel : nat) (sd : sdecl) : bool :=
  let ns := map (fun p => to_pascal_case (last p "")) (selectable_leaves pkg fuel sd) in
  nodup_str ns && forallb (fun n => negb (String.eqb n "")) ns.

Definition not_generic (sd : sdecl) : bool := match sd_tparams sd with [] => true | _ => false end.

Definition c13_guard (short : bool) (pkg : pkg_spec) (fuel : nat) (sd : sdecl) : bool :=
  c02_guard pkg fuel sd && not_generic sd && no_promoted_setdefault pkg fuel sd && opt_names_ok short pkg fuel sd.
