(* Model of `shoot new -opt` (functional options): the data makeNew hands to the
   template (AllList, TypeMap, DefaultList, DefaultValueMap, Option, Short), the
   meaning of the emitted With / option functions / SetDefault
   (constructor.tmpl:42-75) and of the runtime shoot.NewWith (constructor.go).

   An option for field f is `func(t *T) { t.f = x }`: the assignment goes through
   Go's selector rule ([resolve]) and panics when a pointer on the way is nil.
   No proofs in this file. *)
From Coq Require Import String Ascii List Bool Arith ZArith.
From Shoot Require Import Base.Str Base.GoVal Model.Transfer Model.CtorDirective Model.Ctor Model.CtorSpec.
Import ListNotations.
Local Open Scope string_scope.

(* $TypeName of the template: the type name, followed by [names] for a generic type *)
Definition tmpl_type_name (sd : sdecl) (nd : new_data) : string :=
  match nd_tparams nd with
  | [] => sd_name sd
  | tps => sd_name sd ++ "[" ++ String.concat ", " (map fst tps) ++ "]"
  end.

(* name of the option function of a field *)
Definition opt_fn_name (short : bool) (tyname : string) (f : ident) : string :=
  if short then to_pascal_case f else to_pascal_case f ++ "Of" ++ tyname.

Record opt_data := {
  od_options : list (string * ident * string);   (* (function name, field, parameter type), AllList order *)
  od_defaults : list (ident * string);           (* SetDefault: (field, default text), DefaultList order *)
  od_has_default : bool                          (* {{if .DefaultList}}: SetDefault exists and With calls it *)
}.

Definition assoc_str (k : ident) (m : list (ident * string)) : string :=
  match assoc k m with Some s => s | None => "" end.

Definition make_opt (fl : ctor_flags) (sd : sdecl) (nd : new_data) : opt_data :=
  {| od_options := map (fun f => (opt_fn_name (fl_short fl) (tmpl_type_name sd nd) f, f, assoc_str f (nd_type_map nd)))
                       (nd_all nd);
     od_defaults := map (fun f => (f, assoc_str f (nd_def_map nd))) (nd_def_list nd);
     od_has_default := match nd_def_list nd with [] => false | _ => true end |}.

(* t.f = x  on a value of the struct type (or a pointer to it) *)
Definition assign (pkg : pkg_spec) (fuel : nat) (sd : sdecl) (v : val) (f : ident) (x : val) : res val :=
  match resolve pkg fuel sd f with
  | Some p => update v p x
  | None => Stuck
  end.

(* SetDefault: one assignment per DefaultList entry, in order *)
Fixpoint set_default (pkg : pkg_spec) (fuel : nat) (sd : sdecl) (defs : list (ident * string)) (v : val) : res val :=
  match defs with
  | [] => Ok v
  | (f, text) :: r => bind (assign pkg fuel sd v f (VDef text)) (set_default pkg fuel sd r)
  end.

(* an option value: the closure returned by <Field>Of<T>(x) *)
Inductive optv := OptV (f : ident) (x : val).

(* for _, opt := range opts { opt(t) } *)
Fixpoint apply_opts (pkg : pkg_spec) (fuel : nat) (sd : sdecl) (opts : list optv) (v : val) : res val :=
  match opts with
  | [] => Ok v
  | OptV f x :: r => bind (assign pkg fuel sd v f x) (apply_opts pkg fuel sd r)
  end.

(* func (t *T) With(opts ...) *T : SetDefault (when the type has defaults), then the options *)
Definition with_ (pkg : pkg_spec) (fuel : nat) (sd : sdecl) (od : opt_data) (v : val) (opts : list optv) : res val :=
  bind (if od_has_default od then set_default pkg fuel sd (od_defaults od) v else Ok v)
       (apply_opts pkg fuel sd opts).

(* shoot.NewWith: t := new(T); if t has a SetDefault method call it; then the options.
   [has_method]: whether *T has a method SetDefault (its own, or -- outside the
   guard -- one promoted from an embedded struct, finding K_opt_promoted_setdefault) *)
Definition new_with (pkg : pkg_spec) (fuel : nat) (sd : sdecl) (od : opt_data) (has_method : bool)
           (opts : list optv) : res val :=
  let t := VPtr (zero_struct pkg fuel (self_inst sd)) in
  bind (if has_method then set_default pkg fuel sd (od_defaults od) t else Ok t)
       (apply_opts pkg fuel sd opts).

(* the whole analysis for -opt *)
Definition opt_of (pkg : pkg_spec) (fl : ctor_flags) (fuel : nat) (sd : sdecl) : cres (new_data * opt_data) :=
  match new_of pkg fl fuel sd with
  | COk nd => COk (nd, make_opt fl sd nd)
  | CFatal m => CFatal m
  | COutOfFuel => COutOfFuel
  end.

(* ------------------------------------------------ the method set of *T: SetDefault *)
(* the struct has a default of its own: its generated file declares SetDefault (when it is a
   struct of the package under generation, generated with -opt like every selected type) *)
Definition decl_has_def (sd' : sdecl) : bool :=
  existsb (fun fd => negb (String.eqb (parse_def (fd_doc fd)) "") &&
                     existsb (fun n => negb (excluded_decl fd n)) (fd_names fd)) (sd_fields sd').
Definition own_setdefault (sd' : sdecl) : bool := String.eqb (sd_pkg sd') "" && decl_has_def sd'.

(* the embedded structs at embedding depth k that declare SetDefault, with their paths *)
Definition setdefault_candidates (pkg : pkg_spec) (si : sinst) (k : nat) : list (path * sdecl) :=
  flat_map (fun o => if occ_emb o then match struct_of pkg (occ_ty o) with
                                      | Some (sd', _) => if own_setdefault sd' then [(fst o, sd')] else []
                                      | None => [] end
                    else []) (level pkg k si []).

(* Go's method promotion (the selector rule applied to the method name SetDefault): the
   shallowest depth that has a candidate decides; more than one there = no such method *)
Fixpoint promoted_setdefault (pkg : pkg_spec) (si : sinst) (k fuel : nat) : option (path * sdecl) :=
  match fuel with
  | O => None
  | S fuel' => match setdefault_candidates pkg si k with
               | [] => promoted_setdefault pkg si (S k) fuel'
               | [c] => Some c
               | _ => None
               end
  end.

(* which SetDefault the type assertion any(t).(defaulter) of NewWith finds on *T:
   T's own, else the promoted one; with the path of the receiver inside T *)
Definition setdefault_target (pkg : pkg_spec) (fuel : nat) (sd : sdecl) : option (path * sdecl) :=
  if own_setdefault sd then Some ([], sd) else promoted_setdefault pkg (self_inst sd) 0 fuel.

(* running the SetDefault of the struct sd' on the part of the value found at path pre *)
Fixpoint set_default_at (pkg : pkg_spec) (fuel : nat) (sd' : sdecl) (pre : path) (defs : list (ident * string))
         (v : val) : res val :=
  match defs with
  | [] => Ok v
  | (f, text) :: r =>
      match resolve pkg fuel sd' f with
      | Some p => bind (update v (pre ++ p)%list (VDef text)) (set_default_at pkg fuel sd' pre r)
      | None => Stuck
      end
  end.

(* shoot.NewWith as the runtime executes it: new(T); the SetDefault found in *T's method set, if
   any (for a promoted one: the embedded struct's own default list, assigned inside the embedded
   value); then the options *)
Definition new_with_real (pkg : pkg_spec) (fl : ctor_flags) (fuel : nat) (sd : sdecl) (opts : list optv) : res val :=
  let t := VPtr (zero_struct pkg fuel (self_inst sd)) in
  bind (match setdefault_target pkg fuel sd with
        | None => Ok t
        | Some (pre, sd') =>
            match new_of pkg fl fuel sd' with
            | COk nd' => set_default_at pkg fuel sd' pre (od_defaults (make_opt fl sd' nd')) t
            | _ => Stuck
            end
        end)
       (apply_opts pkg fuel sd opts).

(* ------------------------------------------------------------------ guards *)
(* no struct reached through embedding declares a default of its own: its generated
   SetDefault would be promoted to *T and called by NewWith but not by T.With *)
Definition no_promoted_setdefault (pkg : pkg_spec) (fuel : nat) (sd : sdecl) : bool :=
  forallb (fun o => if occ_emb o then match struct_of pkg (occ_ty o) with
                                      | Some (sd', _) => negb (decl_has_def sd')
                                      | None => true end
                    else true) (all_occ pkg fuel (self_inst sd)).

(* option function names are distinct non-empty identifiers; with -short they are bare
   Pascal-cased field names, so they must also be distinct across the structs of the package
   and from the type and constructor names (K_opt_short_collision) *)
Definition opt_names_of (pkg : pkg_spec) (fuel : nat) (sd' : sdecl) : list string :=
  map (fun p => to_pascal_case (last p "")) (filter (fun q => negb (excluded_top sd' q)) (selectable_leaves pkg fuel sd')).
Definition opt_names_ok (short : bool) (pkg : pkg_spec) (fuel : nat) (sd : sdecl) : bool :=
  let ns := opt_names_of pkg fuel sd in
  nodup_str ns && forallb (fun n => negb (String.eqb n "")) ns &&
  (negb short ||
   let locals := filter (fun sd' => String.eqb (sd_pkg sd') "") pkg in
   nodup_str (flat_map (fun sd' => sd_name sd' :: ("New" ++ sd_name sd') :: opt_names_of pkg fuel sd') locals)).

Definition not_generic (sd : sdecl) : bool := match sd_tparams sd with [] => true | _ => false end.

(* every field of the struct reaches the constructor's field list: an excluded field (_ prefix,
   new:"-") gets no option function (finding K_opt_excluded_field) *)
Definition no_excluded_own (sd : sdecl) : bool := struct_clean sd.

Definition c13_guard (short : bool) (pkg : pkg_spec) (fuel : nat) (sd : sdecl) : bool :=
  c02_guard pkg fuel sd && not_generic sd && no_promoted_setdefault pkg fuel sd && opt_names_ok short pkg fuel sd &&
  no_excluded_own sd && String.eqb (sd_pkg sd) "".
