(* Hand-written equivalents of the directive / struct-tag regular expressions of
   /repo/internal/constructor/fields.go, on ASCII text.  The patterns (written
   here with <ws> for the white-space class and <nw> for the non-word class,
   because the regex text cannot be quoted inside a Coq comment):

     parseNewComment       flags i,m   ^shoot: any-lazy <nw> new     ( ; any | <ws>-star ) $
     parseGetSetComment    the same with get, and with set
     parseGetterSetterDoc  the same with getter, and with setter
     parseDefComment       flags i,m   ^shoot: any-lazy <nw> def (ault)? = (not ; or newline)+ ( ; any | <ws>-star ) $
     parseJSONTag          json: quote (non-quotes, captured) quote     anywhere in the raw tag
     parseNewTag           new:  quote (non-quotes, captured) quote     anywhere in the raw tag

   RE2 itself is not modelled.  Reading of the patterns: flag m makes ^ and $ match
   at line boundaries (newline), the dot does not match a newline, so a match lives
   inside one line; the line must start with shoot: (any case); somewhere at index
   >= 6 there is a non-word byte followed by the keyword (any case), and the
   rest of the line is either empty / white space or starts with a semicolon.
   Equivalence with the Go functions is tested on every run by the L1 probe
   (harness/ctordirective_l1.py), including a malformed stream.  No proofs here. *)
From Coq Require Import String Ascii List Bool Arith.
From Shoot Require Import Base.Str.
Import ListNotations.
Local Open Scope string_scope.

Definition is_word_c (c : ascii) : bool :=
  is_upper c || is_lower c || is_digit c || Ascii.eqb c "_"%char.

(* the white-space class of RE2: tab, newline, form feed, carriage return, space *)
Definition is_re_space (c : ascii) : bool :=
  let n := code c in
  Nat.eqb n 9 || Nat.eqb n 10 || Nat.eqb n 12 || Nat.eqb n 13 || Nat.eqb n 32.

(* unicode.IsSpace on ASCII (strings.TrimSpace): bytes 9..13 and space *)
Definition is_go_space (c : ascii) : bool :=
  let n := code c in
  (Nat.leb 9 n && Nat.leb n 13) || Nat.eqb n 32.

Fixpoint prefix_fold (p s : list ascii) : bool :=
  match p, s with
  | [], _ => true
  | a :: p', b :: s' => Ascii.eqb (to_lower_c a) (to_lower_c b) && prefix_fold p' s'
  | _ :: _, [] => false
  end.

Fixpoint prefix_exact (p s : list ascii) : bool :=
  match p, s with
  | [], _ => true
  | a :: p', b :: s' => Ascii.eqb a b && prefix_exact p' s'
  | _ :: _, [] => false
  end.

(* the tail alternative: a semicolon and anything, or only white space, up to the end of the line *)
Definition tail_ok (t : list ascii) : bool :=
  match t with
  | c :: _ => Ascii.eqb c ";"%char || forallb is_re_space t
  | [] => true
  end.

(* some non-word byte, then the keyword, then the tail alternative *)
Fixpoint scan_word (word : list ascii) (l : list ascii) : bool :=
  match l with
  | [] => false
  | c :: r =>
      (negb (is_word_c c) && prefix_fold word r && tail_ok (skipn (length word) r))
      || scan_word word r
  end.

Definition shoot_prefix : list ascii := list_of_string "shoot:".

Definition line_has (word : string) (line : string) : bool :=
  let l := list_of_string line in
  prefix_fold shoot_prefix l && scan_word (list_of_string word) (skipn 6 l).

Definition doc_lines (doc : string) : list string := split_c "010"%char doc.

Definition doc_has (word : string) (doc : string) : bool :=
  existsb (line_has word) (doc_lines doc).

Definition parse_new_comment (doc : string) : bool := doc_has "new" doc.
Definition parse_getset_comment (doc : string) : bool * bool := (doc_has "get" doc, doc_has "set" doc).
Definition parse_getter_setter_doc (doc : string) : bool * bool := (doc_has "getter" doc, doc_has "setter" doc).

(* ---- def= / default= ---- *)
Fixpoint take_until_semi (l : list ascii) : list ascii :=
  match l with
  | [] => []
  | c :: r => if Ascii.eqb c ";"%char then [] else c :: take_until_semi r
  end.

(* after the bytes d,e,f: optional a,u,l,t then = then a non-empty value up to a semicolon; returns the value *)
Definition def_value_at (r : list ascii) : option (list ascii) :=
  let after :=
    if prefix_fold (list_of_string "ault=") r then Some (skipn 5 r)
    else if prefix_exact ["="%char] r then Some (skipn 1 r)
    else None in
  match after with
  | None => None
  | Some v => match take_until_semi v with [] => None | x => Some x end
  end.

Fixpoint scan_def (l : list ascii) : option (list ascii) :=
  match l with
  | [] => None
  | c :: r =>
      if negb (is_word_c c) && prefix_fold (list_of_string "def") r then
        match def_value_at (skipn 3 r) with
        | Some v => Some v
        | None => scan_def r
        end
      else scan_def r
  end.

Definition line_def (line : string) : option string :=
  let l := list_of_string line in
  if prefix_fold shoot_prefix l then option_map string_of_list (scan_def (skipn 6 l)) else None.

Fixpoint first_some {A B} (f : A -> option B) (l : list A) : option B :=
  match l with
  | [] => None
  | x :: r => match f x with Some y => Some y | None => first_some f r end
  end.

(* parseDefComment: (value, ok) *)
Definition parse_def_comment (doc : string) : option string := first_some line_def (doc_lines doc).

Fixpoint drop_while (p : ascii -> bool) (l : list ascii) : list ascii :=
  match l with
  | [] => []
  | c :: r => if p c then drop_while p r else l
  end.

Definition trim_space (s : string) : string :=
  string_of_list (rev (drop_while is_go_space (rev (drop_while is_go_space (list_of_string s))))).

(* parseDef: the trimmed value, "" when there is no directive *)
Definition parse_def (doc : string) : string :=
  match parse_def_comment doc with Some v => trim_space v | None => "" end.

(* ---- struct tags: key, colon, quote, non-quotes, quote, anywhere in the raw tag literal ---- *)
Fixpoint take_until_quote (l : list ascii) : option (list ascii) :=
  match l with
  | [] => None
  | c :: r => if Ascii.eqb c (ascii_of_nat 34) then Some []
              else option_map (cons c) (take_until_quote r)
  end.

Fixpoint scan_tag (key : list ascii) (l : list ascii) : option (list ascii) :=
  match l with
  | [] => None
  | c :: r =>
      if prefix_exact key l then
        match take_until_quote (skipn (length key) l) with
        | Some v => Some v
        | None => scan_tag key r
        end
      else scan_tag key r
  end.

Definition parse_tag (key : string) (tag : string) : string :=
  match scan_tag (list_of_string key ++ [":"%char; ascii_of_nat 34]) (list_of_string tag) with
  | Some v => string_of_list v
  | None => ""
  end.

Definition parse_json_tag (tag : string) : string := parse_tag "json" tag.
Definition parse_new_tag (tag : string) : string := parse_tag "new" tag.
