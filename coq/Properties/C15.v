(* C15  map through accessors/constructors equals plain field mapping.

   The model of `shoot map` (Model/Mapper.v) treats a shoot-new side literally:
   accessor pseudo-fields appended after the plain fields (compatlize),
   constructor parameters matched first (makeCtorMatch: assignment, conversion,
   mapper method; zero value otherwise), their names pre-marked in the
   write-once sets, then the two passes.  Model/MapperSpec15.v is the
   declarative reading: an unexported field x takes part as Pascal(x), readable
   through its getter, writable through its setter or constructor parameter,
   and receives what C05 prescribes.

   Theorems below hold for all jobs (any accessor/constructor tables); guards:
   acc_guard (accessor names distinct from each other and from the exported
   fields: Go enforces it) and fn_names_ok (mapper methods have non-empty names). *)
From Coq Require Import String List ZArith Bool.
From Shoot Require Import Base.Str Model.Transfer Model.MapVal Model.Mapper Model.MapperEval Model.MapperSpec
     Model.MapperSpec15
     Proofs.MapperProofs Proofs.MapperPlanProofs Proofs.MapperFlattenProofs Proofs.MapperAnalyseProofs
     Proofs.MapperCtorProofs
     Corr.MapperCorr Proofs.MapperExamples Proofs.MapperExampleProofs.
Import ListNotations.
Local Open Scope string_scope.
Local Open Scope list_scope.

(* ---- "every settable field not covered by the constructor is set exactly once":
   (a) the statements of ToX / FromX (plain assignments and setter calls alike)
   have pairwise distinct destinations ... *)
Theorem C15_set_at_most_once : forall sigma jb a,
  analyse sigma jb = Some a -> acc_guard jb ->
  NoDup (map (fun st => r_name (st_dst st)) (pl_stmts (a_to a)))
  /\ NoDup (map (fun st => r_name (st_dst st)) (pl_stmts (a_from a))).
Proof. exact analyse_write_once. Qed.
Print Assumptions C15_set_at_most_once.

(* ... (b) and none of them is a field the constructor call already received a
   mapped value for (nor one a manual method assigns) *)
Theorem C15_not_covered_by_ctor : forall sigma jb a pr,
  analyse sigma jb = Some a -> prepare jb = Some pr -> acc_guard jb -> fn_names_ok jb ->
  (forall st, In st (pl_stmts (a_to a)) -> s_has (s_wdst (pr_s0 pr)) (r_name (st_dst st)) = false)
  /\ (forall st, In st (pl_stmts (a_from a)) -> s_has (s_wsrc (pr_s0 pr)) (r_name (st_dst st)) = false)
  /\ (forall p, In p (pr_dctor pr) -> f_target p <> None -> s_has (s_wdst (pr_s0 pr)) (f_name p) = true)
  /\ (forall p, In p (pr_sctor pr) -> f_target p <> None -> s_has (s_wsrc (pr_s0 pr)) (f_name p) = true).
Proof. exact analyse_ctor_disjoint. Qed.
Print Assumptions C15_not_covered_by_ctor.

(* ---- "each constructor argument is the mapped source value or the zero value
   of its type": the constructor call of ToX has exactly one argument per
   parameter, in order; each is the zero value of the parameter's type or the
   value of a name-matching readable field of the other side under an
   applicable strategy (assignment / conversion / mapper method) *)
Theorem C15_ctor_args_to : forall sigma jb a args,
  analyse sigma jb = Some a -> acc_guard jb -> fn_names_ok jb -> pl_ctor (a_to a) = Some args ->
  map fst args = map cp_path (j_dst_ctor jb)
  /\ Forall2 (fun arg c =>
       snd arg = CZero (cp_ty c)
       \/ exists sf h, snd arg = CVal (ref_of sf) h /\ In sf (s_src (a_state a)) /\ f_isset sf = false
                       /\ can_name_match sf (ctor_field c) (p_tags (a_src_parsed a)) (j_ic jb) = true
                       /\ ctor_applicable (j_env jb) (j_funcs jb) (f_ty sf) (cp_ty c) h)
     args (j_dst_ctor jb).
Proof. exact analyse_ctor_args_to. Qed.
Print Assumptions C15_ctor_args_to.

(* ... and the same for the constructor call of FromX (`*s = *NewS(...)`): one
   argument per parameter of the SOURCE type's constructor, in order, each the
   zero value or the value of a name-matching readable field of the destination
   side.  Name matching uses NO tag map in this direction (makeCtorMatch passes
   nil: open finding K_map_ctor_from_tag), which is why the statement has []. *)
Theorem C15_ctor_args_from : forall sigma jb a args,
  analyse sigma jb = Some a -> acc_guard jb -> fn_names_ok jb -> pl_ctor (a_from a) = Some args ->
  map fst args = map cp_path (j_src_ctor jb)
  /\ Forall2 (fun arg c =>
       snd arg = CZero (cp_ty c)
       \/ exists df h, snd arg = CVal (ref_of df) h /\ In df (s_dst (a_state a)) /\ f_isset df = false
                       /\ can_name_match df (ctor_field c) [] (j_ic jb) = true
                       /\ ctor_applicable (j_env jb) (j_funcs jb) (f_ty df) (cp_ty c) h)
     args (j_src_ctor jb).
Proof. exact analyse_ctor_args_from. Qed.
Print Assumptions C15_ctor_args_from.

(* FromX writes through setters / plain fields soundly, as ToX does *)
Theorem C15_sound_from : forall sigma jb a,
  analyse sigma jb = Some a -> acc_guard jb ->
  forall st, In st (pl_stmts (a_from a)) ->
  exists sf df, In sf (s_src (a_state a)) /\ In df (s_dst (a_state a))
                /\ st_src st = ref_of df /\ st_dst st = ref_of sf
                /\ can_name_match sf df (p_tags (a_src_parsed a)) (j_ic jb) = true
                /\ applicable (j_env jb) (j_funcs jb) false df sf (st_how st).
Proof. exact analyse_sound_from. Qed.
Print Assumptions C15_sound_from.

(* ---- reading through getters / writing through setters is sound as in C05 *)
Theorem C15_sound_to : forall sigma jb a,
  analyse sigma jb = Some a -> acc_guard jb ->
  forall st, In st (pl_stmts (a_to a)) ->
  exists sf df, In sf (s_src (a_state a)) /\ In df (s_dst (a_state a))
                /\ st_src st = ref_of sf /\ st_dst st = ref_of df
                /\ can_name_match sf df (p_tags (a_src_parsed a)) (j_ic jb) = true
                /\ applicable (j_env jb) (j_funcs jb) true sf df (st_how st).
Proof. exact analyse_sound_to. Qed.
Print Assumptions C15_sound_to.

(* ---- Examples.  ex6: the destination is a shoot-new type with a constructor over
   all five fields, count get-only, in with a setter: guard holds; the plan passes
   ID/Name/int64(Count)/zero/F0(Amount) to NewT and calls SetIn once; the values
   that arrive equal those of the plain rendering ex6p (field for field) and the
   declarative reading. *)
Example C15_example_guard : pair_guard15 (ps_env ex6) (ps_fuel ex6) (ps_jobs ex6) = true.
Proof. exact ex6_guard. Qed.

Example C15_example_plan :
  option_map (fun a => (pl_ctor (a_to a), summary (a_to a))) (analyse id_oracle (job_of ex6 "T")) =
  Some (Some [(["id"], CVal {| r_name := "ID"; r_path := ["ID"]; r_acc := false |} SAssign);
              (["name"], CVal {| r_name := "Name"; r_path := ["Name"]; r_acc := false |} SAssign);
              (["count"], CVal {| r_name := "Count"; r_path := ["Count"]; r_acc := false |} (SConv (TBasic BInt32) (TBasic BInt64)));
              (["in"], CZero (TNamed PDst "Inner"));
              (["amount"], CVal {| r_name := "Amount"; r_path := ["Amount"]; r_acc := false |} (SFunc "F0"))],
        [("SetIn", "In", SMap false false "Inner" "Inner", [])]).
Proof. exact ex6_plan. Qed.

Example C15_example_equals_plain :
  run_to ex6 (VPtr ex6_v) =
    Ok (VPtr (VStruct [("id", VInt 7); ("name", VStr "n"); ("count", VInt (-3));
                       ("in", VStruct [("A", VInt 4); ("B", VInt 0)]); ("amount", VInt 5)]))
  /\ run_to ex6p (VPtr ex6_v) =
    Ok (VPtr (VStruct [("Id", VInt 7); ("Name", VStr "n"); ("Count", VInt (-3));
                       ("In", VStruct [("A", VInt 4); ("B", VInt 0)]); ("Amount", VInt 5)]))
  /\ want15_to ex6 (VPtr ex6_v) = out_opt (run_to ex6 (VPtr ex6_v)).
Proof. exact ex6_values. Qed.

(* ---- refutation witnesses of two open findings: the constructor prefers a
   conversion to the user's mapper method (K_map_ctor_priority) and never maps a
   sub-struct, so a constructor-only struct field stays zero (K_map_ctor_no_submap) *)
Theorem C15_refuted_K_map_ctor_priority_and_no_submap :
  run_to ex7 (VPtr ex7_v) = Ok (VPtr (VStruct [("a", VInt 1); ("in", VStruct [("A", VInt 0); ("B", VInt 0)])]))
  /\ want15_to ex7 (VPtr ex7_v) = Some (VPtr (VStruct [("a", VInt 6); ("in", VStruct [("A", VInt 4); ("B", VInt 0)])]))
  /\ pair_guard15 (ps_env ex7) (ps_fuel ex7) (ps_jobs ex7) = false.
Proof. exact ex7_ctor_findings. Qed.
Print Assumptions C15_refuted_K_map_ctor_priority_and_no_submap.

(* ---- with two mapper methods of one signature the constructor argument uses the
   LAST (makeCtorMatch keeps looping), the passes the FIRST: open finding K_map_ctor_func_last *)
Theorem C15_refuted_K_map_ctor_func_last :
  run_to ex8 (VPtr ex8_v) = Ok (VPtr (VStruct [("ratio", VInt 9)]))
  /\ want15_to ex8 (VPtr ex8_v) = Some (VPtr (VStruct [("ratio", VInt 3)]))
  /\ pair_guard15 (ps_env ex8) (ps_fuel ex8) (ps_jobs ex8) = false.
Proof. exact ex8_func_last. Qed.
Print Assumptions C15_refuted_K_map_ctor_func_last.
