(* C14  enum -bit: Has/Add/Remove are set algebra on the flag bits; String()
   lists the set flags.

   has x f = (x & f == f), add x f = x | f, remove x f = x &^ f  on Z (two's
   complement, unbounded width).  That Go's fixed-width & | &^ compute these
   numbers is an assumption about Go (C14_ops_stay_in_range only shows that the Z
   results are values of the kind again); the run ties it to the code on
   [0, 2^(top+2)) x flags exhaustively and on operands of the whole kind, negative
   and sign-bit ones included (o_bitpairs).
   The String() theorems quantify over every package of the grammar with ANY
   number of flags and ANY bit positions (no bound on width): proofs go through
   Z.testbit / Z.bits_inj', by induction over the ascending value table.
   Notation as in Properties/C04.v. *)
From Coq Require Import List ZArith Bool String Sorted.
From Shoot Require Import Model.Enum Proofs.EnumBits Proofs.EnumTables Proofs.EnumProofs Corr.EnumCorr Proofs.EnumPb.
Import ListNotations.
Local Open Scope string_scope.
Local Open Scope Z_scope.

(* split conjunctions only (never an equation), then compute each part *)
Ltac conj := repeat match goal with |- _ /\ _ => split end.

(* after Add(f), Has(f) *)
Theorem C14_has_after_add : forall x f, has (add x f) f = true.
Proof. exact has_add. Qed.
Print Assumptions C14_has_after_add.

(* after Remove(f), not Has(f) -- for a non-zero f (Has(0) is always true) *)
Theorem C14_not_has_after_remove : forall x f, f <> 0 -> has (remove x f) f = false.
Proof. exact has_remove. Qed.
Print Assumptions C14_not_has_after_remove.

(* bits outside f are untouched by Add and Remove; bits inside f are set / cleared *)
Theorem C14_add_touches_only_f : forall x f i,
  (Z.testbit f i = false -> Z.testbit (add x f) i = Z.testbit x i)
  /\ (Z.testbit f i = true -> Z.testbit (add x f) i = true).
Proof. intros x f i. exact (conj (add_outside_bits x f i) (add_inside_bits x f i)). Qed.
Print Assumptions C14_add_touches_only_f.

Theorem C14_remove_touches_only_f : forall x f i,
  (Z.testbit f i = false -> Z.testbit (remove x f) i = Z.testbit x i)
  /\ (Z.testbit f i = true -> Z.testbit (remove x f) i = false).
Proof. intros x f i. exact (conj (remove_outside_bits x f i) (remove_inside_bits x f i)). Qed.
Print Assumptions C14_remove_touches_only_f.

(* the same, as equations on the part of the value outside f *)
Theorem C14_outside_f_unchanged : forall x f,
  Z.ldiff (add x f) f = Z.ldiff x f /\ Z.ldiff (remove x f) f = Z.ldiff x f
  /\ Z.land (remove x f) f = 0.
Proof. intros x f. exact (conj (add_outside x f) (conj (remove_outside x f) (land_remove_0 x f))). Qed.
Print Assumptions C14_outside_f_unchanged.

(* Has is bit inclusion *)
Theorem C14_has_is_inclusion : forall x f,
  has x f = true <-> (forall i, 0 <= i -> Z.testbit f i = true -> Z.testbit x i = true).
Proof. exact has_spec. Qed.
Print Assumptions C14_has_is_inclusion.

(* fixed width: on values of an integer kind the operations yield values of the kind *)
Theorem C14_ops_stay_in_range : forall k x f,
  in_range k x = true -> in_range k f = true ->
  in_range k (add x f) = true /\ in_range k (remove x f) = true /\ in_range k (Z.land x f) = true.
Proof.
  intros k x f Hx Hf.
  exact (conj (add_in_range k x f Hx Hf) (conj (remove_in_range k x f Hx Hf) (land_in_range k x f Hx Hf))).
Qed.
Print Assumptions C14_ops_stay_in_range.

(* K_bit_map (open, golden-locked): as generated on this tree, EVERY -bit output
   references the undefined table _<t>_map and does not compile.  All String()
   theorems below are therefore about the output with the one documented repair
   `_<t>_map[` -> `_<t>_string_map[` (compiles ... false), which does compile. *)
Theorem C14_refuted_K_bit_map : forall p T fl g,
  generate p T fl = Some g -> f_bit fl = true -> compiles (const_env p) g true = false.
Proof.
  intros p T fl g Hgen Hbit. destruct (generate_inv p T fl g Hgen) as [k [_ [Hg _]]]. subst g.
  unfold compiles. cbn [g_flags make_str]. rewrite Hbit. cbn. apply andb_false_r.
Qed.
Print Assumptions C14_refuted_K_bit_map.

Theorem C14_repaired_output_compiles : forall p T fl g,
  enum_guard p T = true -> generate p T fl = Some g ->
  compiles (const_env p) g false = true.
Proof. exact P_fresh_output_compiles. Qed.
Print Assumptions C14_repaired_output_compiles.

(* String() of a declared value is its (trimmed, first declared) name, also under -bit *)
Theorem C14_string_of_declared : forall p T fl g n v,
  enum_guard p T = true -> generate p T fl = Some g -> In (n, v) (declared T p) ->
  exists n1, first_name (declared T p) v = Some n1 /\ str_of (const_env p) g v = trim_prefix n1 T.
Proof.
  intros p T fl g n v Hgd Hgen Hin.
  destruct (proj2 (P_constant_to_name_and_back p T fl g n v Hgd Hgen Hin)) as [n1 [Hf [_ [Hs _]]]].
  exists n1. exact (conj Hf Hs).
Qed.
Print Assumptions C14_string_of_declared.

(* String() of a union of declared single-bit flags that is not itself declared:
   the flags' names in ascending flag order joined by ", ".
   S = the flags (any number, ascending), names = their (first) declared names.
   Other declared values (a zero, composites) may be present in any number. *)
Theorem C14_string_of_union : forall p T fl g (names : list string) (S : list Z),
  enum_guard p T = true -> generate p T fl = Some g -> f_bit fl = true ->
  Forall (fun v => 0 <= v) (map snd (declared T p)) ->
  S <> [] -> StronglySorted Z.lt S -> Forall single_bit S ->
  Forall2 (fun n s => first_name (declared T p) s = Some n) names S ->
  ~ In (lor_all S) (map snd (declared T p)) ->
  str_of (const_env p) g (lor_all S) = join ", " (map (fun n => trim_prefix n T) names).
Proof. exact P_bit_string_union. Qed.
Print Assumptions C14_string_of_union.

(* anything else -- negative, an undeclared zero, or a value with a bit that is
   no declared flag -- prints in decimal.  bits_declared = the grammar of
   bit-flag enums: non-negative values, every bit of every declared value
   (composites!) is itself a declared flag *)
Theorem C14_string_of_other_is_decimal : forall p T fl g x,
  enum_guard p T = true -> generate p T fl = Some g ->
  bits_declared (map snd (declared T p)) ->
  ~ In x (map snd (declared T p)) ->
  (x < 0 \/ x = 0 \/ exists i, 0 <= i /\ Z.testbit x i = true /\ ~ In (2 ^ i) (map snd (declared T p))) ->
  str_of (const_env p) g x = dec x.
Proof. exact P_bit_string_other. Qed.
Print Assumptions C14_string_of_other_is_decimal.

(* the three cases are exhaustive: every integer is declared, or a union of
   declared single-bit flags, or "anything else" as above *)
Theorem C14_string_cases_exhaustive : forall p T fl g x,
  enum_guard p T = true -> generate p T fl = Some g ->
  bits_declared (map snd (declared T p)) ->
  In x (map snd (declared T p))
  \/ x < 0 \/ x = 0
  \/ (exists names S, S <> [] /\ StronglySorted Z.lt S /\ Forall single_bit S /\
                      Forall2 (fun n s => first_name (declared T p) s = Some n) names S /\ x = lor_all S)
  \/ (exists i, 0 <= i /\ Z.testbit x i = true /\ ~ In (2 ^ i) (map snd (declared T p))).
Proof. exact P_bit_cases. Qed.
Print Assumptions C14_string_cases_exhaustive.

(* the decidable form of the grammar guard *)
Theorem C14_bits_declared_decidable : forall vals, bits_declared_b vals = true <-> bits_declared vals.
Proof. exact bits_declared_b_spec. Qed.
Print Assumptions C14_bits_declared_decidable.

Theorem C14_single_bit_decidable : forall f, is_single f = true <-> single_bit f.
Proof. exact is_single_spec. Qed.
Print Assumptions C14_single_bit_decidable.

(* the boolean property evaluated on the implementation's observation
   (EnumCorr.Pb14: String() over the exhaustive range against the declarative
   specification "declared -> name; all bits declared -> names ascending joined
   by ', '; else decimal", Has/Add/Remove algebra on every (value, flag) pair) is
   implied by the theorems: the model's own observation satisfies it inside the
   guard, for any range, any flag list, any window *)
Theorem C14_checked_property_follows : forall (c : case) (o : obs),
  enum_guard (c_pkg c) (c_type c) = true ->
  f_bit (c_flags c) = true ->
  Pb14 c (model_obs c o) = true.
Proof. exact Pb14_model_in_guard. Qed.
Print Assumptions C14_checked_property_follows.

Theorem C14_checked_property_follows_without_bit : forall (c : case) (o : obs),
  enum_guard (c_pkg c) (c_type c) = true -> f_bit (c_flags c) = false ->
  Pb14 c (model_obs c o) = true.
Proof. exact Pb14_model_nobit. Qed.
Print Assumptions C14_checked_property_follows_without_bit.

(* ------------------------------------------------------------- non-vacuity *)
Definition vs (names : list string) (ty : vtype) (vals : list cexpr) : vspec :=
  {| vs_names := names; vs_type := ty; vs_vals := vals |}.

(* zero value, four single bits via 1<<(iota-1) with a gap (bit 3 unused, bit 6
   explicit), two composites of declared bits, declared out of order *)
Definition ex_pkg : pkg :=
  {| p_types := [("Perm", KUint8)];
     p_files :=
       [ [ [ vs ["PermNone"] (TIdent "Perm") [ELit 0];
             vs ["PermRead"] (TIdent "Perm") [EShl (ELit 1) (ESub EIota (ELit 1))];
             vs ["PermWrite"] TNone [];
             vs ["PermExec"] TNone [];
             vs ["PermRW"] (TIdent "Perm") [EOr (ERef "PermRead") (ERef "PermWrite")];
             vs ["Sticky"] (TIdent "Perm") [ELit 64];
             vs ["PermAll"] (TIdent "Perm") [ELit 71] ] ] ] |}.

Definition bit_flags : flags := {| f_bit := true; f_json := false; f_text := false; f_sql := false; f_gorm := false |}.

Example C14_example_guard :
  enum_guard ex_pkg "Perm" = true
  /\ bits_declared_b (map snd (declared "Perm" ex_pkg)) = true
  /\ declared "Perm" ex_pkg =
       [("PermNone", 0); ("PermRead", 1); ("PermWrite", 2); ("PermExec", 4); ("PermRW", 3); ("Sticky", 64); ("PermAll", 71)].
Proof. conj; vm_compute; reflexivity. Qed.

(* S = {Read, Exec, Sticky}: union 69 is not declared *)
Example C14_example_union_hypotheses :
  StronglySorted Z.lt [1; 4; 64] /\ Forall single_bit [1; 4; 64]
  /\ Forall2 (fun n s => first_name (declared "Perm" ex_pkg) s = Some n) ["PermRead"; "PermExec"; "Sticky"] [1; 4; 64]
  /\ ~ In (lor_all [1; 4; 64]) (map snd (declared "Perm" ex_pkg)).
Proof.
  repeat split.
  - repeat constructor.
  - repeat constructor; [exists 0 | exists 2 | exists 6]; split; reflexivity || (cbn; discriminate) || (apply Z.leb_le; reflexivity).
  - repeat (apply Forall2_cons; [vm_compute; reflexivity|]). apply Forall2_nil.
  - vm_compute. intuition discriminate.
Qed.

Example C14_example_strings :
  exists g, generate ex_pkg "Perm" bit_flags = Some g
    /\ map (str_of (const_env ex_pkg) g) [0; 3; 5; 69; 7; 71; 8; 72; 128; -1]
       = ["None"; "RW"; "Read, Exec"; "Read, Exec, Sticky"; "Read, Write, Exec"; "All"; "8"; "72"; "128"; "-1"].
Proof. eexists. conj; vm_compute; reflexivity. Qed.

(* ------------------------------------ K_bit_receiver_shadow (repaired in /repo) ---- *)
(* The receiver of the generated methods is the lower-cased first letter of the
   type name; the -bit String() used to call its working copy <receiver>_ while
   its loop declares i_ and v_: a type named V... compiled with a wrong String()
   (String(A|B) = "3", String(0) = "A, B, C"), a type named I... did not compile.
   The working copy is now <receiver>x_ for those receivers; such types behave
   like any other (they are inside the guard, no naming hypothesis is left). *)
Definition vis_pkg : pkg :=
  {| p_types := [("Vis", KUint8); ("IOMode", KUint8)];
     p_files := [ [ [ vs ["VisA"] (TIdent "Vis") [EShl (ELit 1) EIota];
                      vs ["VisB"] TNone []; vs ["VisC"] TNone [] ];
                    [ vs ["IOModeR"] (TIdent "IOMode") [EShl (ELit 1) EIota];
                      vs ["IOModeW"] TNone [] ] ] ] |}.

Example C14_example_K_bit_receiver_shadow_repaired :
  enum_guard vis_pkg "Vis" = true /\ enum_guard vis_pkg "IOMode" = true
  /\ (exists g, generate vis_pkg "Vis" bit_flags = Some g
        /\ compiles (const_env vis_pkg) g false = true
        /\ map (str_of (const_env vis_pkg) g) [0; 1; 2; 3; 7] = ["0"; "A"; "B"; "A, B"; "A, B, C"])
  /\ (exists g, generate vis_pkg "IOMode" bit_flags = Some g
        /\ compiles (const_env vis_pkg) g false = true
        /\ str_of (const_env vis_pkg) g 3 = "R, W").
Proof.
  split; [vm_compute; reflexivity|]. split; [vm_compute; reflexivity|]. split.
  - eexists. conj; vm_compute; reflexivity.
  - eexists. conj; vm_compute; reflexivity.
Qed.
