(* C10 rest: status codes and bodies map to results and errors as documented.

   "A generated client method returns a nil error exactly for 2xx responses,
    decoding the JSON body into the declared result (an empty body gives the
    zero value); 4xx yields a `client error`, 5xx a `server error`, both
    quoting status and body, any other status a `not supported` error, and a
    transport failure is returned unchanged.  Whenever a response was received
    it is returned next to the error, and the result is nil or zero on every
    error path."

   All theorems are about [method_returns decode bv rs o] (Model/RestHandle.v):
   the literal transcription of the Results part of cookClient applied to the
   declared result list [rs], followed by the semantics of the template's
   method tail, for an arbitrary behaviour [decode] of encoding/json, an
   arbitrary status in Z, an arbitrary body, and an arbitrary failure.
   Hypothesis:  wf_results rs  (identifiers of the type expressions are
   non-empty: true of every parsed Go file).  [rs] is the result list as
   go/ast has it (a field may declare several names); cook.go judges it by its
   list of values, [values rs]:  sig_accepted rs = accepted (values rs),
   sig_result rs = declared_result (values rs).  The former guards
   single_names / no_array_result are gone: both defects (K_rest_array_result,
   K_rest_multi_name_result) were repaired in /repo (9fecf90, 5bf1aba).

   This file contains only statements closed by [exact] of a lemma from
   Proofs/, each followed by Print Assumptions. *)
From Coq Require Import List ZArith Bool String.
From Shoot Require Import Model.RestHandle Proofs.RestHandleProofs
                          Corr.RestHandleCorr Proofs.RestHandleCorrProofs.
Import ListNotations.
Local Open Scope string_scope.
Local Open Scope Z_scope.

(* ---- which signatures get a client at all (cook.go:135-171, 307-322) ---- *)

(* shoot generates a method exactly for the value lists `*http.Response, error` and
   `R, *http.Response, error` with R unnamed and of the form *T, []T or map[K]V
   ([sig_accepted]); everything else -- including [n]T and every list with a
   multi-name field -- is a fatal error.  Result NAMES of a two-value list do not
   matter: the generated method declares its results without them (9d2e9e9) *)
Theorem C10_method_exists_iff_signature_accepted :
  forall V X (decode : string -> body X -> dec_out V X) bv rs o,
  wf_results rs = true -> scenario_ok bv o = true ->
  ((exists res, method_returns decode bv rs o = inr (Some res)) <-> sig_accepted rs).
Proof. exact sg_exists_iff. Qed.
Print Assumptions C10_method_exists_iff_signature_accepted.

Theorem C10_rejected_signature_is_fatal :
  forall V X (decode : string -> body X -> dec_out V X) bv rs o,
  ~ sig_accepted rs -> exists f, method_returns decode bv rs o = inl f.
Proof. exact sg_rejected. Qed.
Print Assumptions C10_rejected_signature_is_fatal.

(* the only scenario without an answer: json.Marshal failing in a method that sends no body *)
Theorem C10_marshal_failure_needs_a_body_verb :
  forall V X (decode : string -> body X -> dec_out V X) rs x,
  wf_results rs = true -> sig_accepted rs ->
  method_returns decode false rs (OFail StMarshal x) = inr None.
Proof. exact sg_impossible_scenario. Qed.
Print Assumptions C10_marshal_failure_needs_a_body_verb.

(* what the template receives is the signature-level description of the result *)
Theorem C10_cook_results_characterised : forall rs c,
  cook_results rs = inr c <->
  sig_accepted rs /\ ck_nils c = (declared_arity rs - 1)%nat /\
  ck_result c = match sig_result rs with Some rr => rr | None => ("", false) end.
Proof. exact sg_cook_results. Qed.
Print Assumptions C10_cook_results_characterised.

(* ---- the whole behaviour in one equation: the literal pipeline equals the
   declarative account [spec_returns] (status classes as ranges, the declared
   result read off the signature) ---- *)
Theorem C10_method_refines_spec :
  forall V X (decode : string -> body X -> dec_out V X) bv rs o,
  wf_results rs = true -> sig_accepted rs -> scenario_ok bv o = true ->
  no_both X o = true ->    (* excluded: Do returning a response AND an error, open finding K_rest_redirect_response_dropped *)
  method_returns decode bv rs o
  = inr (Some (spec_returns V X decode (values rs) o, spec_events X (values rs) o)).
Proof. exact sg_refines_spec. Qed.
Print Assumptions C10_method_refines_spec.

(* the returned tuple reads as (result?, response, error); a result position
   exists exactly when the signature declares one *)
Theorem C10_return_shape :
  forall V X (decode : string -> body X -> dec_out V X) bv rs o slots ev,
  wf_results rs = true -> method_returns decode bv rs o = inr (Some (slots, ev)) ->
  exists rv, view slots = Some rv /\ (rv_result rv = None <-> sig_result rs = None).
Proof. exact sg_view. Qed.
Print Assumptions C10_return_shape.

(* ---- nil error exactly for 2xx whose body decodes ---- *)
Theorem C10_nil_error_iff_2xx_and_body_decodes :
  forall V X (decode : string -> body X -> dec_out V X) bv rs o slots ev rv,
  wf_results rs = true -> method_returns decode bv rs o = inr (Some (slots, ev)) -> view slots = Some rv ->
  (rv_err rv = SNil <->
   exists r, o = OResp r /\ 200 <= r_status r < 300 /\
     match sig_result rs with
     | None => True                                  (* no result: nothing to decode *)
     | Some (ty, _) => forall x, snd (decode ty (r_body r)) <> Some (DOther x)
                                                     (* Decode returned nil or io.EOF *)
     end).
Proof. exact sg_nil_error_iff. Qed.
Print Assumptions C10_nil_error_iff_2xx_and_body_decodes.

(* 2xx, body decoded: the decoded value is the result (its address when the
   result is declared as a pointer), next to the response and a nil error *)
Theorem C10_2xx_returns_decoded_value :
  forall V X (decode : string -> body X -> dec_out V X) bv rs r ty p v de slots ev,
  wf_results rs = true -> method_returns decode bv rs (OResp r) = inr (Some (slots, ev)) ->
  200 <= r_status r < 300 -> sig_result rs = Some (ty, p) ->
  decode ty (r_body r) = (v, de) -> (forall x, de <> Some (DOther x)) ->
  slots = [if p then SAddr v else SVal v; SResp r; SNil].
Proof. exact sg_success. Qed.
Print Assumptions C10_2xx_returns_decoded_value.

Theorem C10_2xx_without_result :
  forall V X (decode : string -> body X -> dec_out V X) bv rs r slots ev,
  wf_results rs = true -> method_returns decode bv rs (OResp r) = inr (Some (slots, ev)) ->
  200 <= r_status r < 300 -> sig_result rs = None ->
  slots = [SResp r; SNil].
Proof. exact sg_success_no_result. Qed.
Print Assumptions C10_2xx_without_result.

(* "an empty body gives the zero value": what is PROVED is the template's part -- io.EOF from
   Decode is turned into success and r_ is returned as Decode left it.  That encoding/json answers
   an empty stream with io.EOF and leaves r_ at its zero value is the hypothesis (the model knows
   nothing about V); it is MEASURED on every case of the correspondence run (law_ok, verdict 3), not
   proved.  The same holds for "malformed / wrong-typed JSON is an error": [decode] is a parameter,
   its answers are measured per case (C10_2xx_decode_error is conditional on them). *)
Theorem C10_empty_body_gives_zero_value :
  forall V X (decode : string -> body X -> dec_out V X) (zero : string -> V) bv rs r ty p slots ev,
  (forall t, decode t {| b_data := ""; b_fault := None |} = (zero t, Some DEof)) ->
  wf_results rs = true -> method_returns decode bv rs (OResp r) = inr (Some (slots, ev)) ->
  200 <= r_status r < 300 -> sig_result rs = Some (ty, p) ->
  r_body r = {| b_data := ""; b_fault := None |} ->
  slots = [if p then SAddr (zero ty) else SVal (zero ty); SResp r; SNil].
Proof. exact sg_empty_body. Qed.
Print Assumptions C10_empty_body_gives_zero_value.

(* 2xx whose body does not decode: json's error unchanged, nil result, the response *)
Theorem C10_2xx_decode_error :
  forall V X (decode : string -> body X -> dec_out V X) bv rs r ty p v x slots ev,
  wf_results rs = true -> method_returns decode bv rs (OResp r) = inr (Some (slots, ev)) ->
  200 <= r_status r < 300 -> sig_result rs = Some (ty, p) ->
  decode ty (r_body r) = (v, Some (DOther x)) ->
  slots = [SNil; SResp r; SErr (EForeign x)].
Proof. exact sg_decode_error. Qed.
Print Assumptions C10_2xx_decode_error.

(* ---- the three error classes, for EVERY status in Z ---- *)
Theorem C10_4xx_client_error :
  forall V X (decode : string -> body X -> dec_out V X) bv rs r slots ev rv,
  wf_results rs = true -> method_returns decode bv rs (OResp r) = inr (Some (slots, ev)) -> view slots = Some rv ->
  400 <= r_status r < 500 ->
  rv_err rv = SErr (EText ("client error " ++ dec (r_status r) ++ ": " ++ b_data (r_body r))) /\
  rv_resp rv = SResp r /\ (rv_result rv = None \/ rv_result rv = Some SNil).
Proof. exact sg_client_error. Qed.
Print Assumptions C10_4xx_client_error.

Theorem C10_5xx_server_error :
  forall V X (decode : string -> body X -> dec_out V X) bv rs r slots ev rv,
  wf_results rs = true -> method_returns decode bv rs (OResp r) = inr (Some (slots, ev)) -> view slots = Some rv ->
  500 <= r_status r < 600 ->
  rv_err rv = SErr (EText ("server error " ++ dec (r_status r) ++ ": " ++ b_data (r_body r))) /\
  rv_resp rv = SResp r /\ (rv_result rv = None \/ rv_result rv = Some SNil).
Proof. exact sg_5xx_server_error. Qed.
Print Assumptions C10_5xx_server_error.

(* DIVERGENCE from the property text, outside its quantifier (200..599): the text says "5xx
   a server error, any other status a not supported error"; the code (`>= 500`) reports every
   status of 600 and above as a server error as well (600..999 can arrive over the wire) *)
Theorem C10_status_600_and_above_is_reported_as_server_error :
  forall V X (decode : string -> body X -> dec_out V X) bv rs r slots ev rv,
  wf_results rs = true -> method_returns decode bv rs (OResp r) = inr (Some (slots, ev)) -> view slots = Some rv ->
  600 <= r_status r ->
  rv_err rv = SErr (EText ("server error " ++ dec (r_status r) ++ ": " ++ b_data (r_body r))) /\
  rv_resp rv = SResp r /\ (rv_result rv = None \/ rv_result rv = Some SNil).
Proof. exact sg_600_and_above_server_error. Qed.
Print Assumptions C10_status_600_and_above_is_reported_as_server_error.

Theorem C10_other_status_not_supported :
  forall V X (decode : string -> body X -> dec_out V X) bv rs r slots ev rv,
  wf_results rs = true -> method_returns decode bv rs (OResp r) = inr (Some (slots, ev)) -> view slots = Some rv ->
  r_status r < 200 \/ 300 <= r_status r < 400 ->
  rv_err rv = SErr (EText ("not supported error " ++ dec (r_status r))) /\
  rv_resp rv = SResp r /\ (rv_result rv = None \/ rv_result rv = Some SNil).
Proof. exact sg_unsupported. Qed.
Print Assumptions C10_other_status_not_supported.

(* the four classes of the CODE (success 200..299, client 400..499, server >= 500 -- i.e. 5xx and
   everything above, see the divergence noted above --, not supported: the rest) cover Z and
   are pairwise disjoint *)
Theorem C10_status_classes_partition : forall s : Z,
  (200 <= s < 300 /\ ~ 400 <= s < 500 /\ ~ 500 <= s /\ ~ (s < 200 \/ 300 <= s < 400)) \/
  (400 <= s < 500 /\ ~ 200 <= s < 300 /\ ~ 500 <= s /\ ~ (s < 200 \/ 300 <= s < 400)) \/
  (500 <= s /\ ~ 200 <= s < 300 /\ ~ 400 <= s < 500 /\ ~ (s < 200 \/ 300 <= s < 400)) \/
  ((s < 200 \/ 300 <= s < 400) /\ ~ 200 <= s < 300 /\ ~ 400 <= s < 500 /\ ~ 500 <= s).
Proof. exact status_classes_partition. Qed.
Print Assumptions C10_status_classes_partition.

(* "quoting status and body": the message determines both *)
Theorem C10_error_text_quotes_status_and_body : forall (kind : string) s s' b b',
  kind ++ dec s ++ ": " ++ b = kind ++ dec s' ++ ": " ++ b' -> s = s' /\ b = b'.
Proof. exact quoted_text_injective. Qed.
Print Assumptions C10_error_text_quotes_status_and_body.

Theorem C10_not_supported_text_quotes_status : forall s s',
  "not supported error " ++ dec s = "not supported error " ++ dec s' -> s = s'.
Proof. exact unsupported_text_injective. Qed.
Print Assumptions C10_not_supported_text_quotes_status.

(* dec is fmt's %d: reading the digits back gives the number *)
Theorem C10_dec_roundtrip : forall z, undec (dec z) = z.
Proof. exact undec_dec. Qed.
Print Assumptions C10_dec_roundtrip.

(* ---- failures before a response exists (url.JoinPath, json.Marshal,
   http.NewRequest[WithContext], and the transport failure reported by
   http.Client.Do): the error is returned unchanged, everything else is nil ---- *)
Theorem C10_failure_returned_unchanged :
  forall V X (decode : string -> body X -> dec_out V X) bv rs st x slots ev,
  wf_results rs = true -> method_returns decode bv rs (OFail st x) = inr (Some (slots, ev)) ->
  slots = (repeat SNil (declared_arity rs - 1) ++ [SErr (EForeign x)])%list /\ ev = [] /\
  forall rv, view slots = Some rv ->
    rv_err rv = SErr (EForeign x) /\ rv_resp rv = SNil /\ (rv_result rv = None \/ rv_result rv = Some SNil).
Proof. exact sg_failure. Qed.
Print Assumptions C10_failure_returned_unchanged.

(* ---- whenever a response was received it is returned (error or not): proved for every
   response that Do returns with a nil error.  net/http returns a response TOGETHER with an error
   in one situation, a failed redirect chain (CheckRedirect; by default the 10th redirect): there
   the property text is violated, see C10_refuted_K_rest_redirect_response_dropped ---- *)
Theorem C10_response_always_returned :
  forall V X (decode : string -> body X -> dec_out V X) bv rs r slots ev rv,
  wf_results rs = true -> method_returns decode bv rs (OResp r) = inr (Some (slots, ev)) -> view slots = Some rv ->
  rv_resp rv = SResp r.
Proof. exact sg_response_always. Qed.
Print Assumptions C10_response_always_returned.

(* open finding K_rest_redirect_response_dropped (restclient.tmpl:94-97, golden-locked): for EVERY
   accepted signature, when Do returns (response, error) the method returns as if only the error
   had come back -- the received response is dropped *)
Theorem C10_refuted_K_rest_redirect_response_dropped :
  forall V X (decode : string -> body X -> dec_out V X) bv rs r x,
  wf_results rs = true -> sig_accepted rs ->
  exists slots, method_returns decode bv rs (OBoth r x) = inr (Some (slots, [])) /\
    forall rv, view slots = Some rv -> rv_resp rv = SNil /\ rv_err rv = SErr (EForeign x).
Proof. exact sg_redirect_response_dropped. Qed.
Print Assumptions C10_refuted_K_rest_redirect_response_dropped.

Theorem C10_response_with_error_is_handled_like_the_error_alone :
  forall V X (decode : string -> body X -> dec_out V X) bv rs r x,
  method_returns decode bv rs (OBoth r x) = method_returns decode bv rs (OFail StDo x).
Proof. exact sg_both_is_fail. Qed.
Print Assumptions C10_response_with_error_is_handled_like_the_error_alone.

(* ---- the result is nil on EVERY error path ---- *)
Theorem C10_result_nil_on_every_error_path :
  forall V X (decode : string -> body X -> dec_out V X) bv rs o slots ev rv,
  wf_results rs = true -> method_returns decode bv rs o = inr (Some (slots, ev)) -> view slots = Some rv ->
  rv_err rv <> SNil -> rv_result rv = None \/ rv_result rv = Some SNil.
Proof. exact sg_error_nil_result. Qed.
Print Assumptions C10_result_nil_on_every_error_path.

(* ---- arity (cook.go: ErrReturnMap) and nil-ability of the result type ---- *)
Theorem C10_returns_declared_number_of_values :
  forall V X (decode : string -> body X -> dec_out V X) bv rs o slots ev,
  wf_results rs = true ->
  method_returns decode bv rs o = inr (Some (slots, ev)) ->
  List.length slots = declared_arity rs.
Proof. exact sg_arity. Qed.
Print Assumptions C10_returns_declared_number_of_values.

(* (by definition of the accepted shapes: *T, []T, map[K]V are exactly the nil-able ones; that the
   generated `return nil, ...` type-checks is shown by the go build of the correspondence run) *)
Theorem C10_nil_is_a_value_of_the_result_type : forall rs,
  sig_accepted rs -> result_type_nilable (values rs) = true.
Proof. exact sg_nilable. Qed.
Print Assumptions C10_nil_is_a_value_of_the_result_type.

(* K_rest_array_result (fixed in 9fecf90): an array result [n]T is refused with
   its own diagnostic; nil, returned by every error exit, is not a value of it *)
Theorem C10_array_result_is_refused : forall r a b,
  print (f_type a) = "*http.Response" -> print (f_type b) = "error" -> f_names r = [] ->
  is_array (f_type r) = true ->
  cook_values [r; a; b] = inl (FArray (print (f_type r))).
Proof. exact cook_values_array. Qed.
Print Assumptions C10_array_result_is_refused.

(* K_rest_multi_name_result (fixed in 5bf1aba): a result list is judged by its
   VALUES; `a, b T` counts twice, and no list with such a field is accepted *)
Theorem C10_arity_counts_values : forall rs, declared_arity rs = List.length (values rs).
Proof. exact declared_arity_values. Qed.
Print Assumptions C10_arity_counts_values.

Theorem C10_multi_name_results_never_accepted : forall rs,
  single_names rs = false -> ~ sig_accepted rs.
Proof. exact multi_name_never_accepted. Qed.
Print Assumptions C10_multi_name_results_never_accepted.

(* without multi-name fields the value list is the result list itself *)
Theorem C10_values_of_single_name_list : forall rs, single_names rs = true -> values rs = rs.
Proof. exact values_single. Qed.
Print Assumptions C10_values_of_single_name_list.

(* ---- the response body is closed exactly once, last, on every path that
   received a response (defer resp_.Body.Close()); not part of the property
   text, compared by the correspondence ---- *)
Theorem C10_body_closed_exactly_once :
  forall V X (decode : string -> body X -> dec_out V X) bv rs r slots ev,
  wf_results rs = true -> method_returns decode bv rs (OResp r) = inr (Some (slots, ev)) ->
  exists pre, ev = (pre ++ [BClose])%list /\ ~ In BClose pre.
Proof. exact sg_body_closed_once. Qed.
Print Assumptions C10_body_closed_exactly_once.

(* ---- the oracle of the correspondence: the boolean property [Pb], evaluated
   on what the implementation did, is satisfied by the model on every case ---- *)
Theorem C10_model_satisfies_boolean_property : forall c o,
  wf_results (c_results c) = true -> no_both nat (c_out c) = true ->
  law_ok c = true -> model_obs c = Some o -> Pb (with_obs c o) = true.
Proof. exact model_satisfies_Pb. Qed.
Print Assumptions C10_model_satisfies_boolean_property.

(* [Pb c] is "the four observables the property speaks about (arity, result,
   response, error) are the expected ones", where [expected] is computed from
   the declared signature, the scenario and the measured json behaviour alone;
   the model's observation is that expected one on every case ... *)
Theorem C10_model_observation_is_expected : forall c m,
  wf_results (c_results c) = true -> no_both nat (c_out c) = true ->
  law_ok c = true -> model_obs c = Some m -> pobs_of m = expected c.
Proof. exact model_obs_is_expected. Qed.
Print Assumptions C10_model_observation_is_expected.

(* ... hence an implementation observation satisfies the boolean property iff
   it agrees with the model on these observables (a "differs but the property
   holds" verdict can only come from the body events read / Close) *)
Theorem C10_boolean_property_iff_agreement_with_model : forall c m,
  wf_results (c_results c) = true -> no_both nat (c_out c) = true ->
  law_ok c = true -> model_obs c = Some m ->
  (Pb c = true <-> pobs_of (c_obs c) = pobs_of m).
Proof. exact Pb_iff_agrees_with_model. Qed.
Print Assumptions C10_boolean_property_iff_agreement_with_model.

(* ------------------------------------------------------------------ *)
(* non-vacuity: concrete inputs meeting the hypotheses                  *)

Definition ex_ptr : list field :=
  [{| f_names := []; f_type := TStar (TIdent "User") |}; resp_field; err_field].
Definition ex_slice : list field :=
  [{| f_names := []; f_type := TArray None (TIdent "User") |}; resp_field; err_field].
Definition ex_map : list field :=
  [{| f_names := []; f_type := TMap (TIdent "string") (TIdent "int") |}; resp_field; err_field].
Definition ex_none : list field :=
  [{| f_names := ["resp"]; f_type := TStar (TSel "http" "Response") |}; {| f_names := ["err"]; f_type := TIdent "error" |}].

Example C10_example_signatures_accepted :
  sig_accepted ex_ptr /\ sig_accepted ex_slice /\ sig_accepted ex_map /\ sig_accepted ex_none /\
  wf_results ex_ptr = true /\ single_names ex_none = true /\
  declared_result ex_ptr = Some ("User", true) /\ declared_result ex_slice = Some ("[]User", false) /\
  declared_result ex_map = Some ("map[string]int", false) /\ declared_result ex_none = None.
Proof. repeat split; reflexivity. Qed.

(* a toy decoder: "{}" decodes to value 7, "" is io.EOF (value 0), anything else is error 9 *)
Definition ex_decode (_ : string) (b : body nat) : dec_out nat nat :=
  if String.eqb (b_data b) "{}" then (7%nat, None)
  else if String.eqb (b_data b) "" then (0%nat, Some DEof)
  else (0%nat, Some (DOther 9%nat)).
Definition ex_resp (s : Z) (b : string) : response nat :=
  {| r_id := 1; r_status := s; r_body := {| b_data := b; b_fault := None |} |}.

Example C10_example_runs :
  method_returns ex_decode false ex_ptr (OResp (ex_resp 200 "{}"))
    = inr (Some ([SAddr 7%nat; SResp (ex_resp 200 "{}"); SNil], [BDecode; BClose])) /\
  method_returns ex_decode false ex_slice (OResp (ex_resp 204 ""))
    = inr (Some ([SVal 0%nat; SResp (ex_resp 204 ""); SNil], [BDecode; BClose])) /\
  method_returns ex_decode false ex_map (OResp (ex_resp 299 "oops"))
    = inr (Some ([SNil; SResp (ex_resp 299 "oops"); SErr (EForeign 9%nat)], [BDecode; BClose])) /\
  method_returns ex_decode false ex_ptr (OResp (ex_resp 404 "gone"))
    = inr (Some ([SNil; SResp (ex_resp 404 "gone"); SErr (EText "client error 404: gone")], [BReadAll; BClose])) /\
  method_returns ex_decode false ex_none (OResp (ex_resp 500 "boom"))
    = inr (Some ([SResp (ex_resp 500 "boom"); SErr (EText "server error 500: boom")], [BReadAll; BClose])) /\
  method_returns ex_decode false ex_map (OResp (ex_resp 304 "{}"))
    = inr (Some ([SNil; SResp (ex_resp 304 "{}"); SErr (EText "not supported error 304")], [BClose])) /\
  method_returns ex_decode false ex_ptr (OResp (ex_resp (-1) "{}"))
    = inr (Some ([SNil; SResp (ex_resp (-1) "{}"); SErr (EText "not supported error -1")], [BClose])) /\
  method_returns ex_decode false ex_ptr (OFail StDo 5%nat)
    = inr (Some ([SNil; SNil; SErr (EForeign 5%nat)], [])) /\
  method_returns ex_decode true [{| f_names := []; f_type := TIdent "User" |}; resp_field; err_field] (OFail StDo 5%nat)
    = inl (FUnsupported "*ast.Ident").
Proof. repeat split; vm_compute; reflexivity. Qed.

Example C10_example_dec : dec 0 = "0" /\ dec 404 = "404" /\ dec (-17) = "-17" /\ dec 9223372036854775807 = "9223372036854775807".
Proof. repeat split; vm_compute; reflexivity. Qed.

(* the abstract Go rendered for the results `*User, *http.Response, error` on a body verb *)
Example C10_example_emitted_program :
  exists c, cook_results ex_ptr = inr c /\
  emit c true =
    [GCall StJoinPath [XNil; XNil; XErr]; GCall StMarshal [XNil; XNil; XErr];
     GCall StNewRequest [XNil; XNil; XErr]; GCall StDo [XNil; XNil; XErr];
     GDeferClose; GStatusSwitch;
     GIfErrReturn [XNil; XResp; XErr];
     GDecode "User"; GIgnoreEOF;
     GIfErrReturn [XNil; XResp; XErr];
     GReturn [XAddrVar; XResp; XNil]].
Proof. eexists; split; reflexivity. Qed.

(* a concrete correspondence case meeting the hypotheses of the two theorems about [Pb] *)
Definition ex_case : case :=
  {| c_body_verb := false; c_results := ex_ptr;
     c_out := OResp {| r_id := 1; r_status := 404; r_body := {| b_data := "gone"; b_fault := None |} |};
     c_zero := {| v_json := "{}"; v_nil := false |};
     c_dec := ({| v_json := "{}"; v_nil := false |}, Some (DOther 2%nat));
     c_obs := {| ob_nout := 3; ob_res := Some ONil; ob_resp := RSame; ob_err := EMsg "client error 404: gone";
                 ob_read := true; ob_closed := 1 |} |}.
Example C10_example_case :
  wf_results (c_results ex_case) = true /\ no_both nat (c_out ex_case) = true /\ law_ok ex_case = true /\
  model_obs ex_case = Some (c_obs ex_case) /\ Pb ex_case = true /\ verdict ex_case = 0%N.
Proof. repeat split; vm_compute; reflexivity. Qed.

(* the witnesses of the two repaired defects, as the current code treats them *)
Example C10_example_repaired_witnesses :
  cook_results array_witness = inl (FArray "[2]int") /\
  single_names multi_name_witness = false /\ declared_arity multi_name_witness = 3%nat /\
  cook_results multi_name_witness = inl FNamed /\
  cook_results [{| f_names := ["a"; "b"]; f_type := TStar (TSel "http" "Response") |}] = inl FNotError /\
  cook_results [{| f_names := ["r"]; f_type := TStar (TSel "http" "Response") |};
                {| f_names := ["e1"; "e2"]; f_type := TIdent "error" |}] = inl FNotResponse /\
  (* a pointer to an array is still a fine result *)
  sig_accepted [{| f_names := []; f_type := TStar (TArray (Some "2") (TIdent "int")) |}; resp_field; err_field].
Proof. repeat split; reflexivity. Qed.

(* the witness of K_rest_redirect_response_dropped: the oracle rejects what the code does *)
Definition ex_redirect_case : case :=
  {| c_body_verb := false; c_results := ex_ptr;
     c_out := OBoth {| r_id := 1; r_status := 302; r_body := {| b_data := ""; b_fault := None |} |} 1%nat;
     c_zero := {| v_json := "{}"; v_nil := false |};
     c_dec := ({| v_json := "{}"; v_nil := false |}, None);
     c_obs := {| ob_nout := 3; ob_res := Some ONil; ob_resp := RNil; ob_err := ESame 1;
                 ob_read := false; ob_closed := 0 |} |}.
Example C10_example_redirect_case :
  model_obs ex_redirect_case = Some (c_obs ex_redirect_case) /\ Pb ex_redirect_case = false /\
  p_resp (expected ex_redirect_case) = RSame.
Proof. repeat split; vm_compute; reflexivity. Qed.
