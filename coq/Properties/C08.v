(* C08: a type's output is independent of the other types in the same run.
   Model: Model/Gen.v (the Generate loop of internal/shoot/generatorbase.go threading the long-lived generator
   object and the package view = hand-written files + generated files on disk + overlay; MakeData of the four
   generators with every per-type state component; MergeSources at declaration level).
   Only statements here; proofs in Proofs/GenProofs.v, GenBaseProofs.v, GenResetProofs.v. *)
From Coq Require Import List String Bool Permutation.
From Shoot Require Import Model.Gen Proofs.GenBaseProofs Proofs.GenProofs Proofs.GenResetProofs Proofs.GenNewProofs Proofs.GenSeqProofs Proofs.GenSigmaProofs Proofs.GenMapSigmaProofs Proofs.GenPermProofs Proofs.GenMapProofs Proofs.GenWitnessProofs.
Import ListNotations.
Local Open Scope string_scope.

(* ---- state non-interference: for ALL states of the generator object (in particular all states reachable after
   processing any other types), MakeData yields the same template data, the same stale flag and the same state *)
Theorem C08_new_state_noninterference : forall c st1 st2 v T, new_make c st1 v T = new_make c st2 v T.
Proof. exact new_make_state_indep. Qed.
Print Assumptions C08_new_state_noninterference.

Theorem C08_enum_state_noninterference : forall c st1 st2 v T, enum_make c st1 v T = enum_make c st2 v T.
Proof. exact enum_make_state_indep. Qed.
Print Assumptions C08_enum_state_noninterference.

Theorem C08_rest_state_noninterference : forall o c st1 st2 v T, rest_make o c st1 v T = rest_make o c st2 v T.
Proof. exact rest_make_state_indep. Qed.
Print Assumptions C08_rest_state_noninterference.

(* the mapper keeps old values in components it does not reach when it skips a type; they are never read *)
Theorem C08_map_state_noninterference : forall o c dp dv st1 st2 v T,
  same_out map_render (map_make o c dp dv st1 v T) (map_make o c dp dv st2 v T).
Proof. exact map_make_state_indep. Qed.
Print Assumptions C08_map_state_noninterference.

(* ---- every reset is needed: with the reset switched off, the output for a type after another type differs from
   the output of a fresh generator (the shapes of the repaired K_hasnew_leak, K_getsetmethods_leak, K_map_state_leak) *)
Theorem C08_reset_hasnew_needed :
  params_of (new_make_gen no_hasnew c_ab (state_after (new_make_gen no_hasnew c_ab nstate0 v_ab "A") nstate0) v_ab "B")
  <> params_of (new_make_gen no_hasnew c_ab nstate0 v_ab "B").
Proof. exact reset_hasnew_needed. Qed.
Print Assumptions C08_reset_hasnew_needed.

Theorem C08_reset_getsetmethods_needed :
  jsonget_of (new_make_gen no_gsm c_gs (state_after (new_make_gen no_gsm c_gs nstate0 v_gs "Son") nstate0) v_gs "Other")
  <> jsonget_of (new_make_gen no_gsm c_gs nstate0 v_gs "Other").
Proof. exact reset_getsetmethods_needed. Qed.
Print Assumptions C08_reset_getsetmethods_needed.

Theorem C08_reset_map_ctor_needed :
  toks_of (map_make_gen no_mctor id_oracle c_map "dest" v_dest
             (state_after (map_make_gen no_mctor id_oracle c_map "dest" v_dest mstate0 v_src "Order2") mstate0) v_src "Order")
  <> toks_of (map_make_gen no_mctor id_oracle c_map "dest" v_dest mstate0 v_src "Order").
Proof. exact reset_map_ctor_needed. Qed.
Print Assumptions C08_reset_map_ctor_needed.

Theorem C08_reset_map_fields_needed :
  toks_of (map_make_gen no_mfields id_oracle c_map "dest" v_dest
             (state_after (map_make_gen no_mfields id_oracle c_map "dest" v_dest mstate0 v_src "Order2") mstate0) v_src "Order")
  <> toks_of (map_make_gen no_mfields id_oracle c_map "dest" v_dest mstate0 v_src "Order").
Proof. exact reset_map_fields_needed. Qed.
Print Assumptions C08_reset_map_fields_needed.

Theorem C08_reset_map_sets_needed :
  toks_of (map_make_gen no_msets id_oracle c_map "dest" v_dest
             (state_after (map_make_gen no_msets id_oracle c_map "dest" v_dest mstate0 v_src "Order2") mstate0) v_src "Order")
  <> toks_of (map_make_gen no_msets id_oracle c_map "dest" v_dest mstate0 v_src "Order").
Proof. exact reset_map_sets_needed. Qed.
Print Assumptions C08_reset_map_sets_needed.

Theorem C08_reset_getter_setter_needed :
  getters_of (new_make_gen no_getset c_tl (state_after (new_make_gen no_getset c_tl nstate0 v_tl "A") nstate0) v_tl "B")
  <> getters_of (new_make_gen no_getset c_tl nstate0 v_tl "B").
Proof. exact reset_getter_setter_needed. Qed.
Print Assumptions C08_reset_getter_setter_needed.

Theorem C08_reset_map_methods_needed :
  toks_of (map_make_gen no_mmeth id_oracle c_map "dest" v_dest
             (state_after (map_make_gen no_mmeth id_oracle c_map "dest" v_dest mstate0 v_src "Order2") mstate0) v_src "Order")
  <> toks_of (map_make_gen no_mmeth id_oracle c_map "dest" v_dest mstate0 v_src "Order").
Proof. exact reset_map_methods_needed. Qed.
Print Assumptions C08_reset_map_methods_needed.

Theorem C08_reset_map_tags_needed :
  toks_of (map_make_gen no_mtags id_oracle c_map_tg "dest" v_dest_tg
             (state_after (map_make_gen no_mtags id_oracle c_map_tg "dest" v_dest_tg mstate0 v_src_tg "Tagged") mstate0) v_src_tg "Plain")
  <> toks_of (map_make_gen no_mtags id_oracle c_map_tg "dest" v_dest_tg mstate0 v_src_tg "Plain").
Proof. exact reset_map_tags_needed. Qed.
Print Assumptions C08_reset_map_tags_needed.

Theorem C08_reset_map_funcs_needed :
  toks_of (map_make_gen no_mfuncs id_oracle c_map_fn "dest" v_dest_fn
             (state_after (map_make_gen no_mfuncs id_oracle c_map_fn "dest" v_dest_fn mstate0 v_src_fn "WithM") mstate0) v_src_fn "NoM")
  <> toks_of (map_make_gen no_mfuncs id_oracle c_map_fn "dest" v_dest_fn mstate0 v_src_fn "NoM").
Proof. exact reset_map_funcs_needed. Qed.
Print Assumptions C08_reset_map_funcs_needed.

Theorem C08_reset_map_maps_needed :
  toks_of (map_make_gen no_mmaps id_oracle c_map_mm "dest" v_dest_mm
             (state_after (map_make_gen no_mmaps id_oracle c_map_mm "dest" v_dest_mm mstate0 v_src_mm "First") mstate0) v_src_mm "Second")
  <> toks_of (map_make_gen no_mmaps id_oracle c_map_mm "dest" v_dest_mm mstate0 v_src_mm "Second").
Proof. exact reset_map_maps_needed. Qed.
Print Assumptions C08_reset_map_maps_needed.

(* ---- the Generate loop is a function of the views only: started in any state, for any type list (unbounded), it
   produces what the loop produces in which every type is analysed by a generator in state st0 *)
Theorem C08_loop_state_free :
  forall (St Data : Type) (make : St -> pview -> string -> mres Data St) (render : St -> Data -> afile),
  (forall st1 st2 v T, same_out render (make st1 v T) (make st2 v T)) ->
  forall c hw disk st0 types fmap st ov sm sl,
    drop_state (gen_loop make render c hw disk types fmap st ov sm sl) = pure_loop make render c hw disk st0 types fmap ov sm sl.
Proof. exact loop_state_free. Qed.
Print Assumptions C08_loop_state_free.

(* ---- overlay = on-disk view: what a type sees with an overlay is what it sees in a directory holding those files;
   the hand-written part of the view never depends on generated files, the generated part only on them *)
Theorem C08_overlay_is_disk : forall hw disk ov, mk_view hw disk ov = mk_view hw (overlay_apply disk ov) [].
Proof. exact view_overlay_is_disk. Qed.
Print Assumptions C08_overlay_is_disk.

Theorem C08_view_split : forall hw disk ov,
  hand_decls (mk_view hw disk ov) = hand_decls (mk_view hw [] []) /\
  gen_decls (mk_view hw disk ov) = gen_decls (mk_view [] (overlay_apply disk ov) []).
Proof. exact view_split. Qed.
Print Assumptions C08_view_split.

(* ---- the MODEL of MergeSources (Gen.merge; the real one -- go/parser, comment re-attachment by byte distance, goimports -- is
   tied to it through the astsig comparison only): header of the first, declarations in order, import union; free-floating
   comments only where a source ends a declaration with a comment and continues with a declaration without doc comment.
   `d_doc` is a flag: theorems speak about the presence of doc comments, their text is compared in the correspondence. *)
Theorem C08_merge : forall f fs m, merge (f :: fs) = Some m ->
  a_cmd m = a_cmd f /\ a_decls m = flat_map a_decls (f :: fs) /\
  (forall x, In x (a_imports m) <-> exists g, In g (f :: fs) /\ In x (a_imports g)) /\
  a_stray m = flat_map (fun g => strays (a_decls g)) (f :: fs).
Proof. exact merge_spec. Qed.
Print Assumptions C08_merge.

Theorem C08_no_stray_comment : forall ds,
  (forall d, In d ds -> d_tail d = false \/ forall d', In d' ds -> d_doc d' = true) -> strays ds = [].
Proof. exact strays_nil. Qed.
Print Assumptions C08_no_stray_comment.

(* ---- first sentence of C08 for enum and rest: the single file of -file= / -type=* has exactly the declarations,
   imports and free comments of the files that -type=T writes one at a time for the same types in the same order,
   whatever those runs find in the directory and whatever the map iteration orders.  An explicit -type=T can refuse
   only a type that the all-in-one run skips silently (enum: a type without constants). *)
Theorem C08_enum_all_in_one_is_concatenation : forall c (cT : string -> cmd) hw o disk st types fmap sm,
  (forall T, c_types (cT T) = [T] /\ c_file (cT T) = "" /\ c_ejson (cT T) = c_ejson c /\ c_etext (cT T) = c_etext c) ->
  separate c = false ->
  confirm_types (list_types_of CEnum) c o (mk_view hw disk []) = Some (types, fmap) ->
  generate (enum_make c) enum_render (list_types_of CEnum) c o hw disk st = Some sm ->
  (forall T o' disk' st', In T types ->
     generate (enum_make (cT T)) enum_render (list_types_of CEnum) (cT T) o' hw disk' st' = None ->
     exists s, alone (enum_make c) hw estate0 T = MSkip s) /\
  forall o' disk' st',
    let singles := flat_map (fun T => single_file (generate (enum_make (cT T)) enum_render (list_types_of CEnum) (cT T) o' hw disk' st')) types in
    match sm with
    | [] => singles = []
    | [(n, m)] =>
        a_decls m = flat_map a_decls singles /\ a_imports m = dedup (flat_map a_imports singles) /\
        a_stray m = flat_map (fun f => strays (a_decls f)) singles /\ n = out_name hw c fmap ""
    | _ => False
    end.
Proof. exact enum_aio_is_concatenation. Qed.
Print Assumptions C08_enum_all_in_one_is_concatenation.

Theorem C08_rest_all_in_one_is_concatenation : forall ro c (cT : string -> cmd) hw o disk st types fmap sm,
  (forall T, c_types (cT T) = [T] /\ c_file (cT T) = "") ->
  separate c = false ->
  confirm_types (list_types_of CRest) c o (mk_view hw disk []) = Some (types, fmap) ->
  generate (rest_make ro c) (fun _ d => rest_render d) (list_types_of CRest) c o hw disk st = Some sm ->
  (forall T o' disk' st', In T types ->
     generate (rest_make ro (cT T)) (fun _ d => rest_render d) (list_types_of CRest) (cT T) o' hw disk' st' = None ->
     exists s, alone (rest_make ro c) hw rstate0 T = MSkip s) /\
  forall o' disk' st',
    let singles := flat_map (fun T => single_file (generate (rest_make ro (cT T)) (fun _ d => rest_render d) (list_types_of CRest) (cT T) o' hw disk' st')) types in
    match sm with
    | [] => singles = []
    | [(n, m)] =>
        a_decls m = flat_map a_decls singles /\ a_imports m = dedup (flat_map a_imports singles) /\
        a_stray m = flat_map (fun f => strays (a_decls f)) singles /\ n = out_name hw c fmap ""
    | _ => False
    end.
Proof. exact rest_aio_is_concatenation. Qed.
Print Assumptions C08_rest_all_in_one_is_concatenation.

(* ... and for new, outside (a superset of) the input class of K_embed_order: no struct of the package embeds a struct *)
Theorem C08_new_all_in_one_is_concatenation : forall c (cT : string -> cmd) hw o disk st types fmap sm,
  no_embedding (hand_of hw) ->
  (forall T, c_types (cT T) = [T] /\ c_file (cT T) = "" /\ c_getset (cT T) = c_getset c /\ c_json (cT T) = c_json c /\ c_optflags (cT T) = c_optflags c) ->
  separate c = false ->
  confirm_types (list_types_of CNew) c o (mk_view hw disk []) = Some (types, fmap) ->
  generate (new_make c) nrender (list_types_of CNew) c o hw disk st = Some sm ->
  (forall T o' disk' st', In T types ->
     generate (new_make (cT T)) nrender (list_types_of CNew) (cT T) o' hw disk' st' = None ->
     exists s, alone (new_make c) hw nstate0 T = MSkip s) /\
  forall o' disk' st',
    let singles := flat_map (fun T => single_file (generate (new_make (cT T)) nrender (list_types_of CNew) (cT T) o' hw disk' st')) types in
    match sm with
    | [] => singles = []
    | [(n, m)] =>
        a_decls m = flat_map a_decls singles /\ a_imports m = dedup (flat_map a_imports singles) /\
        a_stray m = flat_map (fun f => strays (a_decls f)) singles /\ n = out_name hw c fmap ""
    | _ => False
    end.
Proof. exact new_aio_is_concatenation. Qed.
Print Assumptions C08_new_all_in_one_is_concatenation.

(* ... and for new -getset WITH embedding, no guard on the package (overlay = on-disk view): the all-in-one file
   is, declaration for declaration, what -type=T produces one type at a time when every run finds the files written
   by the earlier ones in the directory (seq_files: run T on the directory d, write its file under the name the
   overlay uses, continue) *)
Theorem C08_new_all_in_one_is_sequential : forall c (cT : string -> cmd) hw disk fmap o st st' types sm,
  c_getset c = true ->
  (forall T, c_types (cT T) = [T] /\ c_file (cT T) = "" /\ c_getset (cT T) = c_getset c /\ c_json (cT T) = c_json c /\ c_optflags (cT T) = c_optflags c) ->
  separate c = false ->
  confirm_types (list_types_of CNew) c o (mk_view hw disk []) = Some (types, fmap) ->
  NoDup (map (nm c hw fmap) types) ->
  generate (new_make c) nrender (list_types_of CNew) c o hw disk st = Some sm ->
  exists fs, seq_files new_make nrender c cT hw fmap st' types disk = Some fs /\
    match sm with
    | [] => fs = []
    | [(n, m)] =>
        a_decls m = flat_map a_decls fs /\ a_imports m = dedup (flat_map a_imports fs) /\
        a_stray m = flat_map (fun f => strays (a_decls f)) fs /\ n = nm c hw fmap ""
    | _ => False
    end.
Proof. exact new_aio_is_sequential. Qed.
Print Assumptions C08_new_all_in_one_is_sequential.

(* one step of that sequence IS the run `shoot <cmd> -type=T` in a directory holding d, whenever that run names its
   file like the overlay entry (-file=f with T declared in f) *)
Theorem C08_single_run_is_step :
  forall (St Data : Type) (mk : cmd -> St -> pview -> string -> mres Data St) (render : St -> Data -> afile) lt c cT,
  (forall T, c_types (cT T) = [T]) -> (forall T, c_file (cT T) = "") ->
  forall hw fmap T o d st,
    file_name (cT T) (all_in_one_file (cT T) (mk_view hw d [])) [(T, get_go_file o (mk_view hw d []) T)] T = nm c hw fmap T ->
    generate (mk (cT T)) render lt (cT T) o hw d st =
    match single_step mk render cT hw st T d with
    | None => None
    | Some None => Some []
    | Some (Some f) => Some [(nm c hw fmap T, f)]
    end.
Proof. exact @single_run_any. Qed.
Print Assumptions C08_single_run_is_step.

(* ... for every generator that never feeds a source back (stale = false: map always, new without -getset, enum, rest), with NO
   guard -- embedding included: the all-in-one file is the concatenation of what -type=T writes for the same types, each run
   in the directory as the all-in-one run found it (same_dir_files) *)
Theorem C08_map_all_in_one_is_concatenation : forall ro c (cT : string -> cmd) dp dv hw disk fmap o st st' types sm,
  (forall T, c_toonly (cT T) = c_toonly c /\ c_fromonly (cT T) = c_fromonly c) ->
  separate c = false ->
  confirm_types (list_types_of CMap) c o (mk_view hw disk []) = Some (types, fmap) ->
  generate (map_make ro c dp dv) map_render (list_types_of CMap) c o hw disk st = Some sm ->
  let fs := same_dir_files (fun c0 => map_make ro c0 dp dv) map_render cT hw disk st' types in
  match sm with
  | [] => fs = []
  | [(n, m)] =>
      a_decls m = flat_map a_decls fs /\ a_imports m = dedup (flat_map a_imports fs) /\
      a_stray m = flat_map (fun f => strays (a_decls f)) fs /\ n = nm c hw fmap ""
  | _ => False
  end.
Proof. exact map_aio_is_concatenation. Qed.
Print Assumptions C08_map_all_in_one_is_concatenation.

Theorem C08_new_noget_all_in_one_is_concatenation : forall c (cT : string -> cmd) hw disk fmap o st st' types sm,
  c_getset c = false ->
  (forall T, c_getset (cT T) = c_getset c /\ c_json (cT T) = c_json c /\ c_optflags (cT T) = c_optflags c) ->
  separate c = false ->
  confirm_types (list_types_of CNew) c o (mk_view hw disk []) = Some (types, fmap) ->
  generate (new_make c) nrender (list_types_of CNew) c o hw disk st = Some sm ->
  let fs := same_dir_files new_make nrender cT hw disk st' types in
  match sm with
  | [] => fs = []
  | [(n, m)] =>
      a_decls m = flat_map a_decls fs /\ a_imports m = dedup (flat_map a_imports fs) /\
      a_stray m = flat_map (fun f => strays (a_decls f)) fs /\ n = nm c hw fmap ""
  | _ => False
  end.
Proof. exact new_noget_aio_is_concatenation. Qed.
Print Assumptions C08_new_noget_all_in_one_is_concatenation.

(* ---- second sentence of C08: the order of the names in -type=A,B changes no file content.  The header quotes the
   command line, so it differs by construction: equal names, imports, declarations and free comments (nb).  For every
   generator that does not read generated files (enum, rest; new when no struct embeds a struct), any oracle, any
   directory content; no guard: when two listed types share an output file both orders are refused. *)
Theorem C08_permutation_changes_no_content :
  forall (St Data : Type) (mk : cmd -> St -> pview -> string -> mres Data St) (render : St -> Data -> afile),
  (forall c st1 st2 v T, same_out render (mk c st1 v T) (mk c st2 v T)) ->
  forall hw, (forall c, blind_at (hand_of hw) (mk c)) ->
  forall lt c c' o disk st st',
    specified c = true -> specified c' = true ->
    Permutation (c_types c) (c_types c') -> c_file c = c_file c' -> c_sub c = c_sub c' ->
    c_star c = false -> c_star c' = false ->
    (forall T st0 v, same_body render render (mk c st0 v T) (mk c' st0 v T)) ->
    match generate (mk c) render lt c o hw disk st, generate (mk c') render lt c' o hw disk st' with
    | Some sm, Some sm' => map nb (listing sm) = map nb (listing sm')
    | None, None => True
    | _, _ => False
    end.
Proof. exact @permutation_changes_no_content. Qed.
Print Assumptions C08_permutation_changes_no_content.

Theorem C08_enum_permutation : forall c c' hw o disk st st',
  specified c = true -> specified c' = true ->
  Permutation (c_types c) (c_types c') -> c_file c = c_file c' -> c_sub c = c_sub c' ->
  c_star c = false -> c_star c' = false -> c_ejson c = c_ejson c' -> c_etext c = c_etext c' ->
  match generate (enum_make c) enum_render (list_types_of CEnum) c o hw disk st,
        generate (enum_make c') enum_render (list_types_of CEnum) c' o hw disk st' with
  | Some sm, Some sm' => map nb (listing sm) = map nb (listing sm')
  | None, None => True
  | _, _ => False
  end.
Proof. exact enum_permutation. Qed.
Print Assumptions C08_enum_permutation.

Theorem C08_rest_permutation : forall ro c c' hw o disk st st',
  specified c = true -> specified c' = true ->
  Permutation (c_types c) (c_types c') -> c_file c = c_file c' -> c_sub c = c_sub c' ->
  c_star c = false -> c_star c' = false ->
  match generate (rest_make ro c) rrender (list_types_of CRest) c o hw disk st,
        generate (rest_make ro c') rrender (list_types_of CRest) c' o hw disk st' with
  | Some sm, Some sm' => map nb (listing sm) = map nb (listing sm')
  | None, None => True
  | _, _ => False
  end.
Proof. exact rest_permutation. Qed.
Print Assumptions C08_rest_permutation.

Theorem C08_new_permutation : forall c c' hw o disk st st',
  no_embedding (hand_of hw) ->
  specified c = true -> specified c' = true ->
  Permutation (c_types c) (c_types c') -> c_file c = c_file c' -> c_sub c = c_sub c' ->
  c_star c = false -> c_star c' = false ->
  c_getset c = c_getset c' -> c_json c = c_json c' -> c_optflags c = c_optflags c' ->
  match generate (new_make c) nrender (list_types_of CNew) c o hw disk st,
        generate (new_make c') nrender (list_types_of CNew) c' o hw disk st' with
  | Some sm, Some sm' => map nb (listing sm) = map nb (listing sm')
  | None, None => True
  | _, _ => False
  end.
Proof. exact new_permutation. Qed.
Print Assumptions C08_new_permutation.

(* ... and without any guard for the generators that never feed a source back: map, and new without -getset with embedding *)
Theorem C08_permutation_nostale :
  forall (St Data : Type) (mk : cmd -> St -> pview -> string -> mres Data St) (render : St -> Data -> afile),
  (forall c st1 st2 v T, same_out render (mk c st1 v T) (mk c st2 v T)) ->
  forall hw disk lt c c' o st st',
    (forall st v T d s st', mk c st v T = MOk d s st' -> s = false) ->
    (forall st v T d s st', mk c' st v T = MOk d s st' -> s = false) ->
    specified c = true -> specified c' = true ->
    Permutation (c_types c) (c_types c') -> c_file c = c_file c' -> c_sub c = c_sub c' ->
    c_star c = false -> c_star c' = false ->
    (forall T st0 v, same_body render render (mk c st0 v T) (mk c' st0 v T)) ->
    match generate (mk c) render lt c o hw disk st, generate (mk c') render lt c' o hw disk st' with
    | Some sm, Some sm' => map nb (listing sm) = map nb (listing sm')
    | None, None => True
    | _, _ => False
    end.
Proof. exact @permutation_nostale. Qed.
Print Assumptions C08_permutation_nostale.

Theorem C08_map_permutation : forall ro c c' dp dv hw disk o st st',
  specified c = true -> specified c' = true ->
  Permutation (c_types c) (c_types c') -> c_file c = c_file c' -> c_sub c = c_sub c' ->
  c_star c = false -> c_star c' = false -> c_toonly c = c_toonly c' -> c_fromonly c = c_fromonly c' ->
  match generate (map_make ro c dp dv) map_render (list_types_of CMap) c o hw disk st,
        generate (map_make ro c' dp dv) map_render (list_types_of CMap) c' o hw disk st' with
  | Some sm, Some sm' => map nb (listing sm) = map nb (listing sm')
  | None, None => True
  | _, _ => False
  end.
Proof. exact map_permutation. Qed.
Print Assumptions C08_map_permutation.

Theorem C08_new_noget_permutation : forall c c' hw disk o st st',
  c_getset c = false -> c_getset c' = false ->
  specified c = true -> specified c' = true ->
  Permutation (c_types c) (c_types c') -> c_file c = c_file c' -> c_sub c = c_sub c' ->
  c_star c = false -> c_star c' = false -> c_json c = c_json c' -> c_optflags c = c_optflags c' ->
  match generate (new_make c) nrender (list_types_of CNew) c o hw disk st,
        generate (new_make c') nrender (list_types_of CNew) c' o hw disk st' with
  | Some sm, Some sm' => map nb (listing sm) = map nb (listing sm')
  | None, None => True
  | _, _ => False
  end.
Proof. exact new_noget_permutation. Qed.
Print Assumptions C08_new_noget_permutation.

(* the generator objects may start in any state: the whole run is the same *)
Theorem C08_run_state_free_new : forall c o hw disk st,
  generate (new_make c) (fun _ d => new_render d) (list_types_of CNew) c o hw disk st =
  generate (new_make c) (fun _ d => new_render d) (list_types_of CNew) c o hw disk nstate0.
Proof. exact run_state_free_new. Qed.
Print Assumptions C08_run_state_free_new.

Theorem C08_run_state_free_map : forall ro c dp dv o hw disk st,
  generate (map_make ro c dp dv) map_render (list_types_of CMap) c o hw disk st =
  generate (map_make ro c dp dv) map_render (list_types_of CMap) c o hw disk mstate0.
Proof. exact run_state_free_map. Qed.
Print Assumptions C08_run_state_free_map.

(* open findings reproduced by the model *)
Theorem C08_refuted_K_embed_order :
  toks_of_files (run_generate id_oracle (mkpkg hw_eo) [] c_eo_sb) <> toks_of_files (run_generate id_oracle (mkpkg hw_eo) [] c_eo_bs).
Proof. exact embed_order_permutation_matters. Qed.
Print Assumptions C08_refuted_K_embed_order.

(* K_filename_case_clash is repaired in /repo: two selected types that map to one output file are refused, in any order *)
Theorem C08_case_clash_is_refused :
  run_generate id_oracle (mkpkg hw_cc) [] c_cc_1 = None /\ run_generate id_oracle (mkpkg hw_cc) [] c_cc_2 = None.
Proof. exact case_clash_refused. Qed.
Print Assumptions C08_case_clash_is_refused.

Theorem C08_refuted_K_merge_stray_comment : option_map a_stray (merge [mk_file "x" two_decls]) = Some ["init"].
Proof. exact merge_stray_comment. Qed.
Print Assumptions C08_refuted_K_merge_stray_comment.

(* ---- non-vacuity: the hypotheses of the concatenation theorems are met by a two-type package *)
Definition ex_cmd_file : cmd :=
  {| c_sub := CNew; c_line := "shoot new -getset -file=a.go"; c_types := []; c_star := false; c_file := "a.go"; c_sepflag := false;
     c_getset := true; c_json := false; c_opt := false; c_short := false; c_ejson := false; c_etext := false; c_toonly := false; c_fromonly := false |}.
Definition ex_cmd_single (T : string) : cmd :=
  {| c_sub := CNew; c_line := "shoot new -getset -type=" ++ T; c_types := [T]; c_star := false; c_file := ""; c_sepflag := false;
     c_getset := true; c_json := false; c_opt := false; c_short := false; c_ejson := false; c_etext := false; c_toonly := false; c_fromonly := false |}.

Example C08_example_guard : no_embedding (hand_of hw_ab).
Proof. apply no_embeddingb_ok. reflexivity. Qed.

Example C08_example_selection :
  confirm_types (list_types_of CNew) ex_cmd_file id_oracle (mk_view hw_ab [] []) = Some (["A"; "B"], []) /\ separate ex_cmd_file = false.
Proof. split; reflexivity. Qed.

Example C08_example_generates :
  match generate (new_make ex_cmd_file) nrender (list_types_of CNew) ex_cmd_file id_oracle hw_ab [] nstate0 with
  | Some [(n, m)] => n = "a.shootnew.go" /\ List.length (a_decls m) = 14
  | _ => False
  end.
Proof. vm_compute. split; reflexivity. Qed.

Example C08_example_single_commands : forall T,
  c_types (ex_cmd_single T) = [T] /\ c_file (ex_cmd_single T) = "" /\ c_getset (ex_cmd_single T) = c_getset ex_cmd_file /\
  c_json (ex_cmd_single T) = c_json ex_cmd_file /\ c_optflags (ex_cmd_single T) = c_optflags ex_cmd_file.
Proof. intros. repeat split. Qed.

(* the embedding witness of K_embed_order satisfies the hypotheses of C08_new_all_in_one_is_sequential *)
Example C08_example_sequential_hypotheses :
  c_getset c_eo = true /\ separate c_eo = false /\
  confirm_types (list_types_of CNew) c_eo id_oracle (mk_view hw_eo [] []) = Some (["Son"; "Base"], []) /\
  map (nm c_eo hw_eo []) ["Son"; "Base"] = ["f.shootnew.son.go"; "f.shootnew.base.go"].
Proof. repeat split; reflexivity. Qed.

Example C08_example_single_names_like_overlay :
  file_name (ex_cmd_single "Son") (all_in_one_file (ex_cmd_single "Son") (mk_view hw_eo [] []))
            [("Son", get_go_file id_oracle (mk_view hw_eo [] []) "Son")] "Son" = nm c_eo hw_eo [] "Son".
Proof. reflexivity. Qed.

(* the permutation theorem applies to -type=A,B / -type=B,A on the two-struct package *)
Definition ex_cmd_ab : cmd := cmd_new "shoot new -getset -type=A,B" ["A"; "B"] true false.
Definition ex_cmd_ba : cmd := cmd_new "shoot new -getset -type=B,A" ["B"; "A"] true false.
Example C08_example_permutation_hypotheses :
  specified ex_cmd_ab = true /\ specified ex_cmd_ba = true /\ Permutation (c_types ex_cmd_ab) (c_types ex_cmd_ba).
Proof. split; [reflexivity|]. split; [reflexivity | apply perm_swap]. Qed.
