(* C04  enum: String/Values/Strings/ValueMap/StringMap/IsValid agree with the
   declared constants; the generated file stops compiling when a declared
   constant's value is changed without regenerating.

   Reading guide
     p : pkg            an abstract Go package of the spec grammar (Model/Enum.v): named integer
                        types of the ten kinds, files of const blocks of value specs
     declared T p       the constants whose type (as go/types computes it, with Go's implicit
                        repetition rule) is T, with their values, in declaration order
     generate p T fl    what `shoot enum -type=T` computes: the LITERAL carry-down walk of
                        str.go over all files, the sort, TrimPrefix, the template data
     t_values, t_strings, t_string_map, t_value_map, str_of, is_valid, compiles
                        the meaning of the generated Go code, evaluated against the constants
                        of a source (const_env p = the source it was generated from)
     first_name D v     the first declared constant with value v: when several constants share a
                        value (aliases) it is the name that stands for the value, as with stringer
     enum_guard p T     decidable guard: the package compiles, no constant OF TYPE T has its type
                        only inferred from its expression (K_enum_implicit_type; such constants
                        of other types do not matter), no two constants of T with one trimmed name
                        (K_enum_dup_trimmed).  Aliases and qualified-type specs are inside.
   All theorems hold for every package of the grammar (any number of types, files,
   blocks, specs, names) and every x : Z.  Only `exact`s here; proofs are in
   Proofs/Enum{Collect,Tables,Bits,Proofs}.v. *)
From Coq Require Import List ZArith Bool String Sorted Permutation.
From Shoot Require Import Model.Enum Proofs.EnumCollect Proofs.EnumTables Proofs.EnumProofs Corr.EnumCorr Proofs.EnumPb.
Import ListNotations.
Local Open Scope string_scope.
Local Open Scope Z_scope.

(* split conjunctions only (never an equation), then compute each part *)
Ltac conj := repeat match goal with |- _ /\ _ => split end.

(* the literal stringer walk (typed const carry-down over all files and blocks)
   collects exactly the constants of type T, in declaration order *)
Theorem C04_collect_refines_declared : forall p T k,
  enum_guard p T = true -> kind_of_type p T = Some k ->
  collect p T = map (mkv k) (declared T p).
Proof. exact P_collect_refines_declared. Qed.
Print Assumptions C04_collect_refines_declared.

(* output exists iff the type exists and has at least one constant *)
Theorem C04_generated_iff_has_constants : forall p T fl,
  enum_guard p T = true ->
  ((exists g, generate p T fl = Some g) <->
   (exists k, kind_of_type p T = Some k) /\ declared T p <> []).
Proof. exact P_generate_some_iff. Qed.
Print Assumptions C04_generated_iff_has_constants.

(* each declared constant maps back from its trimmed name (ValueMap holds EVERY
   constant); its value maps to the trimmed name of the first declared constant
   with that value (StringMap and String), which in turn maps back to the value *)
Theorem C04_constant_to_name_and_back : forall p T fl g n v,
  enum_guard p T = true -> generate p T fl = Some g -> In (n, v) (declared T p) ->
  assoc_s (trim_prefix n T) (t_value_map (const_env p) g) = Some v
  /\ exists n1, first_name (declared T p) v = Some n1
       /\ assoc_z v (t_string_map (const_env p) g) = Some (trim_prefix n1 T)
       /\ str_of (const_env p) g v = trim_prefix n1 T
       /\ assoc_s (trim_prefix n1 T) (t_value_map (const_env p) g) = Some v.
Proof. exact P_constant_to_name_and_back. Qed.
Print Assumptions C04_constant_to_name_and_back.

(* ... and that first name is the constant itself unless the value has an alias
   declared before it: "each declared constant maps to its name and back" *)
Theorem C04_first_name_is_the_constant : forall p T fl g n v,
  enum_guard p T = true -> generate p T fl = Some g -> In (n, v) (declared T p) ->
  exists n1, first_name (declared T p) v = Some n1 /\ In (n1, v) (declared T p)
             /\ ((forall n', In (n', v) (declared T p) -> n' = n) -> n1 = n).
Proof. exact P_first_name. Qed.
Print Assumptions C04_first_name_is_the_constant.

(* StringMap is exactly `value |-> trimmed first declared name`, for every integer *)
Theorem C04_string_map_exact : forall p T fl g x,
  enum_guard p T = true -> generate p T fl = Some g ->
  assoc_z x (t_string_map (const_env p) g)
  = option_map (fun n => trim_prefix n T) (first_name (declared T p) x).
Proof. exact P_string_map_exact. Qed.
Print Assumptions C04_string_map_exact.

(* the two maps contain nothing else; one StringMap entry per value, one
   ValueMap entry per constant *)
Theorem C04_maps_hold_only_declared : forall p T fl g,
  enum_guard p T = true -> generate p T fl = Some g ->
  (forall x s, assoc_z x (t_string_map (const_env p) g) = Some s ->
               exists n, In (n, x) (declared T p) /\ first_name (declared T p) x = Some n
                         /\ s = trim_prefix n T)
  /\ (forall s v, assoc_s s (t_value_map (const_env p) g) = Some v ->
                  exists n, In (n, v) (declared T p) /\ s = trim_prefix n T)
  /\ List.length (t_string_map (const_env p) g) = List.length (t_values (const_env p) g)
  /\ List.length (t_value_map (const_env p) g) = List.length (declared T p).
Proof. exact P_maps_hold_only_declared. Qed.
Print Assumptions C04_maps_hold_only_declared.

(* Values() and Strings(): same length, and position i of both belongs to one
   declared constant (the first declared one with that value) *)
Theorem C04_values_strings_aligned : forall p T fl g,
  enum_guard p T = true -> generate p T fl = Some g ->
  List.length (t_values (const_env p) g) = List.length (t_strings g)
  /\ forall i v s,
       nth_error (t_values (const_env p) g) i = Some v -> nth_error (t_strings g) i = Some s ->
       exists n, In (n, v) (declared T p) /\ first_name (declared T p) v = Some n
                 /\ s = trim_prefix n T.
Proof. exact P_values_strings_aligned. Qed.
Print Assumptions C04_values_strings_aligned.

(* Values() is strictly ascending (signed kinds as signed numbers, uint64 above
   MaxInt64 as unsigned), holds exactly the declared values -- each once --, and
   without aliases is a rearrangement of the declared values *)
Theorem C04_values_ascending : forall p T fl g,
  enum_guard p T = true -> generate p T fl = Some g ->
  StronglySorted Z.lt (t_values (const_env p) g)
  /\ (forall x, In x (t_values (const_env p) g) <-> In x (map snd (declared T p)))
  /\ (NoDup (map snd (declared T p)) ->
      Permutation (t_values (const_env p) g) (map snd (declared T p))).
Proof. exact P_values_ascending. Qed.
Print Assumptions C04_values_ascending.

(* IsValid is true exactly for declared values -- for every integer x *)
Theorem C04_is_valid_iff_declared : forall p T fl g x,
  enum_guard p T = true -> generate p T fl = Some g ->
  (is_valid (const_env p) g x = true <-> In x (map snd (declared T p))).
Proof. exact P_is_valid_iff_declared. Qed.
Print Assumptions C04_is_valid_iff_declared.

(* without -bit, String() of any other value is its decimal form *)
Theorem C04_string_of_undeclared_is_decimal : forall p T fl g x,
  enum_guard p T = true -> generate p T fl = Some g -> f_bit fl = false ->
  ~ In x (map snd (declared T p)) -> str_of (const_env p) g x = dec x.
Proof. exact P_string_of_undeclared. Qed.
Print Assumptions C04_string_of_undeclared_is_decimal.

(* declared values are values of the type (so "every value of the type" is the
   right window for the statements above) *)
Theorem C04_declared_in_range : forall p T fl g n v,
  enum_guard p T = true -> generate p T fl = Some g -> In (n, v) (declared T p) ->
  in_range (g_kind g) v = true.
Proof. exact P_declared_in_range. Qed.
Print Assumptions C04_declared_in_range.

(* stale guard: if in the current source p2 some constant that was declared at
   generation time has another value (or is gone), the old output does not
   compile any more -- whatever else was edited *)
Theorem C04_stale_guard : forall p T fl g p2 n v b,
  enum_guard p T = true -> generate p T fl = Some g ->
  In (n, v) (declared T p) ->
  (forall c, lookup_c n (const_env p2) = Some c -> ce_val c <> v) ->
  compiles (const_env p2) g b = false.
Proof. exact P_stale_guard. Qed.
Print Assumptions C04_stale_guard.

(* exact characterisation of the guard function `_ = x[Name - value]` *)
Theorem C04_guard_exact : forall p T fl g ce2,
  enum_guard p T = true -> generate p T fl = Some g ->
  (guard_ok ce2 g = true <->
   forall n v, In (n, v) (declared T p) -> exists c, lookup_c n ce2 = Some c /\ ce_val c = v).
Proof. exact P_guard_exact. Qed.
Print Assumptions C04_guard_exact.

(* ... while against the source it was generated from the guard function passes
   and the map literals have distinct keys (the stale-guard theorem is not
   vacuous).  `compiles` models exactly these two classes of compile errors (and
   the -bit table of K_bit_map); it is NOT a full type-check of the output: see
   K_enum_reserved_names below for a package inside the guard whose output does
   not build for another reason. *)
Theorem C04_fresh_output_passes_guard_and_keys : forall p T fl g,
  enum_guard p T = true -> generate p T fl = Some g ->
  compiles (const_env p) g false = true.
Proof. exact P_fresh_output_compiles. Qed.
Print Assumptions C04_fresh_output_passes_guard_and_keys.

(* the boolean property the correspondence run evaluates on what the
   implementation did (EnumCorr.Pb04: build verdict, Values = declared values
   ascending, Strings aligned, both maps exact, String/IsValid on every window
   point) is implied by the theorems above: inside the guard the model's own
   observation satisfies it, whatever window is asked.  So agreement with the
   model entails the property, and Pb04 never asks for more than is proved. *)
Theorem C04_checked_property_follows : forall (c : case) (o : obs),
  enum_guard (c_pkg c) (c_type c) = true -> f_bit (c_flags c) = false ->
  Pb04 c (model_obs c o) = true.
Proof. exact Pb04_model_in_guard. Qed.
Print Assumptions C04_checked_property_follows.

(* ------------------------------------------------------------- non-vacuity *)
(* two files, three types of different kinds, a negative value, iota with a
   blank, carried-down and multi-name specs, an untyped interloper that resets
   the carried type, a second block, a uint64 above MaxInt64, unprefixed names *)
Definition vs (names : list string) (ty : vtype) (vals : list cexpr) : vspec :=
  {| vs_names := names; vs_type := ty; vs_vals := vals |}.

Definition ex_pkg : pkg :=
  {| p_types := [("Level", KInt8); ("Big", KUint64); ("Color", KInt)];
     p_files :=
       [ [ [ vs ["LevelLow"] (TIdent "Level") [ELit (-2)];
             vs ["LevelMid"; "LevelHigh"] (TIdent "Level") [ELit 0; EAdd EIota (ELit 2)];
             vs ["limit"] TNone [ELit 99];
             vs ["other"] TNone [];
             vs ["LevelTop"] (TIdent "Level") [ELit 127];
             vs ["tick"] (TForeign KInt64) [ELit 5];            (* a qualified-type spec (time.Duration) ... *)
             vs ["tock"] TNone [];                              (* ... and a constant carried down from it *)
             vs ["LevelOdd"] (TIdent "Level") [ELit 9] ];
           [ vs ["BigOne"] (TIdent "Big") [ELit 1];
             vs ["Huge"] (TIdent "Big") [ELit 18446744073709551615] ] ];
         [ [ vs ["_"] (TIdent "Color") [EIota];
             vs ["ColorRed"; "ColorGreen"] (TIdent "Color") [EMul EIota (ELit 2); EAdd (EMul EIota (ELit 2)) (ELit 1)];
             vs ["ColorBlue"; "_"] TNone [];
             vs ["Plain"; "ColorLast"] TNone [] ];
           [ vs ["LevelNeg"] (TIdent "Level") [ELit (-128)] ] ] ] |}.

Definition no_flags : flags := {| f_bit := false; f_json := false; f_text := false; f_sql := false; f_gorm := false |}.

Example C04_example_guard :
  enum_guard ex_pkg "Level" = true /\ enum_guard ex_pkg "Big" = true /\ enum_guard ex_pkg "Color" = true.
Proof. conj; vm_compute; reflexivity. Qed.

Example C04_example_declared :
  declared "Level" ex_pkg =
    [("LevelLow", -2); ("LevelMid", 0); ("LevelHigh", 3); ("LevelTop", 127); ("LevelOdd", 9); ("LevelNeg", -128)]
  /\ declared "Color" ex_pkg =
    [("ColorRed", 2); ("ColorGreen", 3); ("ColorBlue", 4); ("Plain", 6); ("ColorLast", 7)]
  /\ declared "Big" ex_pkg = [("BigOne", 1); ("Huge", 18446744073709551615)].
Proof. conj; vm_compute; reflexivity. Qed.

Example C04_example_generated :
  exists g, generate ex_pkg "Level" no_flags = Some g
    /\ t_values (const_env ex_pkg) g = [-128; -2; 0; 3; 9; 127]
    /\ t_strings g = ["Neg"; "Low"; "Mid"; "High"; "Odd"; "Top"].
Proof. eexists. conj; vm_compute; reflexivity. Qed.

Example C04_example_generated_color :
  exists g, generate ex_pkg "Color" no_flags = Some g
    /\ t_strings g = ["Red"; "Green"; "Blue"; "Plain"; "Last"].
Proof. eexists. conj; vm_compute; reflexivity. Qed.

(* the stale-guard hypothesis is satisfiable: LevelHigh edited from iota+2 to iota+3 *)
Definition ex_pkg_edited : pkg :=
  {| p_types := p_types ex_pkg;
     p_files :=
       [ [ [ vs ["LevelLow"] (TIdent "Level") [ELit (-2)];
             vs ["LevelMid"; "LevelHigh"] (TIdent "Level") [ELit 0; EAdd EIota (ELit 3)];
             vs ["LevelTop"] (TIdent "Level") [ELit 127] ] ];
         [ [ vs ["LevelNeg"] (TIdent "Level") [ELit (-128)] ] ] ] |}.

Example C04_example_stale :
  In ("LevelHigh", 3) (declared "Level" ex_pkg)
  /\ (forall c, lookup_c "LevelHigh" (const_env ex_pkg_edited) = Some c -> ce_val c <> 3).
Proof.
  split.
  - vm_compute. right. right. left. reflexivity.
  - vm_compute. intros c Hc. inversion Hc; subst. cbn. discriminate.
Qed.

(* --------------------------------- the guards are needed: known findings ---- *)

(* K_enum_dup (repaired in /repo): two constants with one value used to give
   duplicate constant keys in the generated map literals (the output did not
   compile).  Now the value is listed once, under its first declared name, while
   ValueMap and the stale guard still cover every constant: aliases are inside
   the guard and all theorems above apply to them. *)
Definition dup_pkg : pkg :=
  {| p_types := [("Color", KInt)];
     p_files := [ [ [ vs ["Red"] (TIdent "Color") [ELit 1];
                      vs ["Crimson"] (TIdent "Color") [ELit 1];
                      vs ["Blue"] (TIdent "Color") [ELit 2];
                      vs ["ColorFirst"] (TIdent "Color") [ERef "Red"] ] ] ] |}.

Example C04_example_K_enum_dup_repaired :
  enum_guard dup_pkg "Color" = true
  /\ first_name (declared "Color" dup_pkg) 1 = Some "Red"
  /\ exists g, generate dup_pkg "Color" no_flags = Some g
       /\ compiles (const_env dup_pkg) g false = true
       /\ t_values (const_env dup_pkg) g = [1; 2]
       /\ t_strings g = ["Red"; "Blue"]
       /\ t_value_map (const_env dup_pkg) g = [("Red", 1); ("Crimson", 1); ("First", 1); ("Blue", 2)]
       /\ str_of (const_env dup_pkg) g 1 = "Red"
       /\ g_guard g = [("Red", 1); ("Crimson", 1); ("ColorFirst", 1); ("Blue", 2)].
Proof.
  split; [vm_compute; reflexivity|]. split; [vm_compute; reflexivity|].
  eexists. conj; vm_compute; reflexivity.
Qed.

(* K_enum_implicit_type (open): `PermRW = PermRead | PermWrite` has type Perm
   for the Go compiler, but the carry-down walk only looks at the syntax of the
   spec and skips it: a declared constant that is not valid *)
Definition implicit_pkg : pkg :=
  {| p_types := [("Perm", KUint8)];
     p_files := [ [ [ vs ["PermRead"] (TIdent "Perm") [EShl (ELit 1) EIota];
                      vs ["PermWrite"] TNone [];
                      vs ["PermRW"] TNone [EOr (ERef "PermRead") (ERef "PermWrite")] ] ] ] |}.

Theorem C04_refuted_K_enum_implicit_type :
  exists p T fl g,
    wf_pkg p = true /\ shape_ok p = true /\ no_implicit p T = false
    /\ generate p T fl = Some g
    /\ In ("PermRW", 3) (declared T p)
    /\ is_valid (const_env p) g 3 = false.
Proof.
  exists implicit_pkg, "Perm", no_flags. eexists. conj; vm_compute; try reflexivity.
  right. right. left. reflexivity.
Qed.
Print Assumptions C04_refuted_K_enum_implicit_type.

(* K_enum_foreign_carry (repaired in /repo): a carried-down spec after a spec with a
   qualified type is a constant of THAT type; the walk used to attribute it to the
   type remembered before.  Now the qualified-type spec resets the remembered type:
   the package is inside the guard and only the declared constant is in the tables. *)
Definition foreign_pkg : pkg :=
  {| p_types := [("Lvl", KInt64)];
     p_files := [ [ [ vs ["LvlA"] (TIdent "Lvl") [ELit 1];
                      vs ["Tick"] (TForeign KInt64) [ELit 5];
                      vs ["Tock"] TNone [] ] ] ] |}.

Example C04_example_K_enum_foreign_carry_repaired :
  enum_guard foreign_pkg "Lvl" = true
  /\ declared "Lvl" foreign_pkg = [("LvlA", 1)]
  /\ exists g, generate foreign_pkg "Lvl" no_flags = Some g
       /\ t_values (const_env foreign_pkg) g = [1]
       /\ is_valid (const_env foreign_pkg) g 5 = false.
Proof. split; [|split]; [vm_compute; reflexivity | vm_compute; reflexivity |]. eexists. conj; vm_compute; reflexivity. Qed.

(* the guard is per type: an implicitly typed constant of ANOTHER type does not
   take a type out of the theorems *)
Definition mixed_pkg : pkg :=
  {| p_types := [("Level", KInt8); ("Perm", KUint8)];
     p_files := [ [ [ vs ["LevelLow"] (TIdent "Level") [EIota]; vs ["LevelHigh"] TNone [] ];
                    [ vs ["PermRead"] (TIdent "Perm") [EShl (ELit 1) EIota];
                      vs ["PermWrite"] TNone [];
                      vs ["PermRW"] TNone [EOr (ERef "PermRead") (ERef "PermWrite")];
                      vs ["PermAlso"] TNone [] ] ] ] |}.

Example C04_example_guard_is_per_type :
  enum_guard mixed_pkg "Level" = true /\ enum_guard mixed_pkg "Perm" = false
  /\ declared "Level" mixed_pkg = [("LevelLow", 0); ("LevelHigh", 1)].
Proof. conj; vm_compute; reflexivity. Qed.

(* K_enum_dup_trimmed (open): two constants of the type whose names trim to one
   string (LevelHigh and High): duplicate keys in the generated ValueMap literal,
   the fresh output does not compile *)
Definition dup_trimmed_pkg : pkg :=
  {| p_types := [("Level", KInt)];
     p_files := [ [ [ vs ["LevelHigh"] (TIdent "Level") [ELit 1];
                      vs ["High"] (TIdent "Level") [ELit 2] ] ] ] |}.

Theorem C04_refuted_K_enum_dup_trimmed :
  exists p T fl g,
    wf_pkg p = true /\ shape_ok p = true /\ no_implicit p T = true
    /\ generate p T fl = Some g
    /\ compiles (const_env p) g false = false.
Proof. exists dup_trimmed_pkg, "Level", no_flags. eexists. conj; vm_compute; reflexivity. Qed.
Print Assumptions C04_refuted_K_enum_dup_trimmed.

(* K_enum_reserved_names (open; a compilability matter, C01): a constant named x is
   shadowed by the guard function's own `var x [1]struct{}` (and constants named
   fmt, bytes, errors, json, driver, shoot clash with the imports of the output).
   Such a package is inside enum_guard and passes `compiles`, whose scope is the
   guard index and the map keys only: the model does not see this error. *)
Definition axis_pkg : pkg :=
  {| p_types := [("Axis", KInt)];
     p_files := [ [ [ vs ["x"] (TIdent "Axis") [EIota]; vs ["y"] TNone []; vs ["z"] TNone [] ] ] ] |}.

Example C04_example_K_enum_reserved_names_not_modelled :
  enum_guard axis_pkg "Axis" = true
  /\ exists g, generate axis_pkg "Axis" no_flags = Some g /\ compiles (const_env axis_pkg) g false = true.
Proof. split; [vm_compute; reflexivity|]. eexists. conj; vm_compute; reflexivity. Qed.
