(* C12  enum codecs accept exactly the declared names; Parse helpers agree.

   With -json / -text / -sql the enum marshals to its String() name (the trimmed
   first declared name of the value, first_name -- the constant's own name unless
   an alias of the value is declared before it) and unmarshals only from a
   declared (trimmed) name, aliases included; any other input is an error
   and leaves the target unchanged; decode(encode(c)) = c for every declared
   constant.  shoot.ParseEnum / TryParseEnum / IsEnum agree with the generated
   ValueMap() / Values().

   Notation as in Properties/C04.v.  Every unmarshaller of the model returns
   (error, value of the target afterwards) given the target's value before.
   encoding/json enters only as two functions jenc/jdec (json.Marshal of a Go
   string, json.Unmarshal into a *string).  Rejection and acceptance are proved
   for an ARBITRARY decoder; only the round trip assumes that decoding inverts
   encoding, and only on the declared names (identifiers, on which the real
   library does; it does not on arbitrary byte strings such as "\xff").
   All statements: every package of the grammar, every string, every x : Z. *)
From Coq Require Import List ZArith Bool String.
From Shoot Require Import Model.Enum Proofs.EnumTables Proofs.EnumProofs Corr.EnumCorr Proofs.EnumPb.
Import ListNotations.
Local Open Scope string_scope.
Local Open Scope Z_scope.

(* split conjunctions only (never an equation), then compute each part *)
Ltac conj := repeat match goal with |- _ /\ _ => split end.

(* declared_name p T s: s is the trimmed name of a constant of type T *)
Theorem C12_declared_name_means : forall p T s,
  declared_name p T s <-> exists n v, In (n, v) (declared T p) /\ s = trim_prefix n T.
Proof. intros p T s. exact (iff_refl _). Qed.
Print Assumptions C12_declared_name_means.

(* -json, for ANY decoder jdec: non-string JSON (decoder error) and any string that
   is no declared name -- in particular the empty string that `null` decodes to --
   are errors that leave the target unchanged; a declared name (alias included)
   is accepted *)
Theorem C12_json_decode : forall (jdec : string -> option string) p T fl g tgt,
  enum_guard p T = true -> generate p T fl = Some g ->
  (forall data, jdec data = None ->
      unmarshal_json (const_env p) g jdec data tgt = (Some ENotString, tgt))
  /\ (forall data s, jdec data = Some s -> ~ declared_name p T s ->
        unmarshal_json (const_env p) g jdec data tgt = (Some ENotFound, tgt))
  /\ (forall data, jdec data = Some "" ->
        unmarshal_json (const_env p) g jdec data tgt = (Some ENotFound, tgt))
  /\ (forall data n v, jdec data = Some (trim_prefix n T) -> In (n, v) (declared T p) ->
        unmarshal_json (const_env p) g jdec data tgt = (None, v)).
Proof. exact P_json_decode. Qed.
Print Assumptions C12_json_decode.

(* -json round trip: MarshalJSON c = jenc (first declared name of c's value) and
   UnmarshalJSON (MarshalJSON c) = c, provided the decoder inverts the encoder ON
   THE DECLARED NAMES *)
Theorem C12_json_roundtrip :
  forall (jenc : string -> string) (jdec : string -> option string) p T fl g tgt,
  enum_guard p T = true -> generate p T fl = Some g ->
  (forall n v, In (n, v) (declared T p) -> jdec (jenc (trim_prefix n T)) = Some (trim_prefix n T)) ->
  forall n v, In (n, v) (declared T p) ->
    (exists n1, first_name (declared T p) v = Some n1
                /\ marshal_json (const_env p) g jenc v = jenc (trim_prefix n1 T))
    /\ unmarshal_json (const_env p) g jdec (marshal_json (const_env p) g jenc v) tgt = (None, v).
Proof. exact P_json_roundtrip. Qed.
Print Assumptions C12_json_roundtrip.

(* -text *)
Theorem C12_text_codec : forall p T fl g tgt,
  enum_guard p T = true -> generate p T fl = Some g ->
  (forall n v, In (n, v) (declared T p) ->
     (exists n1, first_name (declared T p) v = Some n1
                 /\ marshal_text (const_env p) g v = trim_prefix n1 T)
     /\ unmarshal_text (const_env p) g (marshal_text (const_env p) g v) tgt = (None, v)
     /\ unmarshal_text (const_env p) g (trim_prefix n T) tgt = (None, v))
  /\ (forall s, ~ declared_name p T s ->
        unmarshal_text (const_env p) g s tgt = (Some ENotFound, tgt)).
Proof. exact P_text_codec. Qed.
Print Assumptions C12_text_codec.

(* -sql: Value() is the name as a Go string; Scan(Value(c)) = c literally; Scan
   accepts a declared name as []byte or string; any other name and any other driver
   value of the model (nil, int64, float64, bool, time.Time) is an error that leaves
   the target unchanged *)
Theorem C12_sql_codec : forall p T fl g tgt,
  enum_guard p T = true -> generate p T fl = Some g ->
  (forall n v, In (n, v) (declared T p) ->
     (exists n1, first_name (declared T p) v = Some n1
                 /\ sql_value (const_env p) g v = SStr (trim_prefix n1 T))
     /\ scan (const_env p) g (sql_value (const_env p) g v) tgt = (None, v)
     /\ scan (const_env p) g (SBytes (trim_prefix n T)) tgt = (None, v)
     /\ scan (const_env p) g (SStr (trim_prefix n T)) tgt = (None, v))
  /\ (forall s, ~ declared_name p T s ->
        scan (const_env p) g (SBytes s) tgt = (Some ENotFound, tgt)
        /\ scan (const_env p) g (SStr s) tgt = (Some ENotFound, tgt))
  /\ (forall sv, (forall s, sv <> SBytes s) -> (forall s, sv <> SStr s) ->
        scan (const_env p) g sv tgt = (Some EBadType, tgt)).
Proof. exact P_sql_codec. Qed.
Print Assumptions C12_sql_codec.

(* ParseEnum: Ok exactly on declared names, with the constant's value *)
Theorem C12_parse_enum : forall p T fl g,
  enum_guard p T = true -> generate p T fl = Some g ->
  (forall n v, In (n, v) (declared T p) ->
     parse_enum (const_env p) g (trim_prefix n T) = (v, None))
  /\ (forall s, ~ declared_name p T s -> parse_enum (const_env p) g s = (0, Some ENotFound))
  /\ (forall s v, parse_enum (const_env p) g s = (v, None) ->
        exists n, In (n, v) (declared T p) /\ s = trim_prefix n T).
Proof. exact P_parse_enum. Qed.
Print Assumptions C12_parse_enum.

(* ParseEnum agrees with the generated ValueMap() for every string.  This holds by
   construction of the model (parse_enum is the lookup in t_value_map, as enumer.go
   looks up ValueMap()); it is tied to the code by the run, which compares ParseEnum
   with the OBSERVED ValueMap().  The content-bearing statements are C12_parse_enum
   and C12_try_parse_enum (against `declared`). *)
Theorem C12_parse_enum_agrees_value_map : forall p T fl g s,
  enum_guard p T = true -> generate p T fl = Some g ->
  (forall v, parse_enum (const_env p) g s = (v, None) <->
             assoc_s s (t_value_map (const_env p) g) = Some v)
  /\ (snd (parse_enum (const_env p) g s) <> None <->
      assoc_s s (t_value_map (const_env p) g) = None).
Proof. exact P_parse_enum_agrees_value_map. Qed.
Print Assumptions C12_parse_enum_agrees_value_map.

(* TryParseEnum writes only on success *)
Theorem C12_try_parse_enum : forall p T fl g tgt,
  enum_guard p T = true -> generate p T fl = Some g ->
  (forall n v, In (n, v) (declared T p) ->
     try_parse_enum (const_env p) g (trim_prefix n T) tgt = (true, v))
  /\ (forall s, ~ declared_name p T s -> try_parse_enum (const_env p) g s tgt = (false, tgt)).
Proof. exact P_try_parse_enum. Qed.
Print Assumptions C12_try_parse_enum.

(* the two cases above are exhaustive *)
Theorem C12_declared_name_decidable : forall p T fl g s,
  enum_guard p T = true -> generate p T fl = Some g ->
  declared_name p T s \/ ~ declared_name p T s.
Proof. exact P_declared_name_decidable. Qed.
Print Assumptions C12_declared_name_decidable.

(* IsEnum[T, TV](x) for EVERY integer x (of any argument type): true iff x is a
   declared value, iff x is in Values() -- no wrap-around (IsEnum[int8-enum](259)
   is false even if 3 is declared; K_is_enum_wrap, repaired) *)
Theorem C12_is_enum : forall p T fl g x,
  enum_guard p T = true -> generate p T fl = Some g ->
  (is_enum (const_env p) g x = true <-> In x (map snd (declared T p)))
  /\ (is_enum (const_env p) g x = true <-> In x (t_values (const_env p) g)).
Proof. exact P_is_enum. Qed.
Print Assumptions C12_is_enum.

(* the conversion T(v) used inside IsEnum (x := T(value); representable iff it did not
   change the number): identity on T's range, always lands in the range, and differs
   from v by a multiple of 2^width *)
Theorem C12_conversion_wraps : forall k x,
  (in_range k x = true -> wrap k x = x)
  /\ in_range k (wrap k x) = true
  /\ exists q, wrap k x = x + q * 2 ^ width k.
Proof. intros k x. exact (conj (wrap_in_range k x) (conj (wrap_range k x) (wrap_congruent k x))). Qed.
Print Assumptions C12_conversion_wraps.

(* the boolean property evaluated on the implementation's observation
   (EnumCorr.Pb12: every codec call, round trip, ParseEnum/TryParseEnum/IsEnum
   call of the run) is implied by the theorems: the model's own observation
   satisfies it inside the guard for ANY list of inputs and ANY JSON decoding of
   them (the run uses the decoding encoding/json itself produced) *)
Theorem C12_checked_property_follows : forall (c : case) (o : obs),
  enum_guard (c_pkg c) (c_type c) = true ->
  f_bit (c_flags c) = false ->
  Pb12 c (model_obs c o) = true.
Proof. exact Pb12_model_in_guard. Qed.
Print Assumptions C12_checked_property_follows.

(* ------------------------------------------------------------- non-vacuity *)
Definition vs (names : list string) (ty : vtype) (vals : list cexpr) : vspec :=
  {| vs_names := names; vs_type := ty; vs_vals := vals |}.

(* multi-name and carried-down specs, blanks, a negative value, an unprefixed
   name, a second type with values near the top of uint16 *)
Definition ex_pkg : pkg :=
  {| p_types := [("Level", KInt8); ("Mode", KUint16)];
     p_files :=
       [ [ [ vs ["LevelLow"] (TIdent "Level") [ELit (-2)];
             vs ["LevelMid"; "High"] (TIdent "Level") [EMul EIota (ELit 10); EAdd EIota (ELit 2)];
             vs ["_"; "_"] TNone [];
             vs ["LevelTop"; "LevelMax"] TNone [] ];
           [ vs ["ModeA"] (TIdent "Mode") [EAdd (EMul EIota (ELit 10)) (ELit 65000)];
             vs ["ModeB"] TNone [] ] ] ] |}.

Definition codec_flags : flags :=
  {| f_bit := false; f_json := true; f_text := true; f_sql := true; f_gorm := false |}.

Example C12_example_guard : enum_guard ex_pkg "Level" = true /\ enum_guard ex_pkg "Mode" = true.
Proof. conj; vm_compute; reflexivity. Qed.

Example C12_example_declared :
  declared "Level" ex_pkg = [("LevelLow", -2); ("LevelMid", 10); ("High", 3); ("LevelTop", 30); ("LevelMax", 5)]
  /\ declared "Mode" ex_pkg = [("ModeA", 65000); ("ModeB", 65010)].
Proof. conj; vm_compute; reflexivity. Qed.

Example C12_example_generated :
  exists g, generate ex_pkg "Level" codec_flags = Some g
    /\ t_value_map (const_env ex_pkg) g = [("Low", -2); ("High", 3); ("Max", 5); ("Mid", 10); ("Top", 30)]
    /\ parse_enum (const_env ex_pkg) g "Top" = (30, None)
    /\ parse_enum (const_env ex_pkg) g "LevelTop" = (0, Some ENotFound)
    /\ is_enum (const_env ex_pkg) g 3 = true /\ is_enum (const_env ex_pkg) g (3 + 256) = false.
Proof. eexists. conj; vm_compute; reflexivity. Qed.

(* the round-trip hypothesis is satisfiable: the quote / unquote codec that the model side of
   the correspondence run uses satisfies it for every string, hence on the declared names *)
Example C12_json_law_instance : forall s, EnumCorr.jdec (EnumCorr.jenc s) = Some s.
Proof. exact EnumCorr.jdec_jenc. Qed.
