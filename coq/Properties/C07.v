(* C07: the bytes shoot writes are a function of the hand-written sources and the command line.
   Model: Model/Gen.v -- `run o p prior c`: every Go `range` over a map goes through the oracle o, the package
   view is the hand-written files + what earlier runs left (prior) + the overlay; no absolute path, no clock.
   Only statements here; proofs in Proofs/GenSigmaProofs.v, GenProofs.v, GenBaseProofs.v, GenWitnessProofs.v. *)
From Coq Require Import List String Bool Permutation.
From Shoot Require Import Model.Gen Proofs.GenBaseProofs Proofs.GenProofs Proofs.GenSigmaProofs Proofs.GenMapSigmaProofs Proofs.GenNewProofs Proofs.GenResetProofs Proofs.GenWitnessProofs.
Import ListNotations.
Local Open Scope string_scope.

(* the proof obligation behind every sort after a map iteration *)
Theorem C07_sorting_permutations_agree : forall l1 l2, Permutation l1 l2 -> sort_strings l1 = sort_strings l2.
Proof. exact sort_strings_perm. Qed.
Print Assumptions C07_sorting_permutations_agree.

Theorem C07_sorting_by_distinct_keys_agree : forall (A : Type) (key : A -> string) l1 l2,
  Permutation l1 l2 -> (forall a b, In a l1 -> In b l1 -> key a = key b -> a = b) -> sort_by_key key l1 = sort_by_key key l2.
Proof. exact @sort_by_key_perm. Qed.
Print Assumptions C07_sorting_by_distinct_keys_agree.

(* getGoFile ranges over types.Info.Defs: harmless as long as a name is declared at package scope in one file *)
Theorem C07_getgofile_oracle_irrelevant : forall o1 o2 v T,
  legal o1 -> legal o2 ->
  (forall e e', In e (type_defs v) -> In e' (type_defs v) -> fst e = T -> fst e' = T -> snd e = snd e') ->
  get_go_file o1 v T = get_go_file o2 v T.
Proof. exact get_go_file_oracle_irrelevant. Qed.
Print Assumptions C07_getgofile_oracle_irrelevant.

(* cookClient: alias reversal and header maps; guard = the complement of K_rest_alias_dup's input class *)
Theorem C07_rest_cook_oracle_irrelevant : forall o1 o2 c st v T,
  legal o1 -> legal o2 ->
  (forall fn h r, find_iface_decl v T = Some (fn, h, r) -> iface_ok r) ->
  same_src rrender rrender (rest_make o1 c st v T) (rest_make o2 c st v T).
Proof. exact rest_make_oracle. Qed.
Print Assumptions C07_rest_cook_oracle_irrelevant.

Theorem C07_refuted_K_rest_alias_dup :
  ~ alias_injective dup_method /\ legal id_oracle /\ legal rev_oracle /\
  option_map md_pathparams (rest_method id_oracle {| pv_hand := []; pv_gen := [] |} dup_file dup_method) <>
  option_map md_pathparams (rest_method rev_oracle {| pv_hand := []; pv_gen := [] |} dup_file dup_method).
Proof. exact (conj alias_dup_not_injective (conj legal_id (conj legal_rev alias_dup_order_dependent))). Qed.
Print Assumptions C07_refuted_K_rest_alias_dup.

(* mapper/check.go nilCheckWrite ranges over srcPtrTypeMap / destPtrTypeMap and sorts afterwards *)
Theorem C07_map_nil_check_write_oracle_irrelevant : forall o1 o2 fs sel ptrs,
  legal o1 -> legal o2 -> NoDup (keys ptrs) ->
  snd (nil_check_write o1 fs sel ptrs) = snd (nil_check_write o2 fs sel ptrs) /\
  forall k, alookup k (fst (nil_check_write o1 fs sel ptrs)) = alookup k (fst (nil_check_write o2 fs sel ptrs)).
Proof. exact nil_check_write_oracle. Qed.
Print Assumptions C07_map_nil_check_write_oracle_irrelevant.

(* mapper MakeData + template, no guard: same stale flag, same rendered file for any two iteration orders *)
Theorem C07_map_make_oracle_irrelevant : forall o1 o2 c dp dv st v T,
  legal o1 -> legal o2 ->
  same_src map_render map_render (map_make o1 c dp dv st v T) (map_make o2 c dp dv st v T).
Proof. exact map_make_oracle. Qed.
Print Assumptions C07_map_make_oracle_irrelevant.

(* main.go's write loop ranges over the source map: the directory afterwards is the same *)
Theorem C07_write_loop_order_irrelevant : forall o1 o2 (sm prior : gfiles),
  legal o1 -> legal o2 -> NoDup (keys sm) -> NoDup (keys prior) ->
  listing (fold_left (fun d e => upsert (fst e) (snd e) d) (o1 _ sm) prior) =
  listing (fold_left (fun d e => upsert (fst e) (snd e) d) (o2 _ sm) prior).
Proof. exact write_loop_order. Qed.
Print Assumptions C07_write_loop_order_irrelevant.

Theorem C07_source_map_names_distinct : forall o p prior c sm, run_generate o p prior c = Some sm -> NoDup (keys sm).
Proof. exact run_generate_nodup. Qed.
Print Assumptions C07_source_map_names_distinct.

(* schedule-independence of a whole run, all four subcommands, -file= / -type=*: two runs from the same directory
   state that differ only in the iteration order of every Go map compute the same source map *)
Theorem C07_schedule_independent : forall p prior c o1 o2,
  legal o1 -> legal o2 -> specified c = false ->
  (c_sub c = CRest -> rest_pkg_ok (p_hw p)) ->
  run_generate o1 p prior c = run_generate o2 p prior c.
Proof. exact schedule_independent_unspecified. Qed.
Print Assumptions C07_schedule_independent.

(* schedule- and history-independence: enum and rest with -file= / -type=*, for ALL oracles and ALL directory
   contents (current output, stale output, anything else) *)
Theorem C07_enum_run_independent : forall p c o1 o2 prior1 prior2,
  c_sub c = CEnum -> specified c = false ->
  run_generate o1 p prior1 c = run_generate o2 p prior2 c.
Proof. exact enum_run_independent. Qed.
Print Assumptions C07_enum_run_independent.

Theorem C07_rest_run_independent : forall p c o1 o2 prior1 prior2,
  c_sub c = CRest -> specified c = false -> legal o1 -> legal o2 -> rest_pkg_ok (p_hw p) ->
  run_generate o1 p prior1 c = run_generate o2 p prior2 c.
Proof. exact rest_run_independent. Qed.
Print Assumptions C07_rest_run_independent.

(* new -getset / -json: outside (a superset of) the input class of K_embed_order / K_aio_overlay_stale (no struct embeds a struct)
   and of K_new_selects_generated (no generated file declares a struct `new` would select: new's own output never does) *)
Theorem C07_new_run_independent : forall p c o1 o2 prior1 prior2,
  c_sub c = CNew -> specified c = false -> no_embedding (hand_of (p_hw p)) ->
  no_eligible_gen CNew (disk_of p prior1) -> no_eligible_gen CNew (disk_of p prior2) ->
  run_generate o1 p prior1 c = run_generate o2 p prior2 c.
Proof. exact new_run_independent. Qed.
Print Assumptions C07_new_run_independent.

(* new WITHOUT -getset, embedding allowed: directories that hold no accessor interface (a run without -getset never writes
   one) and no selectable generated struct *)
Theorem C07_new_noget_run_independent : forall o1 o2 c hw disk1 disk2 st1 st2,
  c_getset c = false -> specified c = false ->
  iface_free disk1 -> iface_free disk2 -> no_eligible_gen CNew disk1 -> no_eligible_gen CNew disk2 ->
  generate (new_make c) nrender (list_types_of CNew) c o1 hw disk1 st1 =
  generate (new_make c) nrender (list_types_of CNew) c o2 hw disk2 st2.
Proof. exact new_noget_unspecified_independent. Qed.
Print Assumptions C07_new_noget_run_independent.

(* ... and with -type=A,B when every named type is declared in one file in both directory states *)
Theorem C07_blind_specified_independent :
  forall (St Data : Type) (make : St -> pview -> string -> mres Data St) (render : St -> Data -> afile),
  (forall st1 st2 v T, same_out render (make st1 v T) (make st2 v T)) ->
  forall hw, blind_at (hand_of hw) make ->
  forall lt c o1 o2 disk1 disk2 st1 st2,
    specified c = true -> legal o1 -> legal o2 ->
    (forall T, In T (c_types c) -> same_defs (mk_view hw disk1 []) (mk_view hw disk2 []) T) ->
    generate make render lt c o1 hw disk1 st1 = generate make render lt c o2 hw disk2 st2.
Proof. exact @generate_blind_specified. Qed.
Print Assumptions C07_blind_specified_independent.

(* hence running twice is a fixpoint.  Generic form: whenever Clean is not active (-sep, -type=A,B, or -file=f: the usual
   //go:generate line, all-in-one included) and the source map computed over the directory the first run left equals the one
   computed over the directory it found, the second run rewrites the same files and leaves the same listing *)
Theorem C07_twice_is_fixpoint_generic : forall p c,
  (forall v dir, clean c (all_in_one_file c v) dir = dir) ->
  forall o1 o2 prior w dir,
    legal o1 -> legal o2 -> NoDup (keys prior) ->
    run o1 p prior c = ODone w dir ->
    run_generate o2 p dir c = run_generate o1 p prior c ->
    exists w' dir', run o2 p dir c = ODone w' dir' /\ listing dir' = listing dir /\ Permutation w' w.
Proof. exact run_twice_fixpoint. Qed.
Print Assumptions C07_twice_is_fixpoint_generic.

Theorem C07_clean_inactive : forall c, separate c = true \/ c_file c <> "" -> forall v dir, clean c (all_in_one_file c v) dir = dir.
Proof. exact clean_inactive. Qed.
Print Assumptions C07_clean_inactive.

Theorem C07_enum_twice_is_fixpoint : forall p c o1 o2 prior w dir,
  c_sub c = CEnum -> specified c = false -> c_sepflag c = true \/ c_file c <> "" ->
  legal o1 -> legal o2 -> NoDup (keys prior) ->
  run o1 p prior c = ODone w dir ->
  exists w' dir', run o2 p dir c = ODone w' dir' /\ listing dir' = listing dir /\ Permutation w' w.
Proof. exact enum_twice_fixpoint. Qed.
Print Assumptions C07_enum_twice_is_fixpoint.

Theorem C07_rest_twice_is_fixpoint : forall p c o1 o2 prior w dir,
  c_sub c = CRest -> specified c = false -> c_sepflag c = true \/ c_file c <> "" -> rest_pkg_ok (p_hw p) ->
  legal o1 -> legal o2 -> NoDup (keys prior) ->
  run o1 p prior c = ODone w dir ->
  exists w' dir', run o2 p dir c = ODone w' dir' /\ listing dir' = listing dir /\ Permutation w' w.
Proof. exact rest_twice_fixpoint. Qed.
Print Assumptions C07_rest_twice_is_fixpoint.

Theorem C07_new_twice_is_fixpoint : forall p c o1 o2 prior w dir,
  c_sub c = CNew -> specified c = false -> c_sepflag c = true \/ c_file c <> "" -> no_embedding (hand_of (p_hw p)) ->
  no_eligible_gen CNew (p_aux p) -> no_eligible_gen CNew prior ->
  legal o1 -> legal o2 -> NoDup (keys prior) ->
  run o1 p prior c = ODone w dir ->
  exists w' dir', run o2 p dir c = ODone w' dir' /\ listing dir' = listing dir /\ Permutation w' w.
Proof. exact new_twice_fixpoint. Qed.
Print Assumptions C07_new_twice_is_fixpoint.

(* -type=A,B (one file per type; Clean inactive): enum and rest, when every listed type name is declared by the same files in the
   directory the first run found and in the one it left (true unless a generated file declares a type named like a listed one) *)
Theorem C07_enum_specified_twice_is_fixpoint : forall p c, specified c = true -> forall o1 o2 prior w dir,
  c_sub c = CEnum -> legal o1 -> legal o2 -> NoDup (keys prior) ->
  (forall T, In T (c_types c) -> same_defs (mk_view (p_hw p) (disk_of p dir) []) (mk_view (p_hw p) (disk_of p prior) []) T) ->
  run o1 p prior c = ODone w dir ->
  exists w' dir', run o2 p dir c = ODone w' dir' /\ listing dir' = listing dir /\ Permutation w' w.
Proof. exact enum_specified_twice_fixpoint. Qed.
Print Assumptions C07_enum_specified_twice_is_fixpoint.

Theorem C07_rest_specified_twice_is_fixpoint : forall p c, specified c = true -> forall o1 o2 prior w dir,
  c_sub c = CRest -> rest_pkg_ok (p_hw p) -> legal o1 -> legal o2 -> NoDup (keys prior) ->
  (forall T, In T (c_types c) -> same_defs (mk_view (p_hw p) (disk_of p dir) []) (mk_view (p_hw p) (disk_of p prior) []) T) ->
  run o1 p prior c = ODone w dir ->
  exists w' dir', run o2 p dir c = ODone w' dir' /\ listing dir' = listing dir /\ Permutation w' w.
Proof. exact rest_specified_twice_fixpoint. Qed.
Print Assumptions C07_rest_specified_twice_is_fixpoint.

(* NOT PROVED (tied by the correspondence only): the fixpoint for `-type=*` without -file (Clean active: needs
   clean c aio (write sm (clean c aio (write sm prior))) = clean c aio (write sm prior)), the -type=A,B instance for new, and every
   history statement for map (that the mapper does not read its own ToX/FromX/ShootMap methods back). *)

(* the analysis of a type never depends on the hand-written part of the view through generated files *)
Theorem C07_hand_part_independent_of_generated_files : forall hw disk ov,
  hand_decls (mk_view hw disk ov) = hand_decls (mk_view hw [] []).
Proof. exact hand_decls_mk_view. Qed.
Print Assumptions C07_hand_part_independent_of_generated_files.

(* open findings reproduced by the model (the guards above exclude exactly these classes) *)
Theorem C07_refuted_K_embed_order : toks_of_files run1_eo <> toks_of_files run2_eo.
Proof. exact embed_order_not_fixpoint. Qed.
Print Assumptions C07_refuted_K_embed_order.

Theorem C07_refuted_K_aio_overlay_stale :
  toks_of_files (run_generate id_oracle (mkpkg hw_as2) stale_as c_as) <> toks_of_files (run_generate id_oracle (mkpkg hw_as2) [] c_as).
Proof. exact aio_overlay_stale_history_dependent. Qed.
Print Assumptions C07_refuted_K_aio_overlay_stale.

Theorem C07_refuted_K_new_selects_generated :
  list_types_of CNew (mk_view hw_ng [] []) = ["Order"] /\
  list_types_of CNew (mk_view hw_ng rest_out_ng []) = ["Order"; "client"].
Proof. exact new_selects_generated. Qed.
Print Assumptions C07_refuted_K_new_selects_generated.

(* ---- non-vacuity *)
Example C07_example_oracles : legal id_oracle /\ legal rev_oracle.
Proof. exact (conj legal_id legal_rev). Qed.

Example C07_example_new_guard : no_embedding (hand_of hw_ab) /\ ~ no_embedding (hand_of hw_eo).
Proof.
  split; [apply no_embeddingb_ok; reflexivity|].
  intros H. assert (Hin : In ("f.go", hfile1 "f.go" [strct "Son" [IEmbed "Base" false false; IField (fld "k" "string")]; strct "Base" [IField (fld "z" "string")]],
                              HStruct {| ss_name := "Son"; ss_tparams := []; ss_hasdoc := false; ss_dgetter := false; ss_dsetter := false;
                                         ss_items := [IEmbed "Base" false false; IField (fld "k" "string")] |}) (hand_of hw_eo)) by (left; reflexivity).
  specialize (H _ _ _ Hin). inversion H as [|? ? Hx _]. exact Hx.
Qed.

Example C07_example_rest_guard :
  rest_pkg_ok [hfile1 "api.go" [HIface {| ri_name := "A"; ri_headers := [("X-Api", "k")];
                                          ri_methods := [ {| rm_name := "Ping"; rm_hasdoc := true; rm_verb := "GET"; rm_path := "/a/{id}";
                                                             rm_pparams := ["id"]; rm_alias := [("uid", "id"); ("page", "p")];
                                                             rm_params := []; rm_result := ""; rm_result_ptr := false |} ] |}]].
Proof. apply rest_pkg_okb_ok. reflexivity. Qed.
