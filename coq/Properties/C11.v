(* C11  shoot new -json: key set, key names and Marshal/Unmarshal round trip.

   The model (Model/CtorJson.v on top of Model/CtorGetSet.v and Model/Ctor.v) is the literal makeJson of /repo and
   the JSON part of the template: the shadow struct _json_T, MarshalJSON (getters and exported fields into it),
   UnmarshalJSON (setters and exported fields out of it), on Base/GoVal values; encoding/json enters the round-trip
   theorem as Section variables with one law (decoding what was encoded gives the members back when their names are
   distinct under case folding).  The statements quantify over ALL struct packages of the grammar, all package
   views, all flag records (the four -tagcase values), all values.

   Guards: [c02_guard] (C02), and the decidable [json_aligned] / [json_keys_ok] of the round trip.  The input classes
   of the open findings K_json_promoted_tag_lost, K_json_promoted_marshaler, K_json_nil_embed
   are refuted by witnesses below.  This file contains only statements closed by [exact]. *)
From Coq Require Import String Ascii List Bool Arith ZArith.
From Shoot Require Import Base.Str Base.GoVal Model.Transfer Model.CtorDirective Model.Ctor Model.CtorSpec Model.CtorOpt
                          Model.CtorGetSet Model.CtorJson.
From Shoot Require Import Proofs.GoValProofs Proofs.CtorFlattenProofs Proofs.CtorC02Proofs Proofs.CtorOptProofs
                          Proofs.CtorGetSetProofs Proofs.CtorGetSetSemProofs Proofs.CtorJsonProofs.
Import ListNotations.
Local Open Scope string_scope.

(* Lemma about the literal loop (NOT yet the property's sentence): JSONList is the filter of the flattened entries by
   makeJson's own tests -- an unshadowed leaf whose tag is not "-" (j_live) that is exported, or has an own accessor
   mark admitted by the type-level directive, or whose Pascal-cased name is found BY NAME among the methods collected
   from the embedded accessor interfaces.  The declarative reading is split over the next theorems. *)
Theorem C11_key_set_loop : forall fl sd d fields,
  fl_json fl = true ->
  let jd := make_json fl sd d fields in
  let tc := fl_tagcase fl in let G := fst (type_switch fl sd) in let S := snd (type_switch fl sd) in
  let ms := gs_methods d in
  jd_list jd = map f_name (filter (j_listed G S ms) fields) /\
  jd_getters jd = map f_name (filter (j_getter G ms) fields) /\
  jd_setters jd = map f_name (filter (j_setter S ms) fields) /\
  jd_exported jd = map f_name (filter j_exported fields) /\
  jd_json jd = existsb (j_need tc G S ms) fields.
Proof. exact json_lists. Qed.
Print Assumptions C11_key_set_loop.

Theorem C11_no_json_flag : forall fl sd d fields, fl_json fl = false -> make_json fl sd d fields = empty_json.
Proof. exact no_json_flag_no_json. Qed.
Print Assumptions C11_no_json_flag.

(* The entries makeJson filters are, in order, exactly the fields Go's selector rule selects on T by their bare name
   (own and promoted, shadowed ones excluded). *)
Theorem C11_entries_are_selectable_leaves : forall pkg fl fuel sd fs hn,
  flatten pkg fl fuel sd = COk (fs, hn) ->
  c02_guard pkg fuel sd = true -> no_excluded_fields sd = true ->
  map f_path (filter oentry fs) = selectable_leaves pkg fuel sd.
Proof. exact live_entries_are_selectable_leaves. Qed.
Print Assumptions C11_entries_are_selectable_leaves.

(* "one key per exported field": the exported members are exactly the exported fields Go selects on T whose
   declaration is not tagged json:"-" (fully declarative: struct graph and tags only). *)
Theorem C11_exported_members : forall pkg v fl fuel sd fields d nd jd,
  json_of pkg v fl fuel sd = COk (fields, d, nd, jd) ->
  fl_json fl = true -> c02_guard pkg fuel sd = true -> no_excluded_fields sd = true ->
  no_promoted_json_tags pkg fuel sd = true ->
  jd_exported jd =
  map (fun p => last p "")
      (filter (fun p => is_exported (last p "") && negb (String.eqb (spec_tag pkg fuel sd p) "-"))
              (selectable_leaves pkg fuel sd)).
Proof. exact exported_members. Qed.
Print Assumptions C11_exported_members.

(* Key names.  Every entry makeJson looks at IS the field Go's selector rule resolves its name to, and its tag text in
   JSONTagMap is the explicit json tag of the field's DECLARATION (looked up in the struct that declares it) or else the
   -tagcase transform (pascal / camel / lower / upper) of the field name.  Needs no_promoted_json_tags: the tag of a
   promoted field is lost (finding K_json_promoted_tag_lost, refuted below). *)
Theorem C11_key_names : forall pkg v fl fuel sd fields d nd jd,
  json_of pkg v fl fuel sd = COk (fields, d, nd, jd) ->
  fl_json fl = true -> c02_guard pkg fuel sd = true -> no_promoted_json_tags pkg fuel sd = true ->
  forall e, In e fields -> j_live e = true ->
    resolve pkg fuel sd (f_name e) = Some (f_path e) /\
    assoc_s (f_name e) (jd_tags jd) = spec_key_tag pkg fl fuel sd (f_path e).
Proof. exact key_table. Qed.
Print Assumptions C11_key_names.

(* The part of the round trip's hypothesis json_aligned that holds for makeJson's output by construction.  NOT proved
   for makeJson's output (evaluated on every sample of the correspondence run instead, a failure is a violation): that
   the accessor found BY NAME for a field is the accessor OF that field (first two conjuncts of json_aligned), and that
   the listed names / member names are distinct. *)
Theorem C11_aligned_structure : forall pkg v fl fuel sd fields d nd jd,
  json_of pkg v fl fuel sd = COk (fields, d, nd, jd) ->
  fl_json fl = true -> c02_guard pkg fuel sd = true -> no_excluded_fields sd = true ->
  (forall f, In f (jd_list jd) ->
     existsb (path_eqb (json_path pkg fuel sd f)) (leaf_paths pkg fuel (self_inst sd) []) = true /\
     is_some (resolve pkg fuel sd f) = true) /\
  (forall f, In f (jd_getters jd) -> mem_str f (jd_exported jd) = false) /\
  (forall f, In f (jd_setters jd) -> mem_str f (jd_exported jd) = false) /\
  (forall f, In f (jd_getters jd ++ jd_setters jd ++ jd_exported jd)%list -> mem_str f (jd_list jd) = true).
Proof. exact aligned_structure. Qed.
Print Assumptions C11_aligned_structure.

(* Progress: MarshalJSON returns (no panic) on every value in which all listed fields can be read, UnmarshalJSON on
   every value in which all assigned fields can be read -- i.e. no nil embedded pointer on the way (K_json_nil_embed is
   exactly the complement, refuted below).  So the round trip below is not vacuous on such values. *)
Theorem C11_marshal_runs : forall pkg v fuel sd jd,
  json_aligned pkg v fuel sd jd = true -> json_keys_ok jd = true ->
  forall x, (forall f, In f (jd_list jd) -> exists y, lookup x (json_path pkg fuel sd f) = Ok y) ->
  exists kv, marshal pkg v fuel sd jd x = Ok kv.
Proof. exact marshal_runs. Qed.
Print Assumptions C11_marshal_runs.

Theorem C11_unmarshal_runs : forall pkg v fuel sd jd,
  c02_guard pkg fuel sd = true -> json_aligned pkg v fuel sd jd = true -> json_keys_ok jd = true ->
  forall kv w, (forall f, In f (jd_setters jd ++ jd_exported jd)%list -> exists y, lookup w (json_path pkg fuel sd f) = Ok y) ->
  exists w', unmarshal pkg v fuel sd jd kv w = Ok w'.
Proof. exact unmarshal_runs. Qed.
Print Assumptions C11_unmarshal_runs.

(* Round trip, for ALL values x and w of the GoVal model and any encoder/decoder pair with the stated law (members with
   option omitempty are left out when zero; a field tagged "-" is not part of the JSON code at all): after
   UnmarshalJSON(MarshalJSON(x)) into w, every listed field that is exported or has both accessors holds x's value,
   a field with a setter but no getter holds the zero value (it was emitted as zero), every other listed field of w
   is untouched. *)
Theorem C11_round_trip : forall (wire : Type) (enc : list (string * val) -> wire) (dec : wire -> list (string * val)),
  (forall kv, nodup_str (map (fun m : string * val => lower (fst m)) kv) = true -> dec (enc kv) = kv) ->
  forall pkg v fuel sd jd,
  c02_guard pkg fuel sd = true -> json_aligned pkg v fuel sd jd = true -> json_keys_ok jd = true ->
  forall x kv w w',
    marshal pkg v fuel sd jd x = Ok kv ->
    unmarshal pkg v fuel sd jd (dec (enc kv)) w = Ok w' ->
    forall f, In f (jd_list jd) ->
      (mem_str f (jd_exported jd) || (mem_str f (jd_getters jd) && mem_str f (jd_setters jd)) = true ->
         lookup w' (json_path pkg fuel sd f) = lookup x (json_path pkg fuel sd f)) /\
      (mem_str f (jd_setters jd) && negb (mem_str f (jd_getters jd)) = true ->
         lookup w' (json_path pkg fuel sd f) = Ok VZero) /\
      (negb (mem_str f (jd_exported jd)) && negb (mem_str f (jd_setters jd)) = true ->
         lookup w' (json_path pkg fuel sd f) = lookup w (json_path pkg fuel sd f)).
Proof. exact round_trip. Qed.
Print Assumptions C11_round_trip.

(* ------------------------------------------------------------------ examples *)
Definition fd1 (n : ident) (t : ty) (doc : string) : fdecl := {| fd_names := [n]; fd_ty := t; fd_doc := doc; fd_tag := None |}.
Definition fdt (n : ident) (t : ty) (tag : string) : fdecl :=
  {| fd_names := [n]; fd_ty := t; fd_doc := "";
     fd_tag := Some ("`json:" ++ String (ascii_of_nat 34) (tag ++ String (ascii_of_nat 34) "`")) |}.
Definition emb (t : ty) : fdecl := {| fd_names := []; fd_ty := t; fd_doc := ""; fd_tag := None |}.
Definition nl : string := String (ascii_of_nat 10) EmptyString.

Definition ex_base : sdecl :=
  {| sd_pkg := ""; sd_name := "Base"; sd_tparams := []; sd_doc := "";
     sd_fields := [fd1 "z" (TBasic "string") ""; fd1 "g" (TBasic "int") ("shoot: get" ++ nl);
                   fd1 "s" (TBasic "int") ("shoot: set" ++ nl); fd1 "Exp" (TBasic "int") ""] |}.
Definition ex_son : sdecl :=
  {| sd_pkg := ""; sd_name := "Son"; sd_tparams := []; sd_doc := "";
     sd_fields := [emb (TPtr (TNamed "" "Base" [])); fd1 "user_name" (TBasic "string") "";
                   fdt "userID" (TBasic "int") "uid"; fd1 "URL" (TBasic "string") ""] |}.
Definition ex_pkg : pkg_spec := [ex_base; ex_son].
Definition js_flags (tc : tagcase) : ctor_flags :=
  {| fl_getset := true; fl_json := true; fl_tagcase := tc; fl_opt := false; fl_exp := false; fl_short := false |}.

Definition ex_view : view :=
  Eval vm_compute in match run_getset ex_pkg (js_flags TagLower) 8 ["Base"] [] with COk (_, v) => v | _ => [] end.

(* Son after Base, -tagcase=lower: promoted accessors of *Base are used, the explicit tag wins, getter-only g and
   setter-only s are split over the getter / setter lists *)
Example C11_example_lists :
  match json_of ex_pkg ex_view (js_flags TagLower) 8 ex_son with
  | COk (_, _, _, jd) =>
      jd_json jd = true /\
      jd_list jd = ["z"; "g"; "s"; "Exp"; "user_name"; "userID"; "URL"] /\
      jd_getters jd = ["z"; "g"; "user_name"; "userID"] /\ jd_setters jd = ["z"; "s"; "user_name"; "userID"] /\
      jd_exported jd = ["Exp"; "URL"] /\
      map (json_key jd) (jd_list jd) = ["z"; "g"; "s"; "exp"; "user_name"; "uid"; "url"] /\
      json_keys_ok jd = true
  | _ => False
  end.
Proof. vm_compute. repeat split; reflexivity. Qed.

(* the four transforms on one name *)
Example C11_example_tagcases :
  map (fun tc => tag_trans tc "user_name") [TagPascal; TagCamel; TagLower; TagUpper] = ["UserName"; "userName"; "user_name"; "USER_NAME"] /\
  map (fun tc => tag_trans tc "apiURL") [TagPascal; TagCamel; TagLower; TagUpper] = ["ApiURL"; "apiUrl"; "apiurl"; "APIURL"].
Proof. vm_compute. split; reflexivity. Qed.

(* the guards of the round trip hold for Son in the package with both files loaded, and a concrete round trip *)
Example C11_example_round_trip :
  match run_getset ex_pkg (js_flags TagLower) 8 ["Base"; "Son"] [] with
  | COk (_, v) =>
      match json_of ex_pkg ex_view (js_flags TagLower) 8 ex_son with
      | COk (_, _, _, jd) =>
          c02_guard ex_pkg 8 ex_son = true /\ json_aligned ex_pkg v 8 ex_son jd = true /\
          let x := VPtr (VStruct [("Base", VPtr (VStruct [("z", VS "a"); ("g", VZ 1); ("s", VZ 2); ("Exp", VZ 3)]));
                                  ("user_name", VS "u"); ("userID", VZ 4); ("URL", VS "w")]) in
          let w := VPtr (VStruct [("Base", VPtr (VStruct [("z", VS "0"); ("g", VZ 10); ("s", VZ 20); ("Exp", VZ 30)]));
                                  ("user_name", VS "v"); ("userID", VZ 40); ("URL", VS "q")]) in
          match marshal ex_pkg v 8 ex_son jd x with
          | Ok kv =>
              kv = [("z", VS "a"); ("g", VZ 1); ("s", VZero); ("exp", VZ 3); ("user_name", VS "u"); ("uid", VZ 4); ("url", VS "w")] /\
              unmarshal ex_pkg v 8 ex_son jd kv w =
              Ok (VPtr (VStruct [("Base", VPtr (VStruct [("z", VS "a"); ("g", VZ 10); ("s", VZero); ("Exp", VZ 3)]));
                                 ("user_name", VS "u"); ("userID", VZ 4); ("URL", VS "w")]))
          | _ => False
          end
      | _ => False
      end
  | _ => False
  end.
Proof. vm_compute. repeat split; reflexivity. Qed.

(* ------------------------------------------------------- refutation witnesses *)
(* K_json_promoted_tag_lost: Base{Tag int `json:"tg"`} embedded in Son: Son's member for Tag is "tag", not "tg" *)
Definition w_tbase : sdecl :=
  {| sd_pkg := ""; sd_name := "Base"; sd_tparams := []; sd_doc := ""; sd_fields := [fdt "Tag" (TBasic "int") "tg"] |}.
Definition w_tson : sdecl :=
  {| sd_pkg := ""; sd_name := "Son"; sd_tparams := []; sd_doc := "";
     sd_fields := [emb (TNamed "" "Base" []); fd1 "k" (TBasic "int") ""] |}.

Theorem C11_refuted_K_json_promoted_tag_lost :
  exists pkg sd fields d nd jd,
    json_of pkg [] (js_flags TagCamel) 8 sd = COk (fields, d, nd, jd) /\
    c02_guard pkg 8 sd = true /\ no_promoted_json_tags pkg 8 sd = false /\
    decl_json_tag (fdt "Tag" (TBasic "int") "tg") = "tg" /\ json_key jd "Tag" = "tag".
Proof.
  exists [w_tbase; w_tson], w_tson.
  destruct (json_of [w_tbase; w_tson] [] (js_flags TagCamel) 8 w_tson) as [[[[fields d] nd] jd]| |] eqn:E;
    try (vm_compute in E; discriminate).
  exists fields, d, nd, jd. split; [reflexivity|]. vm_compute in E. inversion E; subst. vm_compute. repeat split; reflexivity.
Qed.
Print Assumptions C11_refuted_K_json_promoted_tag_lost.

(* K_json_exported_snake (repaired, /repo d93a0ce): an exported field whose name changes under Pascal-casing is inside
   the guard; the shadow struct declares MaxSize for the field Max_Size, the member is "maxSize" under -tagcase=camel *)
Definition w_conf : sdecl :=
  {| sd_pkg := ""; sd_name := "Conf"; sd_tparams := []; sd_doc := "";
     sd_fields := [fd1 "Max_Size" (TBasic "int") ""; fd1 "name" (TBasic "string") ""] |}.

Example C11_example_exported_snake :
  c11_guard [w_conf] (js_flags TagCamel) 8 w_conf = true /\
  match json_of [w_conf] [] (js_flags TagCamel) 8 w_conf with
  | COk (_, _, nd, jd) =>
      jd_exported jd = ["Max_Size"] /\ map (fun r => fst (fst r)) (shadow_struct nd jd) = ["MaxSize"; "Name"] /\
      map (json_key jd) (jd_list jd) = ["maxSize"; "name"]
  | _ => False
  end.
Proof. vm_compute. repeat split; reflexivity. Qed.

(* K_json_promoted_marshaler: Wrap{Base; X int `json:"x"`} analysed before Base: Wrap gets no JSON code, Base does,
   so Base's MarshalJSON is promoted to Wrap *)
Definition w_mbase : sdecl :=
  {| sd_pkg := ""; sd_name := "Base"; sd_tparams := []; sd_doc := ""; sd_fields := [fd1 "z" (TBasic "string") ""] |}.
Definition w_wrap : sdecl :=
  {| sd_pkg := ""; sd_name := "Wrap"; sd_tparams := []; sd_doc := "";
     sd_fields := [emb (TNamed "" "Base" []); fdt "X" (TBasic "int") "x"] |}.

Theorem C11_refuted_K_json_promoted_marshaler :
  exists pkg sd sdb f1 d1 n1 j1 f2 d2 n2 j2,
    json_of pkg [] (js_flags TagCamel) 8 sd = COk (f1, d1, n1, j1) /\
    json_of pkg [] (js_flags TagCamel) 8 sdb = COk (f2, d2, n2, j2) /\
    c02_guard pkg 8 sd = true /\ In (emb (TNamed "" (sd_name sdb) [])) (sd_fields sd) /\
    jd_json j1 = false /\ jd_json j2 = true.
Proof.
  exists [w_mbase; w_wrap], w_wrap, w_mbase.
  destruct (json_of [w_mbase; w_wrap] [] (js_flags TagCamel) 8 w_wrap) as [[[[f1 d1] n1] j1]| |] eqn:E1;
    try (vm_compute in E1; discriminate).
  destruct (json_of [w_mbase; w_wrap] [] (js_flags TagCamel) 8 w_mbase) as [[[[f2 d2] n2] j2]| |] eqn:E2;
    try (vm_compute in E2; discriminate).
  exists f1, d1, n1, j1, f2, d2, n2, j2. split; [reflexivity|]. split; [reflexivity|].
  vm_compute in E1. inversion E1; subst. vm_compute in E2. inversion E2; subst. vm_compute. repeat split; auto.
Qed.
Print Assumptions C11_refuted_K_json_promoted_marshaler.

(* K_json_nil_embed: Order{*Base; n int}: MarshalJSON and UnmarshalJSON on the zero value (nil embedded pointer) panic *)
Definition w_nbase : sdecl :=
  {| sd_pkg := ""; sd_name := "Base"; sd_tparams := []; sd_doc := ""; sd_fields := [fd1 "z" (TBasic "int") ""] |}.
Definition w_order : sdecl :=
  {| sd_pkg := ""; sd_name := "Order"; sd_tparams := []; sd_doc := "";
     sd_fields := [emb (TPtr (TNamed "" "Base" [])); fd1 "n" (TBasic "int") ""] |}.
Definition w_n_view : view :=
  Eval vm_compute in match run_getset [w_nbase; w_order] (js_flags TagCamel) 8 ["Base"; "Order"] [] with COk (_, v) => v | _ => [] end.
Definition w_n_view0 : view :=
  Eval vm_compute in match run_getset [w_nbase; w_order] (js_flags TagCamel) 8 ["Base"] [] with COk (_, v) => v | _ => [] end.

Theorem C11_refuted_K_json_nil_embed :
  exists pkg v sd fields d nd jd,
    json_of pkg w_n_view0 (js_flags TagCamel) 8 sd = COk (fields, d, nd, jd) /\
    c02_guard pkg 8 sd = true /\ json_aligned pkg v 8 sd jd = true /\ json_keys_ok jd = true /\
    marshal pkg v 8 sd jd (VPtr (zero_struct pkg 8 (self_inst sd))) = Panic /\
    unmarshal pkg v 8 sd jd [("z", VZ 1); ("n", VZ 2)] (VPtr (zero_struct pkg 8 (self_inst sd))) = Panic.
Proof.
  exists [w_nbase; w_order], w_n_view, w_order.
  destruct (json_of [w_nbase; w_order] w_n_view0 (js_flags TagCamel) 8 w_order) as [[[[fields d] nd] jd]| |] eqn:E;
    try (vm_compute in E; discriminate).
  exists fields, d, nd, jd. split; [reflexivity|]. vm_compute in E. inversion E; subst. vm_compute. repeat split; reflexivity.
Qed.
Print Assumptions C11_refuted_K_json_nil_embed.

(* K_json_promoted_tag_lost, in the declarative vocabulary: the declaration of Son's promoted field Tag (in Base) says
   "tg" -- spec_member gives "tg" -- while the generated code uses "tag" *)
Example C11_example_promoted_tag_spec :
  spec_member [w_tbase; w_tson] (js_flags TagCamel) 8 w_tson ["Base"; "Tag"] = "tg" /\
  no_promoted_json_tags [w_tbase; w_tson] 8 w_tson = false.
Proof. vm_compute. split; reflexivity. Qed.

(* K_json_dash_zeroed (repaired, /repo c28f6db): a field tagged json:"-" is not part of the JSON code: not listed, not
   assigned by UnmarshalJSON; `omitempty` leaves a zero member out and the round trip still restores zero *)
Definition w_dash : sdecl :=
  {| sd_pkg := ""; sd_name := "Conf"; sd_tparams := []; sd_doc := "";
     sd_fields := [fdt "Secret" (TBasic "string") "-"; fdt "Note" (TBasic "string") "note,omitempty"; fd1 "name" (TBasic "string") ""] |}.

Example C11_example_dash_and_omitempty :
  c11_guard [w_dash] (js_flags TagCamel) 8 w_dash = true /\
  match json_of [w_dash] [] (js_flags TagCamel) 8 w_dash, run_getset [w_dash] (js_flags TagCamel) 8 ["Conf"] [] with
  | COk (_, _, _, jd), COk (_, v) =>
      jd_list jd = ["Note"; "name"] /\ jd_exported jd = ["Note"] /\
      json_aligned [w_dash] v 8 w_dash jd = true /\ json_keys_ok jd = true /\
      let x := VPtr (VStruct [("Secret", VS "sec"); ("Note", VZero); ("name", VS "n")]) in
      let w := VPtr (VStruct [("Secret", VS "keep"); ("Note", VS "x"); ("name", VS "m")]) in
      marshal [w_dash] v 8 w_dash jd x = Ok [("name", VS "n")] /\
      unmarshal [w_dash] v 8 w_dash jd [("name", VS "n")] w =
      Ok (VPtr (VStruct [("Secret", VS "keep"); ("Note", VZero); ("name", VS "n")]))
  | _, _ => False
  end.
Proof. vm_compute. repeat split; reflexivity. Qed.

(* K_json_accessor_by_name: `// shoot: setter  Base{ //shoot: get  size string; User }` with User{size string}: inside
   c11_guard; Base.size has no setter of its own, yet it is listed as a setter member because the NAME SetSize is promoted
   from User -- the accessor found by name belongs to another field: json_aligned fails, Unmarshal assigns Base.User.size *)
Definition w_user : sdecl :=
  {| sd_pkg := ""; sd_name := "User"; sd_tparams := []; sd_doc := ""; sd_fields := [fd1 "size" (TBasic "string") ""] |}.
Definition w_bbase : sdecl :=
  {| sd_pkg := ""; sd_name := "Base"; sd_tparams := []; sd_doc := "shoot: setter" ++ nl;
     sd_fields := [fd1 "size" (TBasic "string") ("shoot: get" ++ nl); emb (TNamed "" "User" [])] |}.
Definition w_bn_view0 : view :=
  Eval vm_compute in match run_getset [w_user; w_bbase] (js_flags TagCamel) 8 ["User"] [] with COk (_, v) => v | _ => [] end.
Definition w_bn_view : view :=
  Eval vm_compute in match run_getset [w_user; w_bbase] (js_flags TagCamel) 8 ["User"; "Base"] [] with COk (_, v) => v | _ => [] end.

Theorem C11_refuted_K_json_accessor_by_name :
  exists pkg v sd fields d nd jd,
    json_of pkg w_bn_view0 (js_flags TagCamel) 8 sd = COk (fields, d, nd, jd) /\
    c11_guard pkg (js_flags TagCamel) 8 sd = true /\
    spec_accessors (js_flags TagCamel) sd false = [] /\ jd_setters jd = ["size"] /\
    json_aligned pkg v 8 sd jd = false /\
    unmarshal pkg v 8 sd jd [("size", VS "X")]
      (VPtr (VStruct [("size", VS "own"); ("User", VStruct [("size", VS "inner")])])) =
    Ok (VPtr (VStruct [("size", VS "own"); ("User", VStruct [("size", VS "X")])])).
Proof.
  exists [w_user; w_bbase], w_bn_view, w_bbase.
  destruct (json_of [w_user; w_bbase] w_bn_view0 (js_flags TagCamel) 8 w_bbase) as [[[[fields d] nd] jd]| |] eqn:E;
    try (vm_compute in E; discriminate).
  exists fields, d, nd, jd. split; [reflexivity|]. vm_compute in E. inversion E; subst. vm_compute. repeat split; reflexivity.
Qed.
Print Assumptions C11_refuted_K_json_accessor_by_name.
