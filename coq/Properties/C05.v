(* C05  map: ToX/FromX copy exactly the matching field pairs, by the type rules.

   Model: Model/Mapper.v (the analysis of internal/mapper, literally),
   Model/MapperEval.v (what the emitted Go does), Model/MapperSpec.v (the
   declarative reading of the property).  Only theorem statements here; each is
   closed by [exact] of a lemma from Proofs/Mapper*.v and followed by Print
   Assumptions.

   Quantification: every theorem below holds for ALL jobs (type environments of
   any size and embedding depth, any field lists, tags, mapper-method lists,
   flags, constructor/accessor tables) and all iteration oracles, unless a
   guard is stated.  *)
From Coq Require Import String List ZArith Bool.
From Shoot Require Import Base.Str Model.Transfer Model.MapVal Model.Mapper Model.MapperEval Model.MapperSpec
     Proofs.MapperProofs Proofs.MapperPlanProofs Proofs.MapperFlattenProofs Proofs.MapperAnalyseProofs
     Proofs.MapperCompleteProofs Proofs.MapperAttribProofs Proofs.MapperFlattenRel
     Corr.MapperCorr Proofs.MapperExamples Proofs.MapperExampleProofs.
Import ListNotations.
Local Open Scope string_scope.

(* ---- "no destination field is written twice" (both directions): the
   destinations of the emitted statements are pairwise distinct.  The guard
   [acc_guard] (accessor names distinct from field names; Go enforces it) is
   vacuous for plain struct types, see C05_plain_guard.  The statement is on
   NAMES: for plain structs names are distinct per side (C05_pass_invariant), so
   distinct names are distinct storage; with accessor pseudo-fields two names can
   denote one backing field: C15_set_at_most_once_paths states write-once on the
   STORAGE under the table condition tables_wf. *)
Theorem C05_write_once : forall sigma jb a,
  analyse sigma jb = Some a -> acc_guard jb ->
  NoDup (map (fun st => r_name (st_dst st)) (pl_stmts (a_to a)))
  /\ NoDup (map (fun st => r_name (st_dst st)) (pl_stmts (a_from a))).
Proof. exact analyse_write_once. Qed.
Print Assumptions C05_write_once.

Theorem C05_plain_guard : forall jb, j_src_acc jb = [] -> j_dst_acc jb = [] -> acc_guard jb.
Proof. exact plain_acc_guard. Qed.
Print Assumptions C05_plain_guard.

(* ---- "exactly those pairs whose names match ... by the type rules"
   (soundness): every statement of ToX copies from a source field to a
   destination field whose names match (canNameMatch: identical / acronym
   casing / tag / -i) with a strategy applicable to the two types:
   assignment only for identical types, conversion only for convertible,
   non-identical types that are not string<->fixed-width-int, a mapper method
   only with exactly those parameter/result types, sub-struct mapping only for
   named types of the two packages (by value, pointer, or as slice elements). *)
Theorem C05_sound_to : forall sigma jb a,
  analyse sigma jb = Some a -> acc_guard jb ->
  forall st, In st (pl_stmts (a_to a)) ->
  exists sf df, In sf (s_src (a_state a)) /\ In df (s_dst (a_state a))
                /\ st_src st = ref_of sf /\ st_dst st = ref_of df
                /\ can_name_match sf df (p_tags (a_src_parsed a)) (j_ic jb) = true
                /\ applicable (j_env jb) (j_funcs jb) true sf df (st_how st).
Proof. exact analyse_sound_to. Qed.
Print Assumptions C05_sound_to.

Theorem C05_sound_from : forall sigma jb a,
  analyse sigma jb = Some a -> acc_guard jb ->
  forall st, In st (pl_stmts (a_from a)) ->
  exists sf df, In sf (s_src (a_state a)) /\ In df (s_dst (a_state a))
                /\ st_src st = ref_of df /\ st_dst st = ref_of sf
                /\ can_name_match sf df (p_tags (a_src_parsed a)) (j_ic jb) = true
                /\ applicable (j_env jb) (j_funcs jb) false df sf (st_how st).
Proof. exact analyse_sound_from. Qed.
Print Assumptions C05_sound_from.

(* ---- the invariant behind both (exposed because C09/C15 reuse it): after the
   two passes every field carries at most one strategy flag, a flagged field is
   in the write-once set and was not in it before the passes (pr_s0: the state
   after parseManual and makeCtorMatch), Targets are injective and point to
   name-matching, justified fields; names are pairwise distinct. *)
Theorem C05_pass_invariant : forall sigma jb a pr,
  analyse sigma jb = Some a -> prepare jb = Some pr -> acc_guard jb ->
  Inv (j_env jb) (p_tags (a_src_parsed a)) (j_ic jb) (j_funcs jb)
      (s_wsrc (pr_s0 pr)) (s_wdst (pr_s0 pr)) (a_state a)
  /\ NoDup (map f_name (s_src (a_state a))) /\ NoDup (map f_name (s_dst (a_state a))).
Proof. exact analyse_inv. Qed.
Print Assumptions C05_pass_invariant.

(* ---- completeness (ToX), first half; _partial: it shows that the field is
   CLAIMED (it is in the write-once set after the passes: claimed by them, or
   covered before them by the constructor call / a manual method).  Still
   missing for the full statement "is written with the strategy of highest
   priority": that under one-to-one matching the claim is by exactly that
   source (no later Target overwrite) and which of the applicable strategies
   wins; and the symmetric FromX statement.  Both are evaluated, not proved: the
   declarative specification Model/MapperSpec.v is compared inside Coq with
   every sampled execution.  The guard match_inj (each source field name-matches
   at most one destination field) is necessary: C05_refuted_K_map_fanout_target. *)
Theorem C05_complete_claimed_partial : forall sigma jb a pr i j,
  analyse sigma jb = Some a -> prepare jb = Some pr -> acc_guard jb ->
  match_inj (p_tags (pr_src pr)) (j_ic jb) (pr_s0 pr) ->
  i < length (s_src (pr_s0 pr)) -> j < length (s_dst (pr_s0 pr)) ->
  can_name_match (src_at (pr_s0 pr) i) (dst_at (pr_s0 pr) j) (p_tags (pr_src pr)) (j_ic jb) = true ->
  f_isget (dst_at (pr_s0 pr) j) = false ->
  mismatch_applicable (j_funcs jb) (f_ty (src_at (pr_s0 pr) i)) (f_ty (dst_at (pr_s0 pr) j))
  \/ match_applicable (j_env jb) (f_ty (src_at (pr_s0 pr) i)) (f_ty (dst_at (pr_s0 pr) j)) ->
  s_has (s_wdst (a_state a)) (f_name (dst_at (pr_s0 pr) j)) = true.
Proof. exact analyse_complete_to. Qed.
Print Assumptions C05_complete_claimed_partial.

Example C05_complete_hypotheses_satisfiable :
  exists pr, prepare (job_of ex1 "T") = Some pr
             /\ match_inj (p_tags (pr_src pr)) false (pr_s0 pr)
             /\ f_name (src_at (pr_s0 pr) 3) = "UserID" /\ f_name (dst_at (pr_s0 pr) 3) = "UserId"
             /\ can_name_match (src_at (pr_s0 pr) 3) (dst_at (pr_s0 pr) 3) (p_tags (pr_src pr)) false = true
             /\ match_applicable (ps_env ex1) (f_ty (src_at (pr_s0 pr) 3)) (f_ty (dst_at (pr_s0 pr) 3)).
Proof. exact ex1_complete_hyps. Qed.

(* ---- completeness AND "which strategy wins", both directions: under
   one-to-one name matching (inj2: among the fields of the two sides, two
   name-matching pairs share a source field iff they share the destination
   field) take a name-matching pair (source field i, destination field j), neither
   an accessor pseudo-field, the written one not covered before the passes
   (by a manual method or the constructor call).  Then
     * if MapperSpec.choose -- the declarative priority  mapper method (first
       in declaration order) > sub-struct ToX/FromX > element-wise > assignment >
       conversion -- yields a strategy h for the two types, the plan contains
       the statement "j := h(i)", and every statement writing j is that one;
     * if it yields none, no statement writes j.
   This supersedes C05_complete_claimed_partial (kept: it needs only one-sided
   injectivity) and settles the FromX twin.  What is still NOT proved is the link
   between the flattened field arrays / canNameMatch and the declarative
   [visible] leaves / [names_match] of MapperSpec.v, and the value-level equality
   "executing the plan = MapperSpec.spec_to/spec_from" (no theorem yet); both are evaluated on every sampled
   execution by the correspondence. *)
Theorem C05_attribution_to : forall sigma jb a pr,
  analyse sigma jb = Some a -> prepare jb = Some pr -> acc_guard jb ->
  (forall fn, In fn (j_funcs jb) -> mf_name fn <> "") ->
  inj2 (p_tags (pr_src pr)) (j_ic jb) (pr_s0 pr) ->
  forall i j,
  i < length (s_src (pr_s0 pr)) -> j < length (s_dst (pr_s0 pr)) ->
  can_name_match (src_at (pr_s0 pr) i) (dst_at (pr_s0 pr) j) (p_tags (pr_src pr)) (j_ic jb) = true ->
  f_isget (dst_at (pr_s0 pr) j) = false -> f_isget (src_at (pr_s0 pr) i) = false ->
  s_has (s_wdst (pr_s0 pr)) (f_name (dst_at (pr_s0 pr) j)) = false ->
  match choose (j_env jb) (j_funcs jb) true (f_ty (src_at (pr_s0 pr) i)) (f_ty (dst_at (pr_s0 pr) j)) with
  | Some h =>
      (exists st, In st (pl_stmts (a_to a)) /\ st_dst st = ref_of (dst_at (a_state a) j)
                  /\ st_src st = ref_of (src_at (a_state a) i) /\ st_how st = h)
      /\ (forall st, In st (pl_stmts (a_to a)) -> r_name (st_dst st) = f_name (dst_at (pr_s0 pr) j) ->
                     st_src st = ref_of (src_at (a_state a) i) /\ st_how st = h)
  | None => forall st, In st (pl_stmts (a_to a)) -> r_name (st_dst st) <> f_name (dst_at (pr_s0 pr) j)
  end.
Proof. intros; eapply analyse_attrib_to; eauto. Qed.
Print Assumptions C05_attribution_to.

Theorem C05_attribution_from : forall sigma jb a pr,
  analyse sigma jb = Some a -> prepare jb = Some pr -> acc_guard jb ->
  (forall fn, In fn (j_funcs jb) -> mf_name fn <> "") ->
  inj2 (p_tags (pr_src pr)) (j_ic jb) (pr_s0 pr) ->
  forall i j,
  i < length (s_src (pr_s0 pr)) -> j < length (s_dst (pr_s0 pr)) ->
  can_name_match (src_at (pr_s0 pr) i) (dst_at (pr_s0 pr) j) (p_tags (pr_src pr)) (j_ic jb) = true ->
  f_isget (dst_at (pr_s0 pr) j) = false -> f_isget (src_at (pr_s0 pr) i) = false ->
  s_has (s_wsrc (pr_s0 pr)) (f_name (src_at (pr_s0 pr) i)) = false ->
  match choose (j_env jb) (j_funcs jb) false (f_ty (dst_at (pr_s0 pr) j)) (f_ty (src_at (pr_s0 pr) i)) with
  | Some h =>
      (exists st, In st (pl_stmts (a_from a)) /\ st_dst st = ref_of (src_at (a_state a) i)
                  /\ st_src st = ref_of (dst_at (a_state a) j) /\ st_how st = h)
      /\ (forall st, In st (pl_stmts (a_from a)) -> r_name (st_dst st) = f_name (src_at (pr_s0 pr) i) ->
                     st_src st = ref_of (dst_at (a_state a) j) /\ st_how st = h)
  | None => forall st, In st (pl_stmts (a_from a)) -> r_name (st_dst st) <> f_name (src_at (pr_s0 pr) i)
  end.
Proof. intros; eapply analyse_attrib_from; eauto. Qed.
Print Assumptions C05_attribution_from.

(* the hypotheses are satisfiable: ex1, whose name matching is one-to-one *)
Example C05_attribution_hypotheses_satisfiable :
  exists pr, prepare (job_of ex1 "T") = Some pr
             /\ inj2 (p_tags (pr_src pr)) false (pr_s0 pr)
             /\ (forall fn, In fn (j_funcs (job_of ex1 "T")) -> mf_name fn <> "").
Proof.
  destruct (prepare (job_of ex1 "T")) as [pr|] eqn:E; [|vm_compute in E; discriminate].
  exists pr. split; auto. vm_compute in E. inversion E; subst; clear E.
  split; [apply inj2_b_sound; vm_compute; reflexivity|].
  intros fn H. vm_compute in H. repeat (destruct H as [<-|H]; [discriminate|]). contradiction.
Qed.

(* ---- "-way limits generation to the requested direction": NOT a theorem.  [way]
   is not an input of the analysis (both plans are always computed); the
   template's `{{if not .IsFromOnly}}` / `{{if not .IsToOnly}}` is modelled by the
   two DEFINITIONS has_to / has_from, so the following only unfolds them.  The
   sentence is carried by the correspondence alone: the method set of every
   compiled pair is read by reflection and compared (Corr.way_mismatches). *)
Remark C05_way_by_definition : forall w,
  (has_to w, has_from w) = match w with WBoth => (true, true) | WToOnly => (true, false) | WFromOnly => (false, true) end.
Proof. exact way_methods. Qed.

(* ---- what "the names match" means for two plain fields: identical names match
   (no tag on the source name), and a tagged source field matches the field its
   tag names -- PROVIDED the tag map contains the tag under the field's name, which
   is exactly what fails for names with `_` (C05_refuted_K_map_tag_underscore).
   "Equal up to acronym casing" (smartMatch) is characterised only by
   reflexivity / symmetry / equal length (Proofs/TransferProofs.v) and by the L1
   samples; "smartMatch never joins names that differ by more than case" is FALSE
   for names with `_` ("a__b" / "a_b_") and not proved for `_`-free ones. *)
Theorem C05_identical_names_match : forall f1 f2 tm ic,
  f_isget f1 = false -> f_isset f1 = false -> f_backing f1 = "" -> f_backing f2 = "" ->
  tm_get tm (f_name f1) = None -> f_name f1 = f_name f2 ->
  can_name_match f1 f2 tm ic = true.
Proof. exact can_name_match_same. Qed.
Print Assumptions C05_identical_names_match.

Theorem C05_tagged_name_matches : forall f1 f2 tm t,
  f_isget f1 = false -> f_isset f1 = false -> f_backing f1 = "" -> f_backing f2 = "" ->
  tm_get tm (f_name f1) = Some t -> t = f_name f2 ->
  can_name_match f1 f2 tm false = true.
Proof. exact can_name_match_tag. Qed.
Print Assumptions C05_tagged_name_matches.

(* ... from the struct DECLARATION: a top-level source field f with `map:"t"`, whose
   name is its own Pascal form (no `_`: exactly what fails in K_map_tag_underscore) and
   shares it with no other tagged field, name-matches every plain field whose name the
   Pascal form of t smart-matches -- in particular the field named t when t is
   `_`-free.  The tag-map entry is DERIVED from extractTopFiels here, not assumed. *)
Theorem C05_tagged_field_matches : forall e fuel n fs ps f f1 f2,
  lookup_decl e PSrc n = Some (DStruct fs) -> parse_fields e fuel PSrc n true = Some ps ->
  In f fs -> sf_emb f = false -> sf_tag f <> "" -> sf_tag f <> "-" ->
  to_pascal_case (sf_name f) = sf_name f ->
  (forall g, In g fs -> sf_emb g = false -> sf_tag g <> "" -> sf_tag g <> "-" ->
             to_pascal_case (sf_name g) = sf_name f -> sf_tag g = sf_tag f) ->
  f_name f1 = sf_name f -> f_isget f1 = false -> f_isset f1 = false -> f_backing f1 = "" -> f_backing f2 = "" ->
  to_pascal_case (sf_tag f) = f_name f2 ->
  can_name_match f1 f2 (p_tags ps) false = true.
Proof.
  intros e fuel n fs ps f f1 f2 L P I Em T1 T2 Pn U N1 G S0 B1 B2 E.
  eapply can_name_match_tag; eauto. rewrite N1. eapply parsed_tag; eauto.
Qed.
Print Assumptions C05_tagged_field_matches.

(* ---- non-vacuity: ex1 (Proofs/MapperExamples.v) has embedded pointer structs to
   depth 2, a map:"Str" tag, a map:"-" field, conversions, a string<->int8 pair
   that must stay unmapped, mapper methods, sub-structs by value / pointer /
   slice.  It satisfies every guard, its ToX plan is the expected one, and its
   execution agrees with the declarative reading (also with nils). *)
Example C05_example_guard : pair_guard (ps_env ex1) (ps_fuel ex1) (ps_jobs ex1) = true.
Proof. exact ex1_guard. Qed.

Example C05_example_plan :
  option_map (fun a => (summary (a_to a), pl_alloc (a_to a))) (analyse id_oracle (job_of ex1 "T")) =
  Some ([("EP", "EP", SConv (TBasic BInt32) (TBasic BInt64), [["EmbP"]]);
         ("DP", "DP", SAssign, [["EmbP"]; ["EmbP"; "Deep"]]);
         ("ID", "ID", SAssign, []);
         ("UserId", "UserID", SConv (TBasic BInt64) (TBasic BInt), []);
         ("Str", "S2", SAssign, []);
         ("Amount", "Amount", SFunc "StrToI64", []);
         ("In", "In", SMap false true "Inner" "Inner", []);
         ("InP", "InP", SMap true false "Inner" "Inner", []);
         ("Ins", "Ins", SEach false true "Inner" "Inner", []);
         ("InPs", "InPs", SEach true false "Inner" "Inner", []);
         ("Lv", "Lv", SConv (TNamed (POth "common") "Level") (TNamed PDst "Status"), [])],
        [(["EmbV"; "Deep"], TNamed PDst "Deep")]).
Proof. exact ex1_plan. Qed.

Example C05_example_values :
  (exists d, run_to ex1 (VPtr ex1_v) = Ok (VPtr d) /\ want_to ex1 (VPtr ex1_v) = Some (VPtr d)
             /\ get_path d ["UserId"] = Ok (VInt 77) /\ get_path d ["Amount"] = Ok (VInt 8)
             /\ get_path d ["DP"] = Stuck /\ get_path d ["EmbV"; "Deep"; "DP"] = Ok (VStr "deep")
             /\ get_path d ["Skip"] = Ok (VInt 0) /\ get_path d ["N8"] = Ok (VStr ""))
  /\ (exists d, run_to ex1 (VPtr ex1_v_nils) = Ok (VPtr d) /\ want_to ex1 (VPtr ex1_v_nils) = Some (VPtr d)
                /\ get_path d ["EmbV"; "EP"] = Ok (VInt 0) /\ get_path d ["Ins"] = Ok VNil
                /\ get_path d ["UserId"] = Ok (VInt 1099511627781))
  /\ run_to ex1 VNil = Ok VNil.
Proof. exact ex1_values. Qed.

(* ---- "for pairs of identical type FromX(ToX(v)) reproduces v": on ex2 (identical
   types, embedded *Emb) the round trip holds when the embedded pointer is set ... *)
Example C05_example_round_trip :
  pair_guard (ps_env ex2) (ps_fuel ex2) (ps_jobs ex2) = true
  /\ bind (run_to ex2 (VPtr ex2_v)) (fun d => run_from ex2 VNil d) = Ok (VPtr ex2_v).
Proof. exact (conj ex2_guard ex2_round_trip). Qed.

(* ... and is REFUTED when it is nil: the writing side allocates the embedded
   pointer although the source's is nil (open finding K_map_roundtrip_nil_embed,
   replayed against the binary on every run) *)
Theorem C05_refuted_K_map_roundtrip_nil_embed :
  bind (run_to ex2 (VPtr ex2_v_nil)) (fun d => run_from ex2 VNil d)
  = Ok (VPtr (VStruct [("Emb", VPtr (VStruct [("X", VInt 0)])); ("ID", VInt 1); ("Name", VStr "n"); ("Tags", VNil)]))
  /\ get_path ex2_v_nil ["Emb"] = Ok VNil.
Proof. exact ex2_nil_embed. Qed.
Print Assumptions C05_refuted_K_map_roundtrip_nil_embed.

(* ---- outside the guard [no_fanout] completeness FAILS: ex3 has source fields
   A `map:"X"` and X and the destination field X; A name-matches d.X and
   assignment applies, yet FromX has no statement writing A (the shared
   Field.Target was overwritten).  Open finding K_map_fanout_target. *)
Theorem C05_refuted_K_map_fanout_target :
  exists a sf df,
    analyse id_oracle (job_of ex3 "T") = Some a
    /\ In sf (s_src (a_state a)) /\ In df (s_dst (a_state a))
    /\ f_name sf = "A" /\ f_name df = "X"
    /\ can_name_match sf df (p_tags (a_src_parsed a)) false = true
    /\ type_equals (f_ty df) (f_ty sf) = true
    /\ ~ In "A" (map (fun st => r_name (st_dst st)) (pl_stmts (a_from a))).
Proof. exact ex3_fanout. Qed.
Print Assumptions C05_refuted_K_map_fanout_target.

(* ---- `map:"-"` inside an embedded struct is ignored: the field is copied
   (open finding K_map_nested_tag_ignored) *)
Theorem C05_refuted_K_map_nested_tag_ignored :
  option_map (fun a => summary (a_to a)) (analyse id_oracle (job_of ex4 "T"))
  = Some [("Secret", "Secret", SAssign, []); ("ID", "ID", SAssign, [])]
  /\ exists fs, lookup_decl (ps_env ex4) PSrc "Base" = Some (DStruct fs)
                /\ In {| sf_name := "Secret"; sf_emb := false; sf_ty := TBasic BInt; sf_tag := "-" |} fs.
Proof. exact ex4_nested_tag. Qed.
Print Assumptions C05_refuted_K_map_nested_tag_ignored.

(* ---- a `map:"Name"` tag is lost when the tagged field's name contains `_`, and
   when the tag names a destination field that contains `_`: the declarative
   reading (MapperSpec.names_match: the tag as written, or in Pascal form) maps
   Title <- User_Name and Nick_name <- Alpha, the plan has neither.  Open finding
   K_map_tag_underscore (found by the independent review); guard tag_guard. *)
Theorem C05_refuted_K_map_tag_underscore :
  spec_pairs (pairs_to (ps_env ex10) (ps_fuel ex10) (job_of ex10 "T"))
  = [("Title", "User_Name", SAssign); ("Nick_name", "Alpha", SAssign); ("ZipCode", "Beta", SAssign); ("ID", "ID", SAssign)]
  /\ option_map (fun a => summary (a_to a)) (analyse id_oracle (job_of ex10 "T"))
     = Some [("ZipCode", "Beta", SAssign, []); ("ID", "ID", SAssign, [])]
  /\ pair_guard (ps_env ex10) (ps_fuel ex10) (ps_jobs ex10) = false.
Proof. exact ex10_tag_underscore. Qed.
Print Assumptions C05_refuted_K_map_tag_underscore.

(* ---- an embedded field of a named NON-struct type is a field named after its
   type; shoot drops it.  Open finding K_map_embedded_nonstruct (review); guard
   emb_structs in side_guard. *)
Theorem C05_refuted_K_map_embedded_nonstruct :
  spec_pairs (pairs_to (ps_env ex11) (ps_fuel ex11) (job_of ex11 "T"))
  = [("Level", "Level", SConv (TNamed (POth "common") "Level") (TBasic BInt16)); ("ID", "ID", SAssign)]
  /\ option_map (fun a => summary (a_to a)) (analyse id_oracle (job_of ex11 "T"))
     = Some [("ID", "ID", SAssign, [])]
  /\ pair_guard (ps_env ex11) (ps_fuel ex11) (ps_jobs ex11) = false.
Proof. exact ex11_embedded_nonstruct. Qed.
Print Assumptions C05_refuted_K_map_embedded_nonstruct.
