(* C02  shoot new: NewT stores each argument in the field it is named after.

   The model (Model/Ctor.v) is the literal flatten / makeNew / newBodyRec of
   /repo/internal/constructor plus the meaning of the emitted composite literal.
   The statements quantify over ALL packages of struct declarations of the
   grammar (any number of structs and fields, any embedding depth below the fuel,
   any doc-comment and tag text), all flag records, all argument values.

   Guard [c02_guard] (Model/CtorSpec.v, decidable on the input): bounded embedding
   depth (acyclic), distinct field names per struct, every occurring field name
   is an unambiguous selector, and the input classes of the open findings
   K_ctor_embedded_nonstruct, K_ctor_promoted_underscore, K_ctor_excluded_def,
   K_ctor_excluded_shadow, K_ctor_generic_constraint, K_ctor_double_ptr,
   K_ctor_keyword_param are excluded; each of those has a refutation witness
   below.  This file contains only statements closed by [exact]. *)
From Coq Require Import String Ascii List Bool Arith ZArith.
From Shoot Require Import Base.Str Base.GoVal Model.Transfer Model.CtorDirective Model.Ctor Model.CtorSpec.
From Shoot Require Import Proofs.CtorFlattenProofs Proofs.CtorResolveProofs Proofs.CtorNewProofs Proofs.CtorC02Proofs
                          Proofs.CtorOrderProofs.
Import ListNotations.
Local Open Scope string_scope.

(* shoot's flattened list is the plain depth-first list of field occurrences with
   the flag "some entry of the same name is strictly shallower" *)
Theorem C02_flatten_is_marked_dfs : forall pkg fl fuel sd fs hn,
  flatten pkg fl fuel sd = COk (fs, hn) ->
  exists raw, raw_top pkg fl fuel (sd_fields sd) = COk raw /\ fs = mark raw /\ hn = has_new_spec sd.
Proof. exact flatten_is_marked_raw. Qed.
Print Assumptions C02_flatten_is_marked_dfs.

(* refinement: an entry of the flattened list is unshadowed iff it is the field
   Go's selector rule (unique field of minimal depth, defined independently by
   depth levels) resolves its name to *)
Theorem C02_shadow_refines_selector : forall pkg fl fuel sd fs hn e,
  flatten pkg fl fuel sd = COk (fs, hn) ->
  depth_bounded pkg fuel sd = true -> wf_structs pkg fuel sd = true ->
  unambiguous pkg fuel sd = true -> no_embedded_nonstruct pkg fuel sd = true ->
  no_excluded_shadow pkg fuel sd = true ->
  In e fs ->
  (f_shadowed e = false <-> resolve pkg fuel sd (f_name e) = Some (f_path e)).
Proof. exact shadow_refines_selector. Qed.
Print Assumptions C02_shadow_refines_selector.

(* wiring: NewT(vals) evaluates to a value in which, for every parameter i
   (named p, of type t), p is the camel-cased name of an unshadowed leaf field
   that Go's selector rule resolves to the entry's own path, that is not an
   excluded field, that is marked new whenever any field of the type is, and
   that holds exactly the i-th argument; every other leaf entry holds its def=
   default if it carries one and the zero value otherwise; the excluded fields of
   the struct are zero; every embedded struct is present and every embedded
   pointer on the way is allocated. *)
Theorem C02_new_wiring : forall pkg fl fuel sd fs hn vals,
  flatten pkg fl fuel sd = COk (fs, hn) ->
  c02_guard pkg fuel sd = true ->
  let nd := make_new sd hn fs in
  length vals = length (nd_params nd) ->
  exists v, eval_new pkg fuel sd (nd_body nd) (bind_args (nd_params nd) vals) = Ok v /\
    (forall i p t, nth_error (nd_params nd) i = Some (p, t) ->
       exists e, In e fs /\ f_embedded e = false /\ f_shadowed e = false /\
                 p = to_camel_case (f_name e) /\ t = star_type e /\
                 resolve pkg fuel sd (f_name e) = Some (f_path e) /\
                 excluded_top sd (f_path e) = false /\
                 (has_new_spec sd = true -> marked_new sd (f_path e) = true) /\
                 lookup v (f_path e) = Ok (nth i vals VZero)) /\
    (forall e, In e fs -> f_embedded e = false -> pentry hn e = false ->
       lookup v (f_path e) = Ok (default_or_zero (def_text sd (f_path e)))) /\
    (forall fd n, In fd (sd_fields sd) -> In n (fd_names fd) -> excluded_decl fd n = true ->
       lookup v [n] = Ok VZero) /\
    (forall e, In e fs -> f_embedded e = true ->
       exists kv, lookup v (f_path e) = Ok (if f_ptr e then VPtr (VStruct kv) else VStruct kv)).
Proof. exact new_wiring_guarded. Qed.
Print Assumptions C02_new_wiring.

(* the guard on the input makes the parameter names distinct (NewT is a legal signature) *)
Theorem C02_parameter_names_distinct : forall pkg fl fuel sd fs hn,
  flatten pkg fl fuel sd = COk (fs, hn) ->
  c02_guard pkg fuel sd = true ->
  NoDup (map fst (nd_params (make_new sd hn fs))).
Proof. exact params_distinct. Qed.
Print Assumptions C02_parameter_names_distinct.

(* order: the parameters' fields are an order-preserving sub-list of the leaves of the
   struct graph taken in declaration order, depth first through embedded structs
   ([leaf_paths], defined from the struct graph alone) *)
Theorem C02_parameters_follow_declaration_order : forall pkg fl fuel sd fs hn,
  flatten pkg fl fuel sd = COk (fs, hn) ->
  c02_guard pkg fuel sd = true ->
  subseq (map f_path (filter (pentry hn) fs)) (leaf_paths pkg fuel (self_inst sd) []).
Proof. exact params_follow_declaration_order. Qed.
Print Assumptions C02_parameters_follow_declaration_order.

(* coverage: every leaf of the struct graph is a leaf entry of the flattened list or an
   excluded field of the struct itself, so C02_new_wiring speaks about EVERY field *)
Theorem C02_leaves_covered : forall pkg fl fuel sd fs hn p,
  flatten pkg fl fuel sd = COk (fs, hn) ->
  c02_guard pkg fuel sd = true ->
  In p (leaf_paths pkg fuel (self_inst sd) []) ->
  (exists e, In e fs /\ f_embedded e = false /\ f_path e = p) \/
  (exists fd n, In fd (sd_fields sd) /\ In n (fd_names fd) /\ excluded_decl fd n = true /\ p = [n]).
Proof. exact leaves_covered. Qed.
Print Assumptions C02_leaves_covered.

(* order and restriction: the parameters are, in the (depth-first declaration)
   order of the flattened list, exactly the entries that are leaves, unshadowed,
   and marked new if any field of the type is marked; "marked" and "excluded" are
   the declarative notions of Model/CtorSpec.v; excluded fields are never entries *)
Theorem C02_parameter_list : forall pkg fl fuel sd fs hn,
  flatten pkg fl fuel sd = COk (fs, hn) ->
  c02_guard pkg fuel sd = true ->
  hn = has_new_spec sd /\
  nd_params (make_new sd hn fs) =
    map (fun e => (to_camel_case (f_name e), star_type e)) (filter (pentry hn) fs) /\
  (forall e, In e fs -> f_embedded e = false ->
     f_new e = marked_new sd (f_path e) /\ excluded_top sd (f_path e) = false).
Proof. exact new_param_list. Qed.
Print Assumptions C02_parameter_list.

(* generics: with identifier constraints NewT carries the struct's type-parameter
   groups and constraints *)
Theorem C02_generics : forall sd hn fs,
  ident_constraints sd = true ->
  nd_tparams (make_new sd hn fs) =
  map (fun g => (String.concat ", " (tp_names g), con_text (tp_con g))) (sd_tparams sd).
Proof. exact new_generics. Qed.
Print Assumptions C02_generics.

(* termination: with the embedding depth below the fuel (the acyclicity / depth part of
   the guard) the analysis never runs out of fuel, for every flag record *)
Theorem C02_bounded_depth_terminates : forall pkg fl fuel sd,
  depth_bounded pkg fuel sd = true -> flatten pkg fl fuel sd <> COutOfFuel.
Proof. exact flatten_terminates. Qed.
Print Assumptions C02_bounded_depth_terminates.

(* K_ctor_self_embed: for a struct whose first field embeds a pointer to itself the
   expansion runs out of fuel for EVERY fuel (the code does not terminate) *)
Theorem C02_self_embed_never_terminates : forall (pkg : pkg_spec) (sd : sdecl) fuel depth pre is_new acc,
  find_struct pkg (sd_pkg sd) (sd_name sd) = Some sd ->
  sd_tparams sd = [] ->
  (exists doc tag rest, sd_fields sd =
      {| fd_names := []; fd_ty := TPtr (TNamed (sd_pkg sd) (sd_name sd) []); fd_doc := doc; fd_tag := tag |} :: rest) ->
  expand_if_struct pkg fuel depth pre (TPtr (TNamed (sd_pkg sd) (sd_name sd) [])) is_new acc = None.
Proof. exact self_embed_out_of_fuel. Qed.
Print Assumptions C02_self_embed_never_terminates.

(* ------------------------------------------------------------------ examples *)
Definition fd (n : list ident) (t : ty) : fdecl := {| fd_names := n; fd_ty := t; fd_doc := ""; fd_tag := None |}.
Definition fdd (n : list ident) (t : ty) (doc : string) (tag : option string) : fdecl :=
  {| fd_names := n; fd_ty := t; fd_doc := doc; fd_tag := tag |}.
Definition st (n : ident) (fs : list fdecl) : sdecl :=
  {| sd_pkg := ""; sd_name := n; sd_tparams := []; sd_doc := ""; sd_fields := fs |}.
Definition nl : string := String (ascii_of_nat 10) "".

(* the golden SonOfSon shape (value and pointer embedding, depth 2, shadowing) plus
   directives: inside the guard, analysable *)
Definition ex_base := st "Base" [fd ["z"] (TBasic "string"); fd ["b"] (TBasic "int"); fd ["a"] (TBasic "string")].
Definition ex_son := st "Son" [fd [] (TNamed "" "Base" []); fd ["k"] (TBasic "string")].
Definition ex_sos := st "SonOfSon"
  [fd [] (TNamed "" "Base" []); fdd ["b1"; "b2"] (TBasic "int") ("shoot: def=7" ++ nl) None;
   fd [] (TPtr (TNamed "" "Son" [])); fdd ["_hid"] (TBasic "int") "" None;
   fdd ["skip"] (TBasic "int") "" (Some "`new:""-""`"); fd ["a"] (TBasic "int")].
Definition ex_pkg : pkg_spec := [ex_base; ex_son; ex_sos].

Example C02_example_guard : c02_guard ex_pkg 6 ex_sos = true.
Proof. vm_compute. reflexivity. Qed.
Example C02_example_flatten :
  exists fs, flatten ex_pkg plain_flags 6 ex_sos = COk (fs, false) /\ length fs = 13 /\
             length (filter f_shadowed fs) = 5 /\
             map fst (nd_params (make_new ex_sos false fs)) = ["z"; "b"; "b1"; "b2"; "k"; "a"].
Proof. eexists. vm_compute. repeat split. Qed.

(* the refutation witnesses of the open findings: inside the grammar, outside
   exactly one conjunct of the guard, and the property's sentence fails on the model *)
(* K_ctor_promoted_underscore: a _-prefixed field of an embedded struct is a parameter *)
Definition w_base := st "Base" [fd ["_pad"] (TBasic "int"); fd ["z"] (TBasic "string")].
Definition w_t := st "T" [fd [] (TNamed "" "Base" []); fd ["y"] (TBasic "int")].
Theorem C02_refuted_K_ctor_promoted_underscore :
  no_promoted_excluded [w_base; w_t] 4 w_t = false /\
  exists nd, new_of [w_base; w_t] plain_flags 4 w_t = COk nd /\ In ("pad", "int") (nd_params nd).
Proof. split; [vm_compute; reflexivity|]. eexists. split; [vm_compute; reflexivity|]. left. reflexivity. Qed.
Print Assumptions C02_refuted_K_ctor_promoted_underscore.

(* K_ctor_excluded_shadow: T{ Base; z int `new:"-"` }: the parameter z is stored in
   Base.z although Go resolves T.z to the excluded field *)
Definition w_base2 := st "Base" [fd ["z"] (TBasic "string")].
Definition w_t2 := st "T" [fd [] (TNamed "" "Base" []); fdd ["z"] (TBasic "int") "" (Some "`new:""-""`")].
Theorem C02_refuted_K_ctor_excluded_shadow :
  no_excluded_shadow [w_base2; w_t2] 4 w_t2 = false /\
  resolve [w_base2; w_t2] 4 w_t2 "z" = Some ["z"] /\
  exists nd, new_of [w_base2; w_t2] plain_flags 4 w_t2 = COk nd /\ nd_params nd = [("z", "string")] /\
    exists v, eval_new [w_base2; w_t2] 4 w_t2 (nd_body nd) (fun _ => VSent 1) = Ok v /\
              lookup v ["Base"; "z"] = Ok (VSent 1) /\ lookup v ["z"] = Ok VZero.
Proof.
  split; [vm_compute; reflexivity|]. split; [vm_compute; reflexivity|].
  eexists. split; [vm_compute; reflexivity|]. split; [reflexivity|].
  eexists. split; [vm_compute; reflexivity|]. split; reflexivity.
Qed.
Print Assumptions C02_refuted_K_ctor_excluded_shadow.

(* K_ctor_embedded_nonstruct: T{ MyInt; Son } with Son{ MyInt string }: Go resolves
   T.MyInt to the embedded field, shoot makes Son.MyInt a parameter *)
Definition w_son3 := st "Son" [fd ["MyInt"] (TBasic "string"); fd ["k"] (TBasic "int")].
Definition w_t3 := st "T" [fd [] (TNamed "" "MyInt" []); fd [] (TNamed "" "Son" [])].
Theorem C02_refuted_K_ctor_embedded_nonstruct :
  no_embedded_nonstruct [w_son3; w_t3] 4 w_t3 = false /\
  resolve [w_son3; w_t3] 4 w_t3 "MyInt" = Some ["MyInt"] /\
  exists nd, new_of [w_son3; w_t3] plain_flags 4 w_t3 = COk nd /\
             nd_params nd = [("myInt", "string"); ("k", "int")].
Proof. split; [vm_compute; reflexivity|]. split; [vm_compute; reflexivity|]. eexists. split; vm_compute; reflexivity. Qed.
Print Assumptions C02_refuted_K_ctor_embedded_nonstruct.

(* K_ctor_excluded_def: a def= on an excluded field is dropped: the field stays zero *)
Definition w_conf := st "Conf" [fd ["name"] (TBasic "string");
                                fdd ["port"] (TBasic "int") ("shoot: def=80" ++ nl) (Some "`new:""-""`")].
Theorem C02_refuted_K_ctor_excluded_def :
  no_excluded_def w_conf = false /\ def_text w_conf ["port"] = "80" /\
  exists nd, new_of [w_conf] plain_flags 4 w_conf = COk nd /\
    exists v, eval_new [w_conf] 4 w_conf (nd_body nd) (fun _ => VSent 1) = Ok v /\ lookup v ["port"] = Ok VZero.
Proof.
  split; [vm_compute; reflexivity|]. split; [vm_compute; reflexivity|].
  eexists. split; [vm_compute; reflexivity|]. eexists. split; [vm_compute; reflexivity|]. reflexivity.
Qed.
Print Assumptions C02_refuted_K_ctor_excluded_def.

(* K_ctor_generic_constraint: G[T fmt.Stringer]: NewG gets no type parameters *)
Definition w_g := {| sd_pkg := ""; sd_name := "G";
                     sd_tparams := [{| tp_names := ["T"]; tp_con := COther "fmt.Stringer" |}];
                     sd_doc := ""; sd_fields := [fd ["v"] (TParam "T")] |}.
Theorem C02_refuted_K_ctor_generic_constraint :
  ident_constraints w_g = false /\
  exists nd, new_of [w_g] plain_flags 4 w_g = COk nd /\ nd_tparams nd = [] /\ nd_params nd = [("v", "T")].
Proof. split; [reflexivity|]. eexists. split; [vm_compute; reflexivity|]. split; reflexivity. Qed.
Print Assumptions C02_refuted_K_ctor_generic_constraint.

(* K_ctor_double_ptr: pp **int gets a parameter of type *int *)
Definition w_a := st "A" [fd ["pp"] (TPtr (TPtr (TBasic "int")))].
Theorem C02_refuted_K_ctor_double_ptr :
  no_double_ptr w_a = false /\
  exists nd, new_of [w_a] plain_flags 4 w_a = COk nd /\ nd_params nd = [("pp", "*int")] /\
             type_string (TPtr (TPtr (TBasic "int"))) = "**int".
Proof. split; [reflexivity|]. eexists. split; [vm_compute; reflexivity|]. split; reflexivity. Qed.
Print Assumptions C02_refuted_K_ctor_double_ptr.

(* K_ctor_keyword_param: field Type -> parameter type *)
Definition w_k := st "K" [fd ["Type"] (TBasic "string")].
Theorem C02_refuted_K_ctor_keyword_param :
  param_names_ok [w_k] 4 w_k = false /\
  exists nd, new_of [w_k] plain_flags 4 w_k = COk nd /\ nd_params nd = [("type", "string")].
Proof. split; [vm_compute; reflexivity|]. eexists. split; vm_compute; reflexivity. Qed.
Print Assumptions C02_refuted_K_ctor_keyword_param.

(* K_ctor_foreign_unexported: Go's export rule.  T{ bytes.Buffer; n int }: the model (like
   the code) makes buf/off/lastRead parameters and literal elements of bytes.Buffer{...};
   no Go program outside package bytes can name them, so there is no NewT to speak about *)
Definition w_buffer := {| sd_pkg := "bytes"; sd_name := "Buffer"; sd_tparams := []; sd_doc := "";
                          sd_fields := [fd ["buf"] (TSlice (TBasic "byte")); fd ["off"] (TBasic "int");
                                        fd ["lastRead"] (TNamed "bytes" "readOp" [])] |}.
Definition w_tb := st "T" [fd [] (TNamed "bytes" "Buffer" []); fd ["n"] (TBasic "int")].
Theorem C02_refuted_K_ctor_foreign_unexported :
  foreign_fields_exported [w_buffer; w_tb] 4 w_tb = false /\ c02_guard_core [w_buffer; w_tb] 4 w_tb = true /\
  exists nd, new_of [w_buffer; w_tb] plain_flags 4 w_tb = COk nd /\
             nd_params nd = [("buf", "[]byte"); ("off", "int"); ("lastRead", "bytes.readOp"); ("n", "int")].
Proof. split; [vm_compute; reflexivity|]. split; [vm_compute; reflexivity|]. eexists. split; vm_compute; reflexivity. Qed.
Print Assumptions C02_refuted_K_ctor_foreign_unexported.

(* K_ctor_ambiguous_promoted: Top{ Son; Mid; w } with Son.x and Mid.x is legal Go (x is just not
   a selector of Top); both become parameters: the parameter list has a duplicate name *)
Definition w_son4 := st "Son" [fd ["x"] (TBasic "int"); fd ["m"] (TBasic "string")].
Definition w_mid4 := st "Mid" [fd ["x"] (TBasic "int"); fd ["n"] (TBasic "string")].
Definition w_top4 := st "Top" [fd [] (TNamed "" "Son" []); fd [] (TNamed "" "Mid" []); fd ["w"] (TBasic "int")].
Theorem C02_refuted_K_ctor_ambiguous_promoted :
  unambiguous [w_son4; w_mid4; w_top4] 4 w_top4 = false /\
  resolve [w_son4; w_mid4; w_top4] 4 w_top4 "x" = None /\
  exists nd, new_of [w_son4; w_mid4; w_top4] plain_flags 4 w_top4 = COk nd /\
             map fst (nd_params nd) = ["x"; "m"; "x"; "n"; "w"].
Proof. split; [vm_compute; reflexivity|]. split; [vm_compute; reflexivity|]. eexists. split; vm_compute; reflexivity. Qed.
Print Assumptions C02_refuted_K_ctor_ambiguous_promoted.

(* K_ctor_camel_collision: userName and user_name have one camel form: duplicate parameter *)
Definition w_user := st "User" [fd ["userName"] (TBasic "string"); fd ["user_name"] (TBasic "string")].
Theorem C02_refuted_K_ctor_camel_collision :
  param_names_ok [w_user] 4 w_user = false /\
  exists nd, new_of [w_user] plain_flags 4 w_user = COk nd /\ map fst (nd_params nd) = ["userName"; "userName"].
Proof. split; [vm_compute; reflexivity|]. eexists. split; vm_compute; reflexivity. Qed.
Print Assumptions C02_refuted_K_ctor_camel_collision.

(* K_ctor_embed_tag_ignored: a new:"-" tag on an embedded field excludes nothing *)
Definition w_base5 := st "Base" [fd ["z"] (TBasic "string"); fd ["q"] (TBasic "int")].
Definition w_u5 := st "U" [fdd [] (TNamed "" "Base" []) "" (Some "`new:""-""`"); fd ["y"] (TBasic "int")].
Theorem C02_refuted_K_ctor_embed_tag_ignored :
  no_tagged_embed [w_base5; w_u5] 4 w_u5 = false /\
  exists nd, new_of [w_base5; w_u5] plain_flags 4 w_u5 = COk nd /\ map fst (nd_params nd) = ["z"; "q"; "y"].
Proof. split; [vm_compute; reflexivity|]. eexists. split; vm_compute; reflexivity. Qed.
Print Assumptions C02_refuted_K_ctor_embed_tag_ignored.

(* K_ctor_promoted_def_ignored: Base declares q with def=5; in W{ Base; k (new) } q is not a
   parameter and yet NewW leaves it zero *)
Definition w_base6 := st "Base" [fdd ["q"] (TBasic "int") ("shoot: def=5" ++ nl) None; fd ["z"] (TBasic "string")].
Definition w_w6 := st "W" [fd [] (TNamed "" "Base" []); fdd ["k"] (TBasic "int") ("shoot: new" ++ nl) None].
Theorem C02_refuted_K_ctor_promoted_def_ignored :
  no_promoted_def [w_base6; w_w6] 4 w_w6 = false /\ def_text w_base6 ["q"] = "5" /\
  exists nd, new_of [w_base6; w_w6] plain_flags 4 w_w6 = COk nd /\ map fst (nd_params nd) = ["k"] /\
    exists v, eval_new [w_base6; w_w6] 4 w_w6 (nd_body nd) (fun _ => VSent 1) = Ok v /\
              lookup v ["Base"; "q"] = Ok VZero.
Proof.
  split; [vm_compute; reflexivity|]. split; [vm_compute; reflexivity|].
  eexists. split; [vm_compute; reflexivity|]. split; [reflexivity|].
  eexists. split; [vm_compute; reflexivity|]. reflexivity.
Qed.
Print Assumptions C02_refuted_K_ctor_promoted_def_ignored.

(* generics, second half: NewT returns *T instantiated with exactly the struct's own type
   parameters, in order (for identifier constraints) *)
Theorem C02_generics_result_type : forall sd,
  ident_constraints sd = true ->
  new_result_type sd =
  "*" ++ sd_name sd ++ match sd_tparams sd with
                       | [] => ""
                       | gs => "[" ++ String.concat ", " (map (fun g => String.concat ", " (tp_names g)) gs) ++ "]"
                       end.
Proof. exact new_result_type_spec. Qed.
Print Assumptions C02_generics_result_type.
