(* C20 runtime: RetryMiddleware attempts at most n+1 times and stops on success.
   This file contains only the property theorems; each is closed by [exact] of a
   lemma from Proofs/RetryProofs.v and followed by Print Assumptions. *)
From Coq Require Import List ZArith Bool Lia.
From Shoot Require Import Model.Retry Proofs.RetryProofs Corr.RetryCorr Proofs.RetryCorrProofs.
From Shoot Require Import Model.RetryStack Proofs.RetryStackProofs.
Import ListNotations.

(* acceptable = "a response with status below 500 and no error" *)
Theorem C20_acceptable_means : forall o,
  acceptable o = true <-> exists r, o = RResp r /\ (r_status r < 500)%Z.
Proof. exact acceptable_spec. Qed.
Print Assumptions C20_acceptable_means.

(* never more than n+1 calls, for every script (of any length, any statuses) *)
Theorem C20_at_most_n_plus_1 : forall (n : Z) (script : nat -> rt_out),
  (0 <= n)%Z -> calls (fst (retry n script)) <= Z.to_nat (n + 1).
Proof. exact retry_calls_bound. Qed.
Print Assumptions C20_at_most_n_plus_1.

(* if attempt j is the first acceptable one among the n+1 allowed, the run is
   exactly Call 0 (Sleep Call i)* up to j, and the result is (that response, nil) *)
Theorem C20_stops_at_first_acceptable : forall (n : Z) script j,
  (0 <= n)%Z ->
  first_acceptable script 0 (Z.to_nat (n + 1)) j ->
  retry n script = (trace_to j, (fst (as_result (script j)), None)).
Proof. exact retry_hit. Qed.
Print Assumptions C20_stops_at_first_acceptable.

(* if none of the n+1 attempts is acceptable: exactly n+1 calls and the result
   is the last attempt's (response, error) unchanged *)
Theorem C20_exhausted_returns_last : forall (n : Z) script,
  (0 <= n)%Z ->
  none_acceptable script 0 (Z.to_nat (n + 1)) ->
  retry n script = (trace_to (Z.to_nat n), as_result (script (Z.to_nat n))).
Proof. exact retry_miss. Qed.
Print Assumptions C20_exhausted_returns_last.

(* the two cases are exhaustive *)
Theorem C20_cases_exhaustive : forall script fuel a,
  (exists j, first_acceptable script a fuel j) \/ none_acceptable script a fuel.
Proof. exact first_or_none. Qed.
Print Assumptions C20_cases_exhaustive.

(* shape of the trace: one call, then exactly one d-sleep before each retry *)
Theorem C20_trace_shape : forall j,
  trace_to j = ECall 0 :: flat_map (fun i => [ESleep; ECall i]) (seq 1 j)
  /\ calls (trace_to j) = S j /\ sleeps (trace_to j) = j.
Proof. intros j. exact (conj (trace_to_shape j) (conj (calls_trace_to j) (sleeps_trace_to j))). Qed.
Print Assumptions C20_trace_shape.

(* n < 0 (outside the property's quantifier; stated for completeness): the loop
   never runs, no call is made and (nil, nil) is returned *)
Theorem C20_negative_n : forall n script, (n < 0)%Z -> retry n script = ([], (None, None)).
Proof. exact retry_negative. Qed.
Print Assumptions C20_negative_n.

(* the boolean property the correspondence evaluates on the implementation's observation is the
   statement above: [first_acc] computes the declarative first acceptable attempt, and the property
   holds of the model's own observation for every n and script, so a non-zero verdict always is a
   difference between the implementation and the model *)
Theorem C20_Pb_first_acc_is_first_acceptable : forall l fuel a j,
  first_acc l a fuel = Some j -> first_acceptable (script_of l (RErr 0 None)) a fuel j.
Proof. exact first_acc_some. Qed.
Print Assumptions C20_Pb_first_acc_is_first_acceptable.

Theorem C20_Pb_holds_on_model : forall n l, Pb n l (model_obs n l) = true.
Proof. exact Pb_holds_on_model. Qed.
Print Assumptions C20_Pb_holds_on_model.

(* ---- stacks of middlewares (Model/RetryStack.v): RetryMiddleware as a transformer of arbitrary
   stateful RoundTrippers.  Over the scripted wire it is exactly the model above, so the ties of
   that model to middleware/retry.go carry over ---- *)
Theorem C20_stack_refines_model : forall n script,
  retry_tr n (wire script) 0 =
  (fst (retry n script), snd (retry n script), calls (fst (retry n script))).
Proof. exact retry_tr_wire. Qed.
Print Assumptions C20_stack_refines_model.

(* "never more" composes: around ANY RoundTripper that makes at most k wire calls per request,
   RetryMiddleware(n, d) makes at most (n+1) * k; hence a retry inside a retry makes at most
   (n+1) * (m+1) calls of the wire transport, from any state of the wire *)
Theorem C20_stack_bound : forall n next k,
  bounded next k -> bounded (retry_tr n next) (Z.to_nat (n + 1) * k).
Proof. exact retry_tr_bounded. Qed.
Print Assumptions C20_stack_bound.

Theorem C20_nested_at_most_product : forall n m script c,
  (0 <= n)%Z -> (0 <= m)%Z ->
  wire_calls (retry_tr n (retry_tr m (wire script))) c <= Z.to_nat ((n + 1) * (m + 1)).
Proof. exact nested_retry_bound. Qed.
Print Assumptions C20_nested_at_most_product.

(* RetryMiddleware(0, d) is the identity on RoundTrippers, outside or inside another instance:
   this is what lets the harness's outer0 / inner0 profiles be compared with the single-instance model *)
Theorem C20_zero_is_identity : forall next c, retry_tr 0 next c = next c.
Proof. exact retry_tr_zero. Qed.
Print Assumptions C20_zero_is_identity.

Theorem C20_zero_inside_or_outside : forall n next c,
  retry_tr 0 (retry_tr n next) c = retry_tr n next c /\
  retry_tr n (retry_tr 0 next) c = retry_tr n next c.
Proof. intros n next c. exact (conj (retry_zero_outside n next c) (retry_zero_inside n next c)). Qed.
Print Assumptions C20_zero_inside_or_outside.

(* for n >= 0 a retry never hands (nil, nil) to the middleware around it, provided the transport
   below never does: the side condition of the model is preserved by stacking *)
Theorem C20_stack_never_nil_nil : forall n next,
  (0 <= n)%Z -> ok_tr next -> ok_tr (retry_tr n next).
Proof. exact retry_tr_ok. Qed.
Print Assumptions C20_stack_never_nil_nil.

(* LoggingMiddleware commutes with RetryMiddleware: same events and wire calls either way, the
   result differing only by logging's dropping of a response that accompanies an error *)
Theorem C20_logging_commutes : forall n next c,
  retry_tr n (log_tr next) c = log_tr (retry_tr n next) c.
Proof. exact retry_log_commute. Qed.
Print Assumptions C20_logging_commutes.

(* the two main theorems over an ARBITRARY stateful RoundTripper [next] (another middleware, a whole
   stack, a transport with its own state): [res next c i] is what the i-th invocation of [next]
   returns when the first starts in wire state c, [st next c i] the wire state after i invocations.
   If invocation j is the first acceptable one among the n+1 allowed, the result is exactly its
   result and [next] has been invoked exactly j+1 times; if none is, the result is that of
   invocation n, unchanged, after exactly n+1 invocations *)
Theorem C20_stack_stops_at_first_acceptable : forall n next c j,
  (0 <= n)%Z -> j < Z.to_nat (n + 1) ->
  (forall i, i < j -> acceptable_res (res next c i) = false) ->
  acceptable_res (res next c j) = true ->
  snd (fst (retry_tr n next c)) = res next c j /\ snd (retry_tr n next c) = st next c (S j).
Proof. exact retry_tr_hit. Qed.
Print Assumptions C20_stack_stops_at_first_acceptable.

Theorem C20_stack_exhausted_returns_last : forall n next c,
  (0 <= n)%Z ->
  (forall i, i < Z.to_nat (n + 1) -> acceptable_res (res next c i) = false) ->
  snd (fst (retry_tr n next c)) = res next c (Z.to_nat n) /\
  snd (retry_tr n next c) = st next c (Z.to_nat (n + 1)).
Proof. exact retry_tr_miss. Qed.
Print Assumptions C20_stack_exhausted_returns_last.

(* non-vacuity: an inner retry(1) over a wire failing three times, seen from an outer retry(1):
   invocation 0 of the inner instance is not acceptable, invocation 1 is *)
Example C20_example_stack_hit :
  let next := retry_tr 1 (wire (script_of
     [RErr 1 None; RResp {| r_id := 2; r_status := 503 |}; RErr 3 None; RResp {| r_id := 4; r_status := 200 |}]
     (RErr 0 None))) in
  acceptable_res (res next 0 0) = false /\ acceptable_res (res next 0 1) = true /\ st next 0 2 = 4.
Proof. vm_compute. split; [reflexivity | split; reflexivity]. Qed.

(* non-vacuity of the stack theorems: a retry(1) inside a retry(1) over a wire that fails three
   times and then answers 200 makes 4 = (1+1)*(1+1) wire calls and returns that answer *)
Example C20_example_nested :
  retry_tr 1 (retry_tr 1 (wire (script_of
     [RErr 1 None; RResp {| r_id := 2; r_status := 503 |}; RErr 3 None; RResp {| r_id := 4; r_status := 200 |}]
     (RErr 0 None)))) 0%nat
  = ([ECall 0; ESleep; ECall 1; ESleep; ECall 2; ESleep; ECall 3],
     (Some {| r_id := 4; r_status := 200 |}, None), 4).
Proof. vm_compute. reflexivity. Qed.

(* non-vacuity: a concrete script meeting the hypotheses of both main theorems *)
Example C20_example_hit :
  first_acceptable
    (script_of [RErr 1 None; RResp {| r_id := 7; r_status := 503 |}; RResp {| r_id := 8; r_status := 404 |}]
               (RErr 0 None)) 0 (Z.to_nat (3 + 1)) 2.
Proof. repeat split; try (cbn; lia); try reflexivity.
  intros i Hi. destruct i as [|[|i]]; try reflexivity; lia. Qed.
Example C20_example_miss :
  none_acceptable (script_of [RErr 1 None; RResp {| r_id := 7; r_status := 500 |}] (RErr 0 None))
                  0 (Z.to_nat (1 + 1)).
Proof. intros i Hi. destruct i as [|[|i]]; try reflexivity; cbn in Hi; lia. Qed.
