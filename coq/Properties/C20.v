(* C20 runtime: RetryMiddleware attempts at most n+1 times and stops on success.
   This file contains only the property theorems; each is closed by [exact] of a
   lemma from Proofs/RetryProofs.v and followed by Print Assumptions. *)
From Coq Require Import List ZArith Bool Lia.
From Shoot Require Import Model.Retry Proofs.RetryProofs Corr.RetryCorr Proofs.RetryCorrProofs.
Import ListNotations.

(* acceptable = "a response with status below 500 and no error" *)
Theorem C20_acceptable_means : forall o,
  acceptable o = true <-> exists r, o = RResp r /\ (r_status r < 500)%Z.
Proof. exact acceptable_spec. Qed.
Print Assumptions C20_acceptable_means.

(* never more than n+1 calls, for every script (of any length, any statuses) *)
Theorem C20_at_most_n_plus_1 : forall (n : Z) (script : nat -> rt_out),
  (0 <= n)%Z -> calls (fst (retry n script)) <= Z.to_nat (n + 1).
Proof. exact retry_calls_bound. Qed.
Print Assumptions C20_at_most_n_plus_1.

(* if attempt j is the first acceptable one among the n+1 allowed, the run is
   exactly Call 0 (Sleep Call i)* up to j, and the result is (that response, nil) *)
Theorem C20_stops_at_first_acceptable : forall (n : Z) script j,
  (0 <= n)%Z ->
  first_acceptable script 0 (Z.to_nat (n + 1)) j ->
  retry n script = (trace_to j, (fst (as_result (script j)), None)).
Proof. exact retry_hit. Qed.
Print Assumptions C20_stops_at_first_acceptable.

(* if none of the n+1 attempts is acceptable: exactly n+1 calls and the result
   is the last attempt's (response, error) unchanged *)
Theorem C20_exhausted_returns_last : forall (n : Z) script,
  (0 <= n)%Z ->
  none_acceptable script 0 (Z.to_nat (n + 1)) ->
  retry n script = (trace_to (Z.to_nat n), as_result (script (Z.to_nat n))).
Proof. exact retry_miss. Qed.
Print Assumptions C20_exhausted_returns_last.

(* the two cases are exhaustive *)
Theorem C20_cases_exhaustive : forall script fuel a,
  (exists j, first_acceptable script a fuel j) \/ none_acceptable script a fuel.
Proof. exact first_or_none. Qed.
Print Assumptions C20_cases_exhaustive.

(* shape of the trace: one call, then exactly one d-sleep before each retry *)
Theorem C20_trace_shape : forall j,
  trace_to j = ECall 0 :: flat_map (fun i => [ESleep; ECall i]) (seq 1 j)
  /\ calls (trace_to j) = S j /\ sleeps (trace_to j) = j.
Proof. intros j. exact (conj (trace_to_shape j) (conj (calls_trace_to j) (sleeps_trace_to j))). Qed.
Print Assumptions C20_trace_shape.

(* n < 0 (outside the property's quantifier; stated for completeness): the loop
   never runs, no call is made and (nil, nil) is returned *)
Theorem C20_negative_n : forall n script, (n < 0)%Z -> retry n script = ([], (None, None)).
Proof. exact retry_negative. Qed.
Print Assumptions C20_negative_n.

(* the boolean property the correspondence evaluates on the implementation's observation is the
   statement above: [first_acc] computes the declarative first acceptable attempt, and the property
   holds of the model's own observation for every n and script, so a non-zero verdict always is a
   difference between the implementation and the model *)
Theorem C20_Pb_first_acc_is_first_acceptable : forall l fuel a j,
  first_acc l a fuel = Some j -> first_acceptable (script_of l (RErr 0 None)) a fuel j.
Proof. exact first_acc_some. Qed.
Print Assumptions C20_Pb_first_acc_is_first_acceptable.

Theorem C20_Pb_holds_on_model : forall n l, Pb n l (model_obs n l) = true.
Proof. exact Pb_holds_on_model. Qed.
Print Assumptions C20_Pb_holds_on_model.

(* non-vacuity: a concrete script meeting the hypotheses of both main theorems *)
Example C20_example_hit :
  first_acceptable
    (script_of [RErr 1 None; RResp {| r_id := 7; r_status := 503 |}; RResp {| r_id := 8; r_status := 404 |}]
               (RErr 0 None)) 0 (Z.to_nat (3 + 1)) 2.
Proof. repeat split; try (cbn; lia); try reflexivity.
  intros i Hi. destruct i as [|[|i]]; try reflexivity; lia. Qed.
Example C20_example_miss :
  none_acceptable (script_of [RErr 1 None; RResp {| r_id := 7; r_status := 500 |}] (RErr 0 None))
                  0 (Z.to_nat (1 + 1)).
Proof. intros i Hi. destruct i as [|[|i]]; try reflexivity; cbn in Hi; lia. Qed.
