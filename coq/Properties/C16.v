(* C16 Type selection and output file naming follow the command line.

   Model/Cli.v      the code, written literally: flag parsing, the four ListTypes /
                    testNode filters, MakeData's skip/fatal decisions, confirmTypes /
                    getGoFile (over an arbitrary iteration order of the Defs map),
                    the findCmdLine scan, fileName, the Generate loop, the message
   Model/CliSpec.v  the property's declarative reading over package-level
                    declarations: eligible / listable / nameable, decl_file, spec
                    (which files with which types a command line must produce),
                    meets (outcome vs. expectation, incl. "named after a source file")
   This file contains only the property theorems; each is closed by [exact] of a
   lemma from Proofs/Cli*Proofs.v and followed by Print Assumptions. *)
From Coq Require Import List String Ascii Bool Arith NArith Permutation.
From Shoot Require Import Model.Cli Model.CliSpec Corr.CliCorr
                          Proofs.CliProofs Proofs.CliParseProofs Proofs.CliCorrProofs.
Import ListNotations.
Local Open Scope string_scope.

(* ---- the main refinement: for every iteration order o of the Go maps, every
   subcommand, every flag record a command line can produce and every well-formed
   multi-file skeleton outside the input classes of the two open findings, the
   run produces exactly the files (names, and types per file in order) the
   declarative reading demands, each named after a source file of the package,
   and the message lists them; or, when the reading demands a failure, it stops
   with a diagnostic before anything is written *)
Theorem C16_run_refines_spec : forall (o : oracle) (c : subcmd) (fl : cflags) (p : pkg),
  perm_oracle o -> wf_pkgb p = true -> flags_okb fl = true -> known_class c fl p = false ->
  match spec c fl p with
  | EFail => exists d, run o c fl p = Failed d
  | EFiles fs => run o c fl p = Done (o _ fs) (map fst (o _ fs)) /\ forallb (anchored c p) (map fst fs) = true
  end.
Proof. exact run_refines_spec. Qed.
Print Assumptions C16_run_refines_spec.

(* the same in the boolean form evaluated by the correspondence run *)
Theorem C16_run_meets_spec : forall o c fl p,
  perm_oracle o -> wf_pkgb p = true -> flags_okb fl = true -> known_class c fl p = false ->
  meets c p (run o c fl p) (spec c fl p) = true.
Proof. exact run_meets_spec. Qed.
Print Assumptions C16_run_meets_spec.

(* ---- `-type=A,B` generates for exactly the named types: one file per type,
   src.shoot<cmd>.<lowercased type>.go with src.go the file declaring the type *)
Theorem C16_type_list_exact : forall o c fl p,
  perm_oracle o -> wf_pkgb p = true -> fl_specified fl = true -> fl_sep fl = true -> fl_file fl = "" ->
  (forall T, In T (fl_types fl) -> nameable c p T = true) ->
  NoDup (map (fun T => per_type_name c (decl_file p T) T) (fl_types fl)) ->
  run o c fl p = Done (o _ (map (fun T => (per_type_name c (decl_file p T) T, [T])) (fl_types fl)))
                      (map fst (o _ (map (fun T => (per_type_name c (decl_file p T) T, [T])) (fl_types fl)))).
Proof. exact type_list_exact. Qed.
Print Assumptions C16_type_list_exact.

(* ---- naming a type that is missing or of the wrong kind yields a diagnostic
   and no output file (for it or for any other type of the list) *)
Theorem C16_bad_name_fails : forall o c fl p T,
  perm_oracle o -> wf_pkgb p = true -> fl_specified fl = true ->
  In T (fl_types fl) -> nameable c p T = false ->
  exists d, run o c fl p = Failed d.
Proof. exact bad_name_fails. Qed.
Print Assumptions C16_bad_name_fails.

(* ---- (repair of K_enum_missing_silent) an explicitly named type is generated
   or a diagnostic: never skipped silently *)
Theorem C16_named_is_generated_or_fatal : forall c p T, wf_pkgb p = true ->
  make_data c p true T = MGen \/ exists d, make_data c p true T = MFatal d.
Proof. exact named_is_generated_or_fatal. Qed.
Print Assumptions C16_named_is_generated_or_fatal.

(* ---- (repair of K_lower_collision / K_filename_case_clash) two named types
   whose output names coincide (Order / ORDER, or one name twice): a diagnostic
   and no file; no type is lost silently *)
Theorem C16_name_clash_fails : forall o c fl p,
  perm_oracle o -> wf_pkgb p = true -> fl_specified fl = true -> fl_sep fl = true -> fl_file fl = "" ->
  ~ NoDup (map (fun T => per_type_name c (decl_file p T) T) (fl_types fl)) ->
  exists d, run o c fl p = Failed d.
Proof. exact name_clash_fails. Qed.
Print Assumptions C16_name_clash_fails.

Theorem C16_cli_name_clash : forall o c p L,
  perm_oracle o -> wf_pkgb p = true -> L <> [] -> (forall T, In T L -> is_ident T = true) ->
  ~ NoDup (map (fun T => per_type_name c (decl_file p T) T) L) ->
  exists d, shoot_cli o c ["-type=" ++ join "," L] p = COut (Failed d).
Proof. exact cli_name_clash. Qed.
Print Assumptions C16_cli_name_clash.

(* ---- (repair of K_local_type_listed) -file / -type=* list package-level
   declarations only, whatever is declared inside function bodies *)
Theorem C16_list_types_top_level_only : forall c fl p T, In T (list_types c fl p) ->
  exists f t, In f (p_files p) /\ In t (top_specs f) /\ ts_name t = T /\ test_node_list c t = true.
Proof. exact list_types_top_level_only. Qed.
Print Assumptions C16_list_types_top_level_only.

(* ---- `-file=f.go -sep`: one file per eligible declaration of f.go; a clash of two names is a diagnostic *)
Theorem C16_file_mode_sep_exact : forall o c fl p f,
  perm_oracle o -> wf_pkgb p = true -> fl_specified fl = false -> fl_sep fl = true ->
  In f (p_files p) -> fl_file fl = f_name f -> ends_with ".go" (f_name f) = true ->
  let sel := map ts_name (filter (listable c p) (top_specs f)) in
  let name := fun T => per_type_name c (f_name f) T in
  (NoDup (map name sel) -> run o c fl p = Done (o _ (map (fun T => (name T, [T])) sel))
                                                   (map fst (o _ (map (fun T => (name T, [T])) sel)))) /\
  (~ NoDup (map name sel) -> exists d, run o c fl p = Failed d).
Proof. exact file_mode_sep_exact. Qed.
Print Assumptions C16_file_mode_sep_exact.

(* ---- `-file=f.go`: exactly the eligible declarations of f.go, in declaration
   order, all in f.shoot<cmd>.go *)
Theorem C16_file_mode_exact : forall o c fl p f,
  perm_oracle o -> wf_pkgb p = true -> fl_specified fl = false -> fl_sep fl = false ->
  In f (p_files p) -> fl_file fl = f_name f -> ends_with ".go" (f_name f) = true ->
  let sel := map ts_name (filter (listable c p) (top_specs f)) in
  run o c fl p = match sel with
                 | [] => Done [] []
                 | _ => Done [(trim_go (f_name f) ++ "." ++ shootcmd c ++ ".go", sel)]
                             [trim_go (f_name f) ++ "." ++ shootcmd c ++ ".go"]
                 end.
Proof. exact file_mode_exact. Qed.
Print Assumptions C16_file_mode_exact.

(* ---- `-type=*`: all eligible declarations of the package (file order, then
   declaration order), in <file of the //go:generate line>.shoot<cmd>.go *)
Theorem C16_star_mode_exact : forall o c fl p,
  perm_oracle o -> wf_pkgb p = true -> fl_specified fl = false -> fl_sep fl = false -> fl_file fl = "" ->
  all_in_one_file fl p <> "" ->
  let sel := map ts_name (filter (listable c p) (pkg_specs p)) in
  run o c fl p = match sel with
                 | [] => Done [] []
                 | _ => Done [(trim_go (all_in_one_file fl p) ++ "." ++ shootcmd c ++ ".go", sel)]
                             [trim_go (all_in_one_file fl p) ++ "." ++ shootcmd c ++ ".go"]
                 end.
Proof. exact star_mode_exact. Qed.
Print Assumptions C16_star_mode_exact.

(* ---- every written file is listed in the success message, in the order written.
   BY CONSTRUCTION OF THE MODEL: main's loop is modelled as it is written (each
   iteration of `range srcMap` writes one file and appends its name, Cli.main_loop),
   so this theorem only says that such a loop cannot lose or invent a name; that
   the real message lists exactly the written files is established by the
   correspondence run on every case (perm_eqb of the observed message list
   against the observed files), not by this theorem. *)
Theorem C16_message_lists_every_file : forall o c fl p files listed,
  run o c fl p = Done files listed -> listed = map fst files.
Proof. exact message_lists_every_file. Qed.
Print Assumptions C16_message_lists_every_file.

(* ---- the code's filters coincide with the declarative eligibility *)
Theorem C16_generated_iff_nameable : forall c p T, wf_pkgb p = true ->
  (make_data c p true T = MGen <-> nameable c p T = true).
Proof. exact generated_iff_nameable. Qed.
Print Assumptions C16_generated_iff_nameable.

Theorem C16_listed_iff_listable : forall c p t, wf_pkgb p = true -> In t (pkg_specs p) ->
  (test_node_list c t && keep c p false (ts_name t)) = listable c p t.
Proof. exact listed_iff_listable. Qed.
Print Assumptions C16_listed_iff_listable.

(* ---- getGoFile: the declaring file, independently of the order in which Go
   iterates over TypesInfo.Defs (type parameters / local types of the same name
   do not count) *)
Theorem C16_get_go_file_decl : forall o p T, perm_oracle o -> wf_pkgb p = true -> get_go_file o p T = decl_file p T.
Proof. exact get_go_file_decl. Qed.
Print Assumptions C16_get_go_file_decl.

Theorem C16_decl_file_declares : forall p f t, wf_pkgb p = true -> In f (p_files p) -> In t (top_specs f) ->
  decl_file p (ts_name t) = f_name f.
Proof. exact decl_file_declares. Qed.
Print Assumptions C16_decl_file_declares.

(* ---- over argument vectors (flag.FlagSet.Parse + ParseCommonFlags included) *)
Theorem C16_parse_flags_ok : forall c args fl vals, parse_common c args = POk fl vals -> flags_okb fl = true.
Proof. exact parse_common_flags_ok. Qed.
Print Assumptions C16_parse_flags_ok.

Theorem C16_parse_type_list : forall c L, L <> [] -> (forall T, In T L -> is_ident T = true) ->
  parse_common c ["-type=" ++ join "," L] =
  POk (flags_of c ["-type=" ++ join "," L] L true "" true) [("type", join "," L)].
Proof. exact parse_type_list. Qed.
Print Assumptions C16_parse_type_list.

Theorem C16_cli_type_list : forall o c p L,
  perm_oracle o -> wf_pkgb p = true -> L <> [] ->
  (forall T, In T L -> nameable c p T = true) ->
  NoDup (map (fun T => per_type_name c (decl_file p T) T) L) ->
  shoot_cli o c ["-type=" ++ join "," L] p =
  COut (Done (o _ (map (fun T => (per_type_name c (decl_file p T) T, [T])) L))
             (map fst (o _ (map (fun T => (per_type_name c (decl_file p T) T, [T])) L)))).
Proof. exact cli_type_list. Qed.
Print Assumptions C16_cli_type_list.

Theorem C16_cli_bad_name : forall o c p L T,
  perm_oracle o -> wf_pkgb p = true -> (forall T', In T' L -> is_ident T' = true) ->
  In T L -> nameable c p T = false ->
  exists d, shoot_cli o c ["-type=" ++ join "," L] p = COut (Failed d).
Proof. exact cli_bad_name. Qed.
Print Assumptions C16_cli_bad_name.

Theorem C16_cli_file : forall o c p f,
  perm_oracle o -> wf_pkgb p = true -> In f (p_files p) -> ends_with ".go" (f_name f) = true ->
  let sel := map ts_name (filter (listable c p) (top_specs f)) in
  shoot_cli o c ["-file=" ++ f_name f] p =
  COut (match sel with
        | [] => Done [] []
        | _ => Done [(trim_go (f_name f) ++ "." ++ shootcmd c ++ ".go", sel)]
                    [trim_go (f_name f) ++ "." ++ shootcmd c ++ ".go"]
        end).
Proof. exact cli_file. Qed.
Print Assumptions C16_cli_file.

Theorem C16_cli_star : forall o c p g,
  perm_oracle o -> wf_pkgb p = true ->
  find (file_has_cmdline ("shoot " ++ sub_name c ++ " -type=*")) (p_files p) = Some g ->
  let sel := map ts_name (filter (listable c p) (pkg_specs p)) in
  shoot_cli o c ["-type=*"] p =
  COut (match sel with
        | [] => Done [] []
        | _ => Done [(trim_go (f_name g) ++ "." ++ shootcmd c ++ ".go", sel)]
                    [trim_go (f_name g) ++ "." ++ shootcmd c ++ ".go"]
        end).
Proof. exact cli_star. Qed.
Print Assumptions C16_cli_star.

(* an explicit -type list forces one file per type whatever -sep says *)
Theorem C16_type_list_forces_separate : forall c T, is_ident T = true ->
  exists fl vals, parse_common c ["-type=" ++ T; "-sep=false"] = POk fl vals /\ fl_sep fl = true /\ fl_types fl = [T].
Proof. exact parse_type_list_sep_false. Qed.
Print Assumptions C16_type_list_forces_separate.

(* ---- the boolean property of the correspondence run is this statement *)
Theorem C16_Pb_holds_on_model : forall c args p fl vals,
  parse_common c args = POk fl vals -> flag_val "to" vals "" = "" ->
  wf_pkgb p = true -> known_class c fl p = false ->
  Pb c args p (model_obs c args p) = true.
Proof. exact Pb_holds_on_model. Qed.
Print Assumptions C16_Pb_holds_on_model.

Theorem C16_verdict_zero_on_model : forall c args p fl vals,
  parse_common c args = POk fl vals -> flag_val "to" vals "" = "" ->
  wf_pkgb p = true -> known_class c fl p = false ->
  verdict {| c_cmd := c; c_args := args; c_pkg := p; c_obs := model_obs c args p |} = 0%N.
Proof. exact verdict_zero_on_model. Qed.
Print Assumptions C16_verdict_zero_on_model.

(* ---- the guard is tight: on a witness of each open finding's input class the
   literal model (hence /repo, see the replay of the witnesses) violates the reading *)
Theorem C16_refuted_K_star_no_generate_line : refuted CNew ["-type=*"] w_star k_star_no_generate_line.
Proof. exact refuted_star_no_generate_line. Qed.
Print Assumptions C16_refuted_K_star_no_generate_line.

Theorem C16_refuted_K_star_sep_file : refuted CNew ["-type=*"; "-sep"] w_starsep k_star_sep_file.
Proof. exact refuted_star_sep_file. Qed.
Print Assumptions C16_refuted_K_star_sep_file.

(* the open class K_star_no_generate_line characterised in general (not only on the witness): *)

(* `-type=*` where no //go:generate line ends with the command line: for EVERY
   well-formed package with something eligible, all of it goes to the dot-file
   .shoot<cmd>.go, which is named after no source file; the reading is violated *)
Theorem C16_star_without_generate_line : forall o c fl p, perm_oracle o -> wf_pkgb p = true ->
  fl_specified fl = false -> fl_sep fl = false -> fl_file fl = "" -> all_in_one_file fl p = "" ->
  spec_selection c fl p <> [] ->
  run o c fl p = Done [("." ++ shootcmd c ++ ".go", spec_selection c fl p)] ["." ++ shootcmd c ++ ".go"] /\
  anchored c p ("." ++ shootcmd c ++ ".go") = false /\
  meets c p (run o c fl p) (spec c fl p) = false.
Proof. exact star_without_generate_line. Qed.
Print Assumptions C16_star_without_generate_line.

(* ---- `-file` naming an existing .go file that is not a file of the package
   (x_test.go, a file excluded by a build constraint or starting with `_`, sub/a.go):
   none of its declarations belongs to the package; nothing is generated (exit 0) *)
Theorem C16_other_file_generates_nothing : forall o c fl p,
  perm_oracle o -> wf_pkgb p = true -> fl_specified fl = false ->
  In (fl_file fl) (p_others p) -> ~ In (fl_file fl) (map f_name (p_files p)) -> ends_with ".go" (fl_file fl) = true ->
  run o c fl p = Done [] [] /\ spec c fl p = EFiles [].
Proof. exact other_file_generates_nothing. Qed.
Print Assumptions C16_other_file_generates_nothing.

Theorem C16_cli_other_file : forall o c p F,
  perm_oracle o -> wf_pkgb p = true ->
  In F (p_others p) -> ~ In F (map f_name (p_files p)) -> ends_with ".go" F = true ->
  shoot_cli o c ["-file=" ++ F] p = COut (Done [] []).
Proof. exact cli_other_file. Qed.
Print Assumptions C16_cli_other_file.

(* ---- "the file holding the //go:generate line", declaratively: findCmdLine
   accepts a comment iff one of its lines is "//go:generate" ++ anything ++ the
   command line (a // comment has one line, a block comment several) *)
Theorem C16_find_cmd_line_iff : forall text cmdline,
  find_cmd_line text cmdline = true <->
  exists line mid, In line (lines text) /\ line = "//go:generate" ++ mid ++ cmdline.
Proof. exact find_cmd_line_iff. Qed.
Print Assumptions C16_find_cmd_line_iff.

(* ------------------------------------------------------------ non-vacuity *)

(* a three-file package mixing eligible and ineligible declarations of every kind
   the property lists, with a destination package for `shoot map` *)
Definition ts (n : string) (al : bool) (r : rhs) (i : bool) (tp : list string) : tspec :=
  {| ts_name := n; ts_alias := al; ts_rhs := r; ts_int := i; ts_tparams := tp |}.

Definition ex_pkg : pkg :=
  {| p_files :=
       [ {| f_name := "api.go";
            f_decls := [ DType [ts "Client" false (RIface true) false []];
                         DType [ts "Plain" false (RIface false) false []];
                         DComment "//go:generate shoot new -type=*" ] |};
         {| f_name := "model.go";
            f_decls := [ DType [ts "Order" false RStruct false []; ts "_Hidden" false RStruct false []];
                         DType [ts "userRepo" false RStruct false []];
                         DType [ts "Box" false RStruct false ["Order"]];          (* Box[Order any] *)
                         DType [ts "OrderAlias" true RNamed false []];
                         DType [ts "Color" false RNamed true []];
                         DType [ts "Level" false RNamed true []];                  (* enum without constants *)
                         DType [ts "Name" false RNamed false []];
                         DConst "Color" ["_"; "ColorRed"; "ColorBlue"];
                         DConst "Level" ["_"] ] |};            (* only a blank constant: still an enum without constants *)
         {| f_name := "zz.go";
            f_decls := [ DType [ts "HTTPServer" false RStruct false []];
                         DFunc [ts "Loc" false RStruct false []; ts "Order" false RNamed true []];   (* function-local types *)
                         DConst "Name" ["NameA"] ] |} ];
     p_dest := [ts "Order" false RStruct false []; ts "HTTPServer" false RNamed false []];
     p_others := ["x_test.go"; "sub/a.go"] |}.

Example ex_wf : wf_pkgb ex_pkg = true.
Proof. reflexivity. Qed.

(* -type=HTTPServer,userRepo,Order: hypotheses of C16_cli_type_list hold; the run *)
Example ex_type_list :
  shoot_cli id_oracle CNew ["-type=HTTPServer,userRepo,Order"] ex_pkg =
  COut (Done [("zz.shootnew.httpserver.go", ["HTTPServer"]); ("model.shootnew._userrepo.go", ["userRepo"]);
              ("model.shootnew.order.go", ["Order"])]
             ["zz.shootnew.httpserver.go"; "model.shootnew._userrepo.go"; "model.shootnew.order.go"]).
Proof. reflexivity. Qed.

Example ex_type_list_hyps :
  forallb (nameable CNew ex_pkg) ["HTTPServer"; "userRepo"; "Order"] = true /\
  nodupb (map (fun T => per_type_name CNew (decl_file ex_pkg T) T) ["HTTPServer"; "userRepo"; "Order"]) = true.
Proof. split; reflexivity. Qed.

(* wrong kind / `_`-prefixed / missing / alias names: hypotheses of C16_cli_bad_name hold *)
Example ex_bad_names :
  map (nameable CNew ex_pkg) ["Color"; "_Hidden"; "Nope"; "OrderAlias"; "Client"] = [false; false; false; false; false] /\
  shoot_cli id_oracle CNew ["-type=Order,Color"] ex_pkg = COut (Failed DgNotStruct) /\
  shoot_cli id_oracle CNew ["-type=_Hidden"] ex_pkg = COut (Failed DgNotExists) /\
  shoot_cli id_oracle CRest ["-type=Plain"] ex_pkg = COut (Failed DgRestNotExists) /\
  shoot_cli id_oracle CMap ["-type=HTTPServer"] ex_pkg = COut (Failed DgDestNotExists) /\
  shoot_cli id_oracle CEnum ["-type=Name"] ex_pkg = COut (Failed DgNonIntConst) /\
  shoot_cli id_oracle CEnum ["-type=Color,Level"] ex_pkg = COut (Failed DgEnumNone) /\
  shoot_cli id_oracle CEnum ["-type=Color,Nope"] ex_pkg = COut (Failed DgEnumNone).
Proof. repeat split; reflexivity. Qed.

(* -file=model.go for the four subcommands (hypotheses of C16_cli_file hold: no local types) *)
Example ex_file_mode :
  shoot_cli id_oracle CNew ["-file=model.go"] ex_pkg =
    COut (Done [("model.shootnew.go", ["Order"; "userRepo"; "Box"])] ["model.shootnew.go"]) /\
  shoot_cli id_oracle CEnum ["-file=model.go"] ex_pkg =
    COut (Done [("model.shootenum.go", ["Color"])] ["model.shootenum.go"]) /\
  shoot_cli id_oracle CMap ["-file=model.go"] ex_pkg =
    COut (Done [("model.shootmap.go", ["Order"])] ["model.shootmap.go"]) /\
  shoot_cli id_oracle CRest ["-file=model.go"] ex_pkg = COut (Done [] []) /\
  shoot_cli id_oracle CRest ["-file=api.go"] ex_pkg =
    COut (Done [("api.shootrest.go", ["Client"])] ["api.shootrest.go"]).
Proof. repeat split; reflexivity. Qed.

(* -type=* with the //go:generate line in api.go (hypotheses of C16_cli_star hold) *)
Example ex_star_mode :
  find (file_has_cmdline ("shoot " ++ sub_name CNew ++ " -type=*")) (p_files ex_pkg) = Some (nth 0 (p_files ex_pkg) {| f_name := ""; f_decls := [] |}) /\
  shoot_cli id_oracle CNew ["-type=*"] ex_pkg =
    COut (Done [("api.shootnew.go", ["Order"; "userRepo"; "Box"; "HTTPServer"])] ["api.shootnew.go"]).
Proof. split; reflexivity. Qed.

(* the guard of the main theorem is met by these command lines *)
Example ex_guard :
  forall c args, In (c, args) [(CNew, ["-type=HTTPServer,userRepo,Order"]); (CNew, ["-type=Order,Color"]);
                               (CNew, ["-file=model.go"]); (CEnum, ["-file=model.go"; "-sep"]); (CMap, ["-file=model.go"]);
                               (CRest, ["-file=api.go"]); (CNew, ["-type=*"]); (CEnum, ["-type=Color"])] ->
  exists fl vals, parse_common c args = POk fl vals /\ flags_okb fl = true /\ known_class c fl ex_pkg = false.
Proof.
  intros c args H. simpl in H.
  repeat (destruct H as [H|H]; [inversion H; subst; do 2 eexists; split; [reflexivity|]; split; reflexivity|]).
  contradiction.
Qed.

(* the type parameter Order of Box[Order any] does not disturb the file lookup, in any iteration order *)
Example ex_get_go_file : forall o, perm_oracle o -> get_go_file o ex_pkg "Order" = "model.go".
Proof. intros o Ho. rewrite (get_go_file_decl o ex_pkg "Order" Ho ex_wf). reflexivity. Qed.

(* -file on files that exist but are not files of the package; a block comment holding the generate line *)
Example ex_other_files :
  shoot_cli id_oracle CNew ["-file=x_test.go"] ex_pkg = COut (Done [] []) /\
  shoot_cli id_oracle CNew ["-file=sub/a.go"; "-sep"] ex_pkg = COut (Done [] []) /\
  shoot_cli id_oracle CNew ["-file=nofile.go"] ex_pkg = COut (Failed DgFileNotExists) /\
  find_cmd_line "/*
notes
//go:generate shoot new -type=*
*/" "shoot new -type=*" = true /\
  find_cmd_line "/*
//go:generate shoot new -type=* */" "shoot new -type=*" = false /\
  shoot_cli id_oracle CMap ["-type=Order"; "-to=Other"] ex_pkg = CNotModelled.
Proof. repeat split; reflexivity. Qed.

(* the output names as the property words them *)
Example ex_names :
  per_type_name CNew "src.go" "HTTPServer" = "src.shootnew.httpserver.go" /\
  per_type_name CMap "src.go" "userRepo" = "src.shootmap._userrepo.go" /\
  per_type_name CEnum "x.y.go" "Color" = "x.y.shootenum.color.go" /\
  all_in_one_name CRest "src.go" = "src.shootrest.go".
Proof. repeat split; reflexivity. Qed.
