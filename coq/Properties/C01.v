(* C01: every successful run yields Go that compiles with its package.

   What is PROVED here is the name-level part of "compiles" that shoot's own
   naming decisions control, for the abstract generated files of Model/GoWf.v
   (read off the four templates): the header has the required form, the package
   clause is the input package's, no name is declared twice (hand-written
   declarations and earlier outputs included), no generated method collides with
   a field of its receiver, every name the generated file uses is declared.
   Go's type checker proper (assignability of the generated expressions) and
   gofmt-cleanliness are NOT modelled: they are only observed by the
   correspondence run (gofmt -l and go build of every generated package), which
   is why this property is labelled partial.

   The theorems are about TEMPLATE-DATA RECORDS (what the analysis hands to the template): that their
   hypotheses follow from the input package is not proved here (no theorem composes a generator model with a
   skeleton); C01_files_compose assumes the disjointness of the files' declarations, which is not proved for
   two types in general (and is false for type names with one camelCaseGO form, or -short options).

   Domains: all template data records (any type name, any field/constant/method
   name lists, every flag combination), any hand-written declaration list, any
   command line, any version string.  Each theorem is closed by [exact] of a
   lemma of Proofs/GoWfProofs.v and followed by Print Assumptions. *)
From Coq Require Import String List Bool.
From Shoot Require Import Base.Str Model.Transfer Model.GoWf Proofs.GoWfProofs.
Import ListNotations.
Local Open Scope string_scope.

(* the header of every generated file has the form the property requires,
   whatever the arguments and the version *)
Theorem C01_header : forall args ver, header_ok (header (cmdline args) ver) = true.
Proof. exact header_ok_cmdline. Qed.
Print Assumptions C01_header.

(* what wf means (so that the theorems below can be read without the model) *)
Theorem C01_wf_meaning : forall pkg hand fields files,
  wf pkg hand fields files = true <->
  (forall f, In f files -> header_ok (gf_header f) = true /\ gf_pkg f = pkg) /\
  NoDup (hand ++ all_defs files) /\
  (forall u, In u (all_uses files) -> In u (hand ++ all_defs files)) /\
  (forall k, In k (all_defs files) -> field_clash fields k = false).
Proof. exact wf_iff. Qed.
Print Assumptions C01_wf_meaning.

(* ---- enum: for EVERY type name, constant list and flag combination the file
   declares no name twice and uses only the type and its constants; with the
   repaired -bit template it is well-formed in every package that declares the
   type and the constants and none of the generated names *)
Theorem C01_enum_no_duplicate_declarations : forall d, NoDup (enum_defs d).
Proof. exact enum_defs_NoDup. Qed.
Print Assumptions C01_enum_no_duplicate_declarations.

Theorem C01_enum_wf : forall pkg args ver hand fields d,
  enum_hand_ok hand d ->
  (forall f, ~ In (ed_type d, f) fields) ->
  wf pkg hand fields [enum_file true pkg (cmdline args) ver d] = true.
Proof. exact enum_wf. Qed.
Print Assumptions C01_enum_wf.

(* the template as committed (open finding K_bit_map, golden-locked): with -bit
   NO package is well-formed with the generated file *)
Theorem C01_refuted_K_bit_map : forall pkg cmd ver hand fields d,
  ed_bit d = true ->
  ~ In (KTop (enum_var d "_map")) hand ->
  wf pkg hand fields [enum_file false pkg cmd ver d] = false.
Proof. exact enum_bit_refuted. Qed.
Print Assumptions C01_refuted_K_bit_map.

(* ---- rest *)
Theorem C01_rest_wf : forall pkg args ver hand fields d,
  rest_hand_ok hand d ->
  NoDup (rd_methods d) ->
  ~ In "ConfigHTTPClient" (rd_methods d) -> ~ In "ShootRest" (rd_methods d) ->
  ~ In "conf" (rd_methods d) -> ~ In "client" (rd_methods d) ->
  (forall f, In (rest_struct d, f) fields -> False) ->
  wf pkg hand fields [rest_file pkg (cmdline args) ver d] = true.
Proof. exact rest_wf. Qed.
Print Assumptions C01_rest_wf.

(* open finding K_rest_unexported_iface: an interface whose name is its own
   camelCaseGO form collides with the struct generated for it *)
Theorem C01_refuted_K_rest_unexported_iface : forall pkg cmd ver hand fields d,
  In (KTop (rd_type d)) hand ->
  rest_struct d = rd_type d ->
  wf pkg hand fields [rest_file pkg cmd ver d] = false.
Proof. exact rest_self_collision. Qed.
Print Assumptions C01_refuted_K_rest_unexported_iface.

(* ---- map *)
Theorem C01_map_wf : forall pkg args ver hand fields d,
  map_hand_ok hand d ->
  (forall n, In n (map_meths d) -> ~ In (md_type d, n) fields) ->
  wf pkg hand fields [map_file pkg (cmdline args) ver d] = true.
Proof. exact map_wf. Qed.
Print Assumptions C01_map_wf.

(* ---- new: for every flag combination; [new_names_ok] is the decidable
   condition "the option/accessor names derived from the fields are pairwise
   different and different from the fixed method names" *)
Theorem C01_new_wf : forall pkg args ver hand fields d,
  new_hand_ok hand d ->
  new_names_ok d = true ->
  (forall n, In n (new_meths d) -> ~ In (nd_type d, n) fields) ->
  wf pkg hand fields [new_file pkg (cmdline args) ver d] = true.
Proof. exact new_wf. Qed.
Print Assumptions C01_new_wf.

(* open finding K_opt_short_collision: -opt -short names the option functions
   after the fields only, so two types sharing a field name never compile together *)
Theorem C01_refuted_K_opt_short_collision : forall pkg cmd1 cmd2 ver hand fields d1 d2 f,
  nd_opt d1 = true -> nd_short d1 = true -> nd_opt d2 = true -> nd_short d2 = true ->
  In f (nd_all d1) -> In f (nd_all d2) ->
  wf pkg hand fields [new_file pkg cmd1 ver d1; new_file pkg cmd2 ver d2] = false.
Proof. exact short_options_collide. Qed.
Print Assumptions C01_refuted_K_opt_short_collision.

(* ---- several types in one run (-type=A,B / -file / -type=*, separate files or
   one merged file: the declarations are the same): files that are each fine
   with the package and declare pairwise different names are fine together *)
Theorem C01_files_compose : forall pkg hand fields f files,
  wf pkg hand fields [f] = true ->
  wf pkg hand fields files = true ->
  (forall k, In k (gf_defs f) -> ~ In k (all_defs files)) ->
  wf pkg hand fields (f :: files) = true.
Proof. exact wf_cons. Qed.
Print Assumptions C01_files_compose.

(* ---- non-vacuity: concrete packages meeting the hypotheses *)
Example C01_example_enum :
  let d := {| ed_type := "Color"; ed_names := ["ColorRed"; "ColorBlue"]; ed_bit := false;
              ed_json := true; ed_text := false; ed_sql := true; ed_gorm := false |} in
  let hand := [KTop "Color"; KTop "ColorRed"; KTop "ColorBlue"; KTop "helper"; KMeth "Color" "Next"] in
  wf "palette" hand [("Point", "x")] [enum_file true "palette" (cmdline ["enum"; "-json"; "-sql"; "-type=Color"]) "v0.1.0" d] = true
  /\ wf "palette" (KTop "_color_values" :: hand) [] [enum_file true "palette" (cmdline ["enum"]) "v" d] = false.
Proof. split; vm_compute; reflexivity. Qed.

Example C01_example_new :
  let d := {| nd_type := "User"; nd_all := ["id"; "name"]; nd_defaults := ["name"]; nd_getters := ["id"; "name"];
              nd_setters := ["name"]; nd_get_ifaces := ["BaseGetter"]; nd_set_ifaces := [];
              nd_getset := true; nd_opt := true; nd_short := false; nd_json := true |} in
  let hand := [KTop "User"; KTop "Base"; KTop "BaseGetter"; KTop "NewBase"] in
  new_names_ok d = true /\
  wf "m" hand [("User", "id"); ("User", "name")] [new_file "m" (cmdline ["new"; "-getset"; "-opt"; "-json"; "-type=User"]) "v" d] = true
  /\ (* a field Name next to name: the getter collides with it *)
  wf "m" hand [("User", "name"); ("User", "Name")] [new_file "m" (cmdline ["new"]) "v" d] = false.
Proof. repeat split; vm_compute; reflexivity. Qed.

Example C01_example_rest_map :
  wf "api" [KTop "Client"; KTop "User"] [] [rest_file "api" (cmdline ["rest"; "-type=Client"]) "v"
        {| rd_type := "Client"; rd_methods := ["GetUser"; "QueryUsers"] |}] = true
  /\ wf "api" [KTop "client"; KTop "User"] [] [rest_file "api" (cmdline ["rest"; "-type=client"]) "v"
        {| rd_type := "client"; rd_methods := ["GetUser"] |}] = false
  /\ wf "src" [KTop "Order"] [("Order", "ID")] [map_file "src" (cmdline ["map"; "-path=../dest"; "-type=Order"]) "v"
        {| md_type := "Order"; md_destpkg := "dest"; md_to := true; md_from := true |}] = true.
Proof. repeat split; vm_compute; reflexivity. Qed.
