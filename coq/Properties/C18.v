(* C18: failures are clean - diagnostic and exit code, no panic, no file changes.

   The theorems are about Model/Fail.v: one run of shoot as the pipeline
     parse_flags -> load_package -> generate   (read only: [analyse])
     -> write_all (notedownSrc per output, in the order sigma of Go's map iteration)
     -> clean
   with an effect log and the directory state in [world].  io is the fault
   oracle of the fallible system calls (io k = the k-th one succeeds).
   Each theorem is closed by [exact] of a lemma of Proofs/FailProofs.v. *)
From Coq Require Import List String Bool Arith.
From Shoot Require Import Model.Fail Proofs.FailProofs.
Import ListNotations.
Local Open Scope string_scope.

(* STRUCTURAL (holds by the shape of the model, not a result about the code): [analyse] takes no
   world argument, so a stop in parse_flags / load_package / generate leaves the directory and the
   effect log as they were by construction.  That LoadPackage (`go list`) and Generate write
   nothing into the package directory is an ASSUMPTION of the model; it is tied to the binary only
   by the recursive directory hash of the correspondence run. *)
Theorem C18_structural_stop_before_write_changes_nothing : forall sigma io i s,
  analyse i = Stop s -> run sigma io i = (s, world0 i).
Proof. exact run_analyse_stop. Qed.
Print Assumptions C18_structural_stop_before_write_changes_nothing.

(* The sentence "when it exits non-zero it has not created, modified or deleted any file" for the
   write and cleanup phases: if no system call fails, sigma delivers names of the map it iterates,
   and no directory entry is an obstacle - [state_ok]: no directory sits at the name of an output
   and, when the all-in-one cleanup runs, every entry matching *.shoot<cmd>*.go is a regular file
   (decided from the result of the read-only phases) - then a run that does not end with exit
   status 0 has changed nothing.  The guard is exactly what the open findings
   K_rename_fail_after_write and K_clean_unreadable_after_write violate (refutations below). *)
Theorem C18_nonzero_exit_changes_nothing : forall sigma io i s w,
  all_ok io -> selects sigma -> state_ok i = true ->
  run sigma io i = (s, w) ->
  (forall d, s = Exit d -> exit_code d <> 0) ->
  w = world0 i.
Proof. exact nonzero_exit_changes_nothing. Qed.
Print Assumptions C18_nonzero_exit_changes_nothing.

(* Under the same hypotheses the run ends with "go generate successfully",
   with "nothing generated", or it stopped in the read-only phases. *)
Theorem C18_run_cases : forall sigma io i,
  all_ok io -> selects sigma -> state_ok i = true ->
  (exists w, run sigma io i = (Exit DSuccess, w)) \/ (exists w, run sigma io i = (Exit DNothing, w)) \/
  (exists s, analyse i = Stop s /\ run sigma io i = (s, world0 i)).
Proof. exact run_cases. Qed.
Print Assumptions C18_run_cases.

(* a directory that holds regular files only satisfies the guard *)
Theorem C18_regular_files_are_no_obstacle : forall i, files_only (i_extra i) = true -> state_ok i = true.
Proof. exact files_only_state_ok. Qed.
Print Assumptions C18_regular_files_are_no_obstacle.

(* Classification: on every input whose embedding relation is well founded (through the package,
   the destination packages and the imported packages whose types are embedded) a run ends in a
   deliberate exit, for every command line, directory state, map order and fault oracle:
   - no unbounded recursion (the guard is the one of the open findings K_ctor_self_embed and
     K_map_self_embed, incl. their generic and imported forms);
   - none of the index expressions and pointer dereferences of the TRANSCRIBED functions (the
     constructors of [psite]: TestFile, testNode, the rest result list, parseManual, firstName,
     the body walks, parseCtors, parseGetSetMethods) is reached outside its guard.
   Panics inside library code (go/types, packages.Load, text/template, gofmt) and in the parts of
   the generators that are not transcribed (field matching of the mapper, the templates' data)
   are NOT covered by this theorem: their absence is sampled by the correspondence run only. *)
Theorem C18_always_a_deliberate_exit : forall sigma io i,
  input_wf i -> is_exit (fst (run sigma io i)).
Proof. exact run_is_exit. Qed.
Print Assumptions C18_always_a_deliberate_exit.

(* The same with a decidable guard: "declared before use" (every embedded field
   and every `type A B` refers to an earlier type spec or to an undeclared name)
   for the package and for every destination package.  The correspondence check evaluates input_ok on every
   sampled case and reports how many lie inside this domain. *)
Theorem C18_always_a_deliberate_exit_decidable : forall sigma io i,
  input_ok i = true -> is_exit (fst (run sigma io i)).
Proof. exact run_is_exit_ok. Qed.
Print Assumptions C18_always_a_deliberate_exit_decidable.

Theorem C18_declared_before_use_is_well_founded : forall fo tops,
  ordered tops = true -> foreign_ok fo = true -> embedding_wf fo tops.
Proof. exact ordered_wf. Qed.
Print Assumptions C18_declared_before_use_is_well_founded.

(* TRIVIAL (a case split on the definition of exit_code, kept as a lemma): a deliberate exit has
   status 0, 1 or 2.  "Terminates with exit code 0, 1 or 2" is carried by
   C18_always_a_deliberate_exit, not by this. *)
Theorem C18_exit_status_at_most_2 : forall d, exit_code d <= 2.
Proof. exact exit_code_le_2. Qed.
Print Assumptions C18_exit_status_at_most_2.

(* Exit status 2 is produced by the command line only: if a run ends with a
   deliberate exit of status 2, parse_flags produced it (hence it does not depend
   on the package at all).  No guard. *)
Theorem C18_exit_2_is_a_command_line_error : forall sigma io i d w,
  run sigma io i = (Exit d, w) -> exit_code d = 2 -> parse_flags i = Stop (Exit d).
Proof. exact exit2_from_flags. Qed.
Print Assumptions C18_exit_2_is_a_command_line_error.

(* What I/O faults can do: whatever fails during the write phase, the outputs
   already replaced are a prefix of the outputs in map order; all of them iff the
   phase succeeded.  (A fault while writing the k-th file leaves k-1 files
   replaced: this is outside the property's quantifier and stated for honesty.) *)
Theorem C18_partial_write_is_a_prefix : forall io fl outs w r w',
  write_all io fl outs w = (r, w') ->
  exists k, renames (w_log w') = (renames (w_log w) ++ firstn k outs)%list /\
            (r = Ok tt -> k = List.length outs) /\ ((exists s, r = Stop s) -> k < List.length outs).
Proof. exact write_all_prefix. Qed.
Print Assumptions C18_partial_write_is_a_prefix.

(* ---- refutations: the open findings, on the defect-reproducing model ---- *)

(* K_ctor_self_embed: `type Node struct{ *Node; v int }` exhausts every fuel *)
Theorem C18_refuted_K_ctor_self_embed :
  (forall fuel, expand LNewEmbed fuel [] node_tops (TStar (TId "Node")) = Stop (Diverge LNewEmbed)) /\
  fst (run id_order no_fault w_self_embed) = Diverge LNewEmbed /\ ~ embedding_wf [] node_tops.
Proof. exact (conj self_embed_diverges (conj self_embed_run self_embed_not_wf)). Qed.
Print Assumptions C18_refuted_K_ctor_self_embed.

(* the same class through an instantiated generic type (`type Node[T any] struct{ *Node[T]; v T }`)
   and through an imported package (`struct{ ext.Loop; id int }` with ext.Loop embedding *Loop):
   the model diverges and the decidable guard rejects both inputs *)
Theorem C18_refuted_K_ctor_self_embed_generic_and_imported :
  fst (run id_order no_fault w_generic_self) = Diverge LNewEmbed /\
  fst (run id_order no_fault w_foreign_loop) = Diverge LNewEmbed /\
  input_ok w_generic_self = false /\ input_ok w_foreign_loop = false.
Proof. exact generic_and_foreign_self_embed_diverge. Qed.
Print Assumptions C18_refuted_K_ctor_self_embed_generic_and_imported.

(* The panics K_map_unnamed_names, K_map_nil_body, K_map_accessor_arity and
   K_testfile_no_package_clause were repaired in /repo (b905249, 1e0ce7d, 1762519, 29dcb84): the
   model has no panic site left (psite is empty) and their former witnesses succeed. *)
Theorem C18_repaired_witnesses_succeed :
  fst (run id_order no_fault w_map_unnamed) = Exit DSuccess /\
  fst (run id_order no_fault w_map_nil_body) = Exit DSuccess /\
  fst (run id_order no_fault w_map_setter) = Exit DSuccess /\
  fst (run id_order no_fault w_no_clause) = Exit DSuccess.
Proof. exact repaired_witnesses_succeed. Qed.
Print Assumptions C18_repaired_witnesses_succeed.

(* exit status 1 AFTER the output was written *)
Theorem C18_refuted_K_clean_unreadable_after_write :
  fst (run id_order no_fault w_clean_dir) = Exit DCleanError /\
  w_log (snd (run id_order no_fault w_clean_dir)) =
    [FCreateTemp "a.shootnew.go"; FWriteTemp "a.shootnew.go"; FRename "a.shootnew.go"].
Proof. rewrite clean_dir_exit1_after_write. split; reflexivity. Qed.
Print Assumptions C18_refuted_K_clean_unreadable_after_write.

Theorem C18_refuted_K_rename_fail_after_write :
  fst (run id_order no_fault w_rename_dir) = Exit DRename /\
  w_log (snd (run id_order no_fault w_rename_dir)) =
    [FCreateTemp "a.shootnew.a.go"; FWriteTemp "a.shootnew.a.go"; FRename "a.shootnew.a.go";
     FCreateTemp "a.shootnew.b.go"; FWriteTemp "a.shootnew.b.go"] /\
  assoc ".a.shootnew.b.go_tmp" (w_dir (snd (run id_order no_fault w_rename_dir))) <> None.
Proof. exact rename_dir_exit1_after_write. Qed.
Print Assumptions C18_refuted_K_rename_fail_after_write.

(* ---- the hypotheses are satisfiable by non-trivial inputs ---- *)

(* a package with embedding of depth 2 through a pointer *)
Example C18_example_input_wf : forall args, input_wf (ex_input args).
Proof. exact ex_input_wf. Qed.
Example C18_example_input_ok : forall args, input_ok (ex_input args) = true.
Proof. exact ex_input_ok. Qed.
Example C18_example_outcomes :
  fst (run id_order no_fault (ex_input ["new"; "-type=Top,Mid"; "-getset"])) = Exit DSuccess /\
  fst (run id_order no_fault (ex_input ["new"; "-type=Top,Nope"])) = Exit DNewNotExists /\
  fst (run id_order no_fault (ex_input ["new"; "-type=Top"; "-tagcase=weird"])) = Exit DFlagError.
Proof. exact ex_runs. Qed.
Example C18_example_state_ok : state_ok (ex_input ["new"; "-type=Top,Mid"]) = true /\ all_ok no_fault /\ selects id_order.
Proof. split; [reflexivity|split; [intros k; reflexivity|exact selects_id]]. Qed.
