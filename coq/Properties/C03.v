(* C03  shoot new -getset: accessors exist exactly as directed and round-trip.

   The model (Model/CtorGetSet.v, on top of Model/Ctor.v) is the literal parseGetSet /
   parseGetterSetter / makeGetSet / FindGetterSetterIfac / AssignableToIface of /repo, the accessor
   part of the template, the package view threaded through the types of one run (overlay reload),
   Go's method sets (interfaces: explicit + embedded; *T: selector rule over fields and methods) and
   the meaning of the emitted accessors on Base/GoVal values.  The statements quantify over ALL
   packages of struct declarations of the grammar (any number of structs/fields, any embedding depth
   below the fuel, arbitrary doc-comment and tag text), all package views, all flag records, all values.

   Guard [c03_guard] (decidable): [c02_guard] of C02 plus the input classes of the open findings
   K_getset_excluded_field (a `_`-prefixed / new:"-" field gets no accessors) and K_getset_once_shadow
   (a field whose name occurs EARLIER in depth-first declaration order -- below an embedded field declared
   before it -- is skipped; a field that shadows a promoted one declared after it is inside the guard),
   each refuted by a witness below.  This file contains only statements closed by [exact]. *)
From Coq Require Import String Ascii List Bool Arith ZArith.
From Shoot Require Import Base.Str Base.GoVal Model.Transfer Model.CtorDirective Model.Ctor Model.CtorSpec Model.CtorGetSet.
From Shoot Require Import Proofs.GoValProofs Proofs.CtorFlattenProofs Proofs.CtorC02Proofs Proofs.CtorGetSetProofs Proofs.CtorGetSetSemProofs
                          Proofs.CtorGetSetIfaceProofs.
Import ListNotations.
Local Open Scope string_scope.

(* The accessor lists the analysis hands to the template ARE the declarative table of the property
   text: for every field declared in the struct itself, in declaration order, a getter iff the field
   is unexported and (its directive says get, or says neither/both) and the type-level directive
   allows getters; likewise setters; nothing for exported fields; nothing without -getset.  The
   package view (earlier output) has no influence on them. *)
Theorem C03_accessor_table : forall pkg v fl fuel sd fields d nd,
  getset_of pkg v fl fuel sd = COk (fields, d, nd) ->
  c03_guard pkg fl fuel sd = true ->
  gs_getters d = spec_accessors fl sd true /\ gs_setters d = spec_accessors fl sd false.
Proof. exact accessor_table. Qed.
Print Assumptions C03_accessor_table.

(* The methods the template declares on *T: exactly one per table entry, named by Pascal-casing the
   field name (getter) and "Set" + that (setter), typed like the field. *)
Theorem C03_emitted_accessors : forall pkg v fl fuel sd fields d nd,
  getset_of pkg v fl fuel sd = COk (fields, d, nd) ->
  c03_guard pkg fl fuel sd = true ->
  emitted_accessors fl nd d =
  if fl_getset fl then (map (acc_row true) (spec_accessors fl sd true) ++ map (acc_row false) (spec_accessors fl sd false))%list
  else [].
Proof. exact emitted_accessors_table. Qed.
Print Assumptions C03_emitted_accessors.

(* An exported field with a get/set directive: the run is refused (nothing is generated), and that is
   the only reason for a refusal. *)
Theorem C03_exported_directive_is_fatal : forall pkg fl fuel sd,
  fl_getset fl = true -> depth_bounded pkg fuel sd = true -> no_excluded_fields sd = true ->
  ((exists m, flatten pkg fl fuel sd = CFatal m) <-> directive_on_exported sd = true).
Proof. exact exported_directive_fatal. Qed.
Print Assumptions C03_exported_directive_is_fatal.

Theorem C03_no_getset_no_accessors : forall fl sd getter, fl_getset fl = false -> spec_accessors fl sd getter = [].
Proof. exact no_getset_no_accessors. Qed.
Print Assumptions C03_no_getset_no_accessors.

(* Two leaf fields of a struct (at any embedding depth) are the same field or their paths do not overlap. *)
Theorem C03_leaf_paths_apart : forall pkg fuel sd,
  c02_guard pkg fuel sd = true ->
  forall p q, In p (leaf_paths pkg fuel (self_inst sd) []) -> In q (leaf_paths pkg fuel (self_inst sd) []) ->
  p = q \/ diverge p q = true.
Proof. exact leaf_paths_apart. Qed.
Print Assumptions C03_leaf_paths_apart.

(* get_f (set_g v x) = if f = g then x else get_f v -- for ALL values v and x, for any two accessors of
   *T's method set (own or promoted from an embedded struct), selected by Go's rule. *)
Theorem C03_get_after_set : forall pkg v fuel sd x ms mg w x' ps pg,
  c02_guard pkg fuel sd = true ->
  find_method pkg v fuel (self_inst sd) ms = Some ps -> gm_kind (snd ps) = MSet ->
  find_method pkg v fuel (self_inst sd) mg = Some pg -> gm_kind (snd pg) = MGet ->
  In (accessor_path ps) (leaf_paths pkg fuel (self_inst sd) []) ->
  In (accessor_path pg) (leaf_paths pkg fuel (self_inst sd) []) ->
  call_set pkg v fuel sd x ms w = Ok x' ->
  call_get pkg v fuel sd x' mg =
  if path_eqb (accessor_path pg) (accessor_path ps) then Ok w else call_get pkg v fuel sd x mg.
Proof. exact get_after_set. Qed.
Print Assumptions C03_get_after_set.

(* A setter changes its field and nothing else. *)
Theorem C03_setter_frame : forall pkg v fuel sd x ms w x' ps r,
  c02_guard pkg fuel sd = true ->
  find_method pkg v fuel (self_inst sd) ms = Some ps -> gm_kind (snd ps) = MSet ->
  In (accessor_path ps) (leaf_paths pkg fuel (self_inst sd) []) ->
  In r (leaf_paths pkg fuel (self_inst sd) []) ->
  call_set pkg v fuel sd x ms w = Ok x' ->
  lookup x' (accessor_path ps) = Ok w /\ (r <> accessor_path ps -> lookup x' r = lookup x r).
Proof. exact setter_frame. Qed.
Print Assumptions C03_setter_frame.

(* A setter call succeeds exactly when its field can be read in the receiver (it panics only on a nil
   embedded pointer on the way to a promoted accessor's struct). *)
Theorem C03_setter_succeeds : forall pkg v fuel sd x ms w ps,
  find_method pkg v fuel (self_inst sd) ms = Some ps -> gm_kind (snd ps) = MSet ->
  ((exists x', call_set pkg v fuel sd x ms w = Ok x') <-> (exists y, lookup x (accessor_path ps) = Ok y)).
Proof. exact setter_succeeds. Qed.
Print Assumptions C03_setter_succeeds.

(* <T>Getter / <T>Setter embed <E>Getter[args] / <E>Setter[args] only for an embedded struct E[args] of T
   whose interface is declared in the package view the type is analysed in, has as many type parameters
   as E has arguments, and is implemented by *E there. *)
Theorem C03_embedded_interfaces : forall pkg v fl fuel sd fields d nd,
  getset_of pkg v fl fuel sd = COk (fields, d, nd) ->
  (forall ia, In ia (gs_get_ifaces d) -> admitted pkg v fuel fields true ia) /\
  (forall ia, In ia (gs_set_ifaces d) -> admitted pkg v fuel fields false ia).
Proof. exact embedded_interfaces. Qed.
Print Assumptions C03_embedded_interfaces.

(* ... and conversely: every embedded struct entry of the flattened list that is the first entry of its name, whose
   interface is declared in the view with matching arity and implemented by the pointer to the struct, IS embedded
   (when T's type-level directive admits getters / setters).  Together: <T>Getter embeds exactly those. *)
Theorem C03_embedded_interfaces_complete : forall pkg v fl fuel sd fields d nd (getter : bool) l1 f l2 ve args,
  getset_of pkg v fl fuel sd = COk (fields, d, nd) ->
  fields = (l1 ++ f :: l2)%list -> f_embedded f = true -> ~ In (f_name f) (map f_name l1) ->
  (if getter then fst (type_switch fl sd) else snd (type_switch fl sd)) = true ->
  find_iface v (f_name f) getter = Some ve ->
  assignable_to_iface pkg v fuel (f_ty f) ve getter = Some (args, true) ->
  In (f_name f, args) (if getter then gs_get_ifaces d else gs_set_ifaces d).
Proof. exact embedded_interfaces_complete. Qed.
Print Assumptions C03_embedded_interfaces_complete.

(* Unfolding lemma (this is Go's definition of an interface's method set, applied to the declaration shoot emits):
   explicit methods = the accessor table, embedded part = the admitted interfaces, one level of nesting less. *)
Theorem C03_interface_method_set : forall pkg v fl fuel sd fields d nd getter k,
  getset_of pkg v fl fuel sd = COk (fields, d, nd) ->
  c03_guard pkg fl fuel sd = true ->
  let v' := view_put v (ventry_of sd nd d) in
  let tps := ve_tparams (ventry_of sd nd d) in
  iface_methods v' (S k) getter (sd_name sd) (map TParam tps) =
  if iface_declared getter d then
    (flat_map (fun ia : ident * list ty => iface_methods v' k getter (fst ia) (snd ia))
              (if getter then gs_get_ifaces d else gs_set_ifaces d)
     ++ map (own_method getter) (spec_accessors fl sd getter))%list
  else [].
Proof. exact interface_method_set. Qed.
Print Assumptions C03_interface_method_set.

(* The complete method set does not depend on the fuel once the fuel covers the nesting of the embedded interfaces
   (iface_ok is FALSE when the fuel runs out): the set used below is the whole set, not a truncation. *)
Theorem C03_interface_method_set_stable : forall pkg v fl fuel sd fields d nd (getter : bool) k1 k2,
  getset_of pkg v fl fuel sd = COk (fields, d, nd) ->
  c03_guard pkg fl fuel sd = true ->
  (forall ia : ident * list ty, In ia (if getter then gs_get_ifaces d else gs_set_ifaces d) ->
     iface_ok v fuel getter (sd_name sd) (fst ia) = true) ->
  S fuel <= k1 -> S fuel <= k2 ->
  let v' := view_put v (ventry_of sd nd d) in
  let tps := ve_tparams (ventry_of sd nd d) in
  iface_methods v' k1 getter (sd_name sd) (map TParam tps) = iface_methods v' k2 getter (sd_name sd) (map TParam tps).
Proof. exact interface_method_set_stable. Qed.
Print Assumptions C03_interface_method_set_stable.

(* The body of an emitted accessor is `this.<f>` inside a method of the declaring struct: Go's selector rule resolves
   the name of a table field, inside the declaring struct, to that struct's own field (depth 0), whatever it embeds.
   (The model's accessor semantics reads / assigns exactly that field; the wiring name -> field of the template text
   itself is tied by the executed stream.) *)
Theorem C03_accessor_body_selects_own_field : forall pkg fl fuel sd getter a k,
  wf_structs pkg fuel sd = true -> In a (spec_accessors fl sd getter) ->
  resolve pkg (S k) sd (af_name a) = Some [af_name a].
Proof. exact accessor_body_selects_own_field. Qed.
Print Assumptions C03_accessor_body_selects_own_field.

(* *T satisfies the explicit part: every accessor of the table is selected on *T by its name (it is
   declared on T itself, no field hides it, no other accessor has its name), with the table's signature. *)
Theorem C03_own_accessors_in_method_set : forall pkg v fl fuel sd fields d nd getter a,
  getset_of pkg v fl fuel sd = COk (fields, d, nd) ->
  c03_guard pkg fl fuel sd = true -> sd_pkg sd = "" -> own_accessor_names_ok fl sd = true ->
  In a (spec_accessors fl sd getter) ->
  find_method pkg (view_put v (ventry_of sd nd d)) (S fuel) (self_inst sd) (gm_name (own_method getter a)) =
  Some ([], own_method getter a).
Proof. exact own_accessors_selected. Qed.
Print Assumptions C03_own_accessors_in_method_set.

(* Accessor names that are unique among ALL member names of the embedding closure (fields, embedded fields,
   accessors) are all visible on *T: Go's selection finds each accessor by its name at the depth of its declaring
   struct, nothing shallower hides it, nothing at the same depth clashes. *)
Theorem C03_unique_names_visible : forall pkg v fuel sd,
  depth_bounded pkg fuel sd = true ->
  accessor_names_unique pkg v fuel sd = true -> accessors_visible pkg v fuel sd = true.
Proof. exact unique_names_visible. Qed.
Print Assumptions C03_unique_names_visible.

(* *T satisfies <T>Getter and <T>Setter: every method of the COMPLETE method set of the interface shoot declares
   for T (explicit accessors and everything the embedded interfaces bring, transitively; at every fuel >= S fuel) is
   in the method set of *T with the same signature -- in the package as it is once T's file is loaded.
   All guards are conditions on the INPUT (struct graph, directive tables, package view):
   accessor names unique among the member names of T's closure, taken over the view extended by T's DIRECTIVE TABLE
   (spec_entry, not the model's output; finding K_getset_field_hides_accessor, refuted below); acyclic embedding; the
   interfaces of the embedded structs have bounded nesting and do not lead back to T's own. *)
Theorem C03_pointer_receiver_satisfies : forall pkg v fl fuel sd fields d nd getter k,
  getset_of pkg v fl fuel sd = COk (fields, d, nd) ->
  c03_guard pkg fl fuel sd = true -> sd_pkg sd = "" ->
  accessor_names_unique pkg (view_put v (spec_entry fl sd)) fuel sd = true ->
  not_self_embedded pkg fuel sd = true -> view_ok pkg v fuel sd = true ->
  S fuel <= k ->
  let v' := view_put v (ventry_of sd nd d) in
  implements pkg v' (S fuel) (self_inst sd)
             (iface_methods v' k getter (sd_name sd) (map TParam (ve_tparams (ventry_of sd nd d)))) = true.
Proof. exact pointer_receiver_satisfies. Qed.
Print Assumptions C03_pointer_receiver_satisfies.

(* ------------------------------------------------------------------ examples *)
Definition fd1 (n : ident) (t : ty) (doc : string) : fdecl := {| fd_names := [n]; fd_ty := t; fd_doc := doc; fd_tag := None |}.
Definition emb (t : ty) : fdecl := {| fd_names := []; fd_ty := t; fd_doc := ""; fd_tag := None |}.
Definition nl : string := String (ascii_of_nat 10) EmptyString.

Definition ex_base : sdecl :=
  {| sd_pkg := ""; sd_name := "Base"; sd_tparams := []; sd_doc := "";
     sd_fields := [fd1 "z" (TBasic "string") ""; fd1 "g" (TBasic "int") ("shoot: get" ++ nl);
                   fd1 "s" (TPtr (TBasic "int")) ("shoot: set" ++ nl); fd1 "Exp" (TBasic "int") ""] |}.
Definition ex_ro : sdecl :=
  {| sd_pkg := ""; sd_name := "RO"; sd_tparams := []; sd_doc := "shoot: getter" ++ nl;
     sd_fields := [fd1 "a" (TBasic "int") ""; fd1 "b" (TBasic "int") ("shoot: set" ++ nl)] |}.
Definition ex_son : sdecl :=
  {| sd_pkg := ""; sd_name := "Son"; sd_tparams := []; sd_doc := "";
     sd_fields := [emb (TPtr (TNamed "" "Base" [])); fd1 "user_name" (TBasic "string") ""; fd1 "k" (TBasic "int") ""] |}.
Definition ex_pkg : pkg_spec := [ex_base; ex_ro; ex_son].
Definition gs_flags : ctor_flags :=
  {| fl_getset := true; fl_json := false; fl_tagcase := TagCamel; fl_opt := false; fl_exp := false; fl_short := false |}.

(* the guard is satisfiable by a struct with a pointer embed, directives and a snake-case name *)
Example C03_example_guard :
  c03_guard ex_pkg gs_flags 8 ex_son = true /\ c03_guard ex_pkg gs_flags 8 ex_base = true /\
  c03_guard ex_pkg gs_flags 8 ex_ro = true /\ own_accessor_names_ok gs_flags ex_son = true.
Proof. vm_compute. repeat split; reflexivity. Qed.

(* the table: get-only g, set-only s, both for z, nothing for Exp; type-level `getter` filters b's setter *)
Example C03_example_table :
  map af_name (spec_accessors gs_flags ex_base true) = ["z"; "g"] /\
  map af_name (spec_accessors gs_flags ex_base false) = ["z"; "s"] /\
  map af_name (spec_accessors gs_flags ex_ro true) = ["a"] /\ spec_accessors gs_flags ex_ro false = [].
Proof. vm_compute. repeat split; reflexivity. Qed.

(* one run over Base, RO, Son: Son's interfaces embed Base's, *Son's method set has the promoted accessors *)
Example C03_example_run :
  match run_getset ex_pkg gs_flags 8 ["Base"; "RO"; "Son"] [] with
  | COk (out, v) =>
      match out with
      | [_; _; (_, d, nd)] =>
          gs_get_ifaces d = [("Base", [])] /\ gs_set_ifaces d = [("Base", [])] /\
          map fst (map fst (emitted_accessors gs_flags nd d)) = ["UserName"; "K"; "SetUserName"; "SetK"] /\
          map gm_name (iface_methods v 8 true "Son" []) = ["Z"; "G"; "UserName"; "K"] /\
          option_map fst (find_method ex_pkg v 8 (self_inst ex_son) "SetS") = Some ["Base"] /\
          implements ex_pkg v 8 (self_inst ex_son) (iface_methods v 8 true "Son" [] ++ iface_methods v 8 false "Son" [])%list = true
      | _ => False
      end
  | _ => False
  end.
Proof. vm_compute. repeat split; reflexivity. Qed.

(* the other order: Son is analysed before Base's interfaces exist (the view is empty), so Son's
   interfaces embed nothing (finding K_embed_order: the result depends on the view) *)
Example C03_example_view_matters :
  match run_getset ex_pkg gs_flags 8 ["Son"; "Base"] [] with
  | COk ((_, d, _) :: _, _) => gs_get_ifaces d = [] /\ gs_set_ifaces d = []
  | _ => False
  end.
Proof. vm_compute. split; reflexivity. Qed.

(* set-then-get through a promoted setter on a concrete value; a nil embedded pointer panics *)
Example C03_example_set_get :
  match run_getset ex_pkg gs_flags 8 ["Base"; "RO"; "Son"] [] with
  | COk (_, v) =>
      let x := VPtr (VStruct [("Base", VPtr (VStruct [("z", VS "a"); ("g", VZ 1); ("s", VNil); ("Exp", VZ 2)]));
                              ("user_name", VS "u"); ("k", VZ 3)]) in
      (match call_set ex_pkg v 8 ex_son x "SetZ" (VS "b") with
       | Ok x' => call_get ex_pkg v 8 ex_son x' "Z" = Ok (VS "b") /\ call_get ex_pkg v 8 ex_son x' "K" = Ok (VZ 3) /\
                  call_get ex_pkg v 8 ex_son x' "G" = Ok (VZ 1)
       | _ => False end) /\
      call_set ex_pkg v 8 ex_son (VPtr (VStruct [("Base", VNil); ("user_name", VS "u"); ("k", VZ 3)])) "SetZ" (VS "b") = Panic
  | _ => False
  end.
Proof. vm_compute. repeat split; reflexivity. Qed.

(* the guards of C03_pointer_receiver_satisfies hold for Son analysed after Base (pointer embed, promoted accessors) *)
Example C03_example_satisfies_guards :
  match run_getset ex_pkg gs_flags 8 ["Base"; "RO"] [] with
  | COk (_, v) =>
      match getset_of ex_pkg v gs_flags 8 ex_son with
      | COk (_, d, nd) =>
          accessor_names_unique ex_pkg (view_put v (spec_entry gs_flags ex_son)) 8 ex_son = true /\
          not_self_embedded ex_pkg 8 ex_son = true /\ view_ok ex_pkg v 8 ex_son = true /\
          gs_get_ifaces d = [("Base", [])]
      | _ => False
      end
  | _ => False
  end.
Proof. vm_compute. repeat split; reflexivity. Qed.

(* an exported field with a directive *)
Example C03_example_fatal :
  directive_on_exported {| sd_pkg := ""; sd_name := "E"; sd_tparams := []; sd_doc := "";
                           sd_fields := [fd1 "Exp" (TBasic "int") ("shoot: get" ++ nl)] |} = true.
Proof. vm_compute. reflexivity. Qed.

(* ------------------------------------------------------- refutation witnesses *)
(* K_getset_once_shadow: Son{Base; z string; k int} with Base.z -- the table grants Son.z both accessors,
   the analysis emits K/SetK only (the deep z is met first); the witness is outside own_names_fresh only *)
Definition w_base : sdecl :=
  {| sd_pkg := ""; sd_name := "Base"; sd_tparams := []; sd_doc := ""; sd_fields := [fd1 "z" (TBasic "string") ""] |}.
Definition w_son : sdecl :=
  {| sd_pkg := ""; sd_name := "Son"; sd_tparams := []; sd_doc := "";
     sd_fields := [emb (TNamed "" "Base" []); fd1 "z" (TBasic "string") ""; fd1 "k" (TBasic "int") ""] |}.

Theorem C03_refuted_K_getset_once_shadow :
  exists pkg sd fields d nd,
    getset_of pkg [] gs_flags 8 sd = COk (fields, d, nd) /\
    c02_guard pkg 8 sd = true /\ no_excluded_fields sd = true /\ own_names_fresh pkg 8 sd = false /\
    map af_name (spec_accessors gs_flags sd true) = ["z"; "k"] /\ map af_name (gs_getters d) = ["k"].
Proof.
  exists [w_base; w_son], w_son.
  destruct (getset_of [w_base; w_son] [] gs_flags 8 w_son) as [[[fields d] nd]| |] eqn:E; try (vm_compute in E; discriminate).
  exists fields, d, nd. split; [reflexivity|].
  vm_compute in E. inversion E; subst. vm_compute. repeat split; reflexivity.
Qed.
Print Assumptions C03_refuted_K_getset_once_shadow.

(* K_getset_excluded_field: Conf{name string; hid int `new:"-"`} -- the table grants hid both accessors,
   the analysis never sees the field *)
Definition w_conf : sdecl :=
  {| sd_pkg := ""; sd_name := "Conf"; sd_tparams := []; sd_doc := "";
     sd_fields := [fd1 "name" (TBasic "string") "";
                   {| fd_names := ["hid"]; fd_ty := TBasic "int"; fd_doc := "shoot: get;set" ++ nl;
                      fd_tag := Some ("`new:" ++ String (ascii_of_nat 34) ("-" ++ String (ascii_of_nat 34) "`")) |}] |}.

Theorem C03_refuted_K_getset_excluded_field :
  exists pkg sd fields d nd,
    getset_of pkg [] gs_flags 8 sd = COk (fields, d, nd) /\
    c02_guard pkg 8 sd = true /\ own_names_fresh pkg 8 sd = true /\ no_excluded_fields sd = false /\
    map af_name (spec_accessors gs_flags sd true) = ["name"; "hid"] /\ map af_name (gs_getters d) = ["name"].
Proof.
  exists [w_conf], w_conf.
  destruct (getset_of [w_conf] [] gs_flags 8 w_conf) as [[[fields d] nd]| |] eqn:E; try (vm_compute in E; discriminate).
  exists fields, d, nd. split; [reflexivity|].
  vm_compute in E. inversion E; subst. vm_compute. repeat split; reflexivity.
Qed.
Print Assumptions C03_refuted_K_getset_excluded_field.

(* K_getset_field_hides_accessor: Base{base int}, Son{Base; k int} -- inside c03_guard; SonGetter embeds
   BaseGetter whose method Base() is hidden on *Son by the embedded field Base: *Son does not satisfy SonGetter *)
Definition w_hbase : sdecl :=
  {| sd_pkg := ""; sd_name := "Base"; sd_tparams := []; sd_doc := ""; sd_fields := [fd1 "base" (TBasic "int") ""] |}.
Definition w_hson : sdecl :=
  {| sd_pkg := ""; sd_name := "Son"; sd_tparams := []; sd_doc := "";
     sd_fields := [emb (TNamed "" "Base" []); fd1 "k" (TBasic "int") ""] |}.

Definition w_h_pkg : pkg_spec := [w_hbase; w_hson].
Definition w_h_view : view :=
  Eval vm_compute in match run_getset w_h_pkg gs_flags 8 ["Base"] [] with COk (_, v) => v | _ => [] end.

Theorem C03_refuted_K_getset_field_hides_accessor :
  exists pkg v sd fields d nd,
    (exists out, run_getset pkg gs_flags 8 ["Base"] [] = COk (out, v)) /\
    getset_of pkg v gs_flags 8 sd = COk (fields, d, nd) /\
    c03_guard pkg gs_flags 8 sd = true /\ sd_pkg sd = "" /\
    not_self_embedded pkg 8 sd = true /\ view_ok pkg v 8 sd = true /\
    gs_get_ifaces d = [("Base", [])] /\
    accessor_names_unique pkg (view_put v (spec_entry gs_flags sd)) 8 sd = false /\
    accessors_visible pkg (view_put v (ventry_of sd nd d)) 8 sd = false /\
    implements pkg (view_put v (ventry_of sd nd d)) 9 (self_inst sd)
               (iface_methods (view_put v (ventry_of sd nd d)) 9 true (sd_name sd) []) = false.
Proof.
  exists w_h_pkg, w_h_view, w_hson.
  destruct (getset_of w_h_pkg w_h_view gs_flags 8 w_hson) as [[[fields d] nd]| |] eqn:E; try (vm_compute in E; discriminate).
  exists fields, d, nd. split.
  - destruct (run_getset w_h_pkg gs_flags 8 ["Base"] []) as [[out v]| |] eqn:E1; try (vm_compute in E1; discriminate).
    exists out. vm_compute in E1. inversion E1; subst. reflexivity.
  - split; [reflexivity|]. vm_compute in E. inversion E; subst. vm_compute. repeat split; reflexivity.
Qed.
Print Assumptions C03_refuted_K_getset_field_hides_accessor.

(* A field that shadows a promoted one declared AFTER it is inside the guard: Son{z string; Base; k int} with Base.z --
   the analysis emits exactly the table (z and k) *)
Definition w_son2 : sdecl :=
  {| sd_pkg := ""; sd_name := "Son"; sd_tparams := []; sd_doc := "";
     sd_fields := [fd1 "z" (TBasic "string") ""; emb (TNamed "" "Base" []); fd1 "k" (TBasic "int") ""] |}.

Example C03_example_shadow_in_guard :
  c03_guard [w_base; w_son2] gs_flags 8 w_son2 = true /\
  match getset_of [w_base; w_son2] [] gs_flags 8 w_son2 with
  | COk (_, d, _) => map af_name (gs_getters d) = ["z"; "k"] /\ gs_getters d = spec_accessors gs_flags w_son2 true
  | _ => False
  end.
Proof. vm_compute. repeat split; reflexivity. Qed.

(* K_getset_shadow_type_conflict: Son{z string; Base; k int} with Base{z int} -- inside c03_guard; SonGetter declares
   Z() string and embeds BaseGetter with Z() int: two methods of one name with different signatures (Go: duplicate
   method Z, the generated file does not compile) *)
Definition w_ibase : sdecl :=
  {| sd_pkg := ""; sd_name := "Base"; sd_tparams := []; sd_doc := ""; sd_fields := [fd1 "z" (TBasic "int") ""] |}.
Definition w_c_pkg : pkg_spec := [w_ibase; w_son2].
Definition w_c_view : view :=
  Eval vm_compute in match run_getset w_c_pkg gs_flags 8 ["Base"] [] with COk (_, v) => v | _ => [] end.

Theorem C03_refuted_K_getset_shadow_type_conflict :
  exists pkg v sd fields d nd,
    getset_of pkg v gs_flags 8 sd = COk (fields, d, nd) /\
    c03_guard pkg gs_flags 8 sd = true /\ not_self_embedded pkg 8 sd = true /\ view_ok pkg v 8 sd = true /\
    accessor_names_unique pkg (view_put v (spec_entry gs_flags sd)) 8 sd = false /\
    map (fun m => (gm_name m, type_string (gm_ty m)))
        (iface_methods (view_put v (ventry_of sd nd d)) 9 true (sd_name sd) []) = [("Z", "int"); ("Z", "string"); ("K", "int")].
Proof.
  exists w_c_pkg, w_c_view, w_son2.
  destruct (getset_of w_c_pkg w_c_view gs_flags 8 w_son2) as [[[fields d] nd]| |] eqn:E; try (vm_compute in E; discriminate).
  exists fields, d, nd. split; [reflexivity|]. vm_compute in E. inversion E; subst. vm_compute. repeat split; reflexivity.
Qed.
Print Assumptions C03_refuted_K_getset_shadow_type_conflict.
