(* C13  shoot new -opt: defaults first, then the options in order, each touching one field.

   Model: Model/CtorOpt.v (With / option functions / SetDefault of the template and
   the runtime shoot.NewWith) on top of Model/Ctor.v.  An option for field f is the
   assignment t.f = x, resolved by Go's selector rule and panicking on a nil
   pointer on the way.  The statements hold for ALL struct packages of the grammar
   inside the guard, all start values, all argument values and ALL option
   sequences (any length, any repetition).

   Guard: [c02_guard] (see Properties/C02.v); additionally the correspondence
   stream excludes generic structs (K_opt_generic), structs that embed a struct
   with defaults of its own (K_opt_promoted_setdefault) and colliding option
   names, and structs with excluded fields (which get no option: K_opt_excluded_field).
   Options applied to a value with a nil embedded pointer on the path
   panic (K_opt_nil_embed): the sequence theorem asks for a start value in which
   the option fields can be read, which NewT's result always is. *)
From Coq Require Import String Ascii List Bool Arith ZArith.
From Shoot Require Import Base.Str Base.GoVal Model.Transfer Model.CtorDirective Model.Ctor Model.CtorSpec Model.CtorOpt.
From Shoot Require Import Proofs.CtorC02Proofs Proofs.CtorOptProofs Proofs.CtorOptMethodProofs.
Import ListNotations.
Local Open Scope string_scope.

(* one option sets its field and changes nothing that does not overlap it *)
Theorem C13_option_sets_exactly_its_field : forall pkg fuel sd v f x v' p,
  assign pkg fuel sd v f x = Ok v' -> resolve pkg fuel sd f = Some p ->
  lookup v' p = Ok x /\ forall q, diverge p q = true -> lookup v' q = lookup v q.
Proof. exact option_sets_exactly_its_field. Qed.
Print Assumptions C13_option_sets_exactly_its_field.

(* the paths of two different option fields never overlap *)
Theorem C13_option_paths_apart : forall pkg fl fuel sd fs hn,
  flatten pkg fl fuel sd = COk (fs, hn) ->
  c02_guard pkg fuel sd = true ->
  forall e1 e2, In e1 (filter oentry fs) -> In e2 (filter oentry fs) ->
  f_name e1 = f_name e2 \/ diverge (f_path e1) (f_path e2) = true.
Proof. exact option_paths_apart. Qed.
Print Assumptions C13_option_paths_apart.

(* an option exists for every non-embedded non-shadowed field and for no other, named
   <Pascal f>Of<T> (or <Pascal f> with -short); SetDefault has one assignment per such
   field that carries a def= text, with that text; "non-shadowed" is Go's selector rule *)
Theorem C13_options_exist_exactly : forall pkg fl fuel sd fs hn,
  flatten pkg fl fuel sd = COk (fs, hn) ->
  c02_guard pkg fuel sd = true ->
  let nd := make_new sd hn fs in
  let od := make_opt fl sd nd in
  map (fun o => snd (fst o)) (od_options od) = map f_name (filter oentry fs) /\
  (forall o, In o (od_options od) ->
     fst (fst o) = opt_fn_name (fl_short fl) (tmpl_type_name sd nd) (snd (fst o))) /\
  map fst (od_defaults od) = map f_name (filter dentry fs) /\
  (forall e, In e (filter dentry fs) -> In (f_name e, f_def e) (od_defaults od)) /\
  (forall e, In e fs -> (oentry e = true <->
      f_embedded e = false /\ resolve pkg fuel sd (f_name e) = Some (f_path e))).
Proof. exact options_exist_exactly. Qed.
Print Assumptions C13_options_exist_exactly.

(* With = one run of assignments: the defaults (when the type has any), then the
   options in argument order *)
Theorem C13_with_is_defaults_then_options : forall pkg fuel sd od v opts,
  with_ pkg fuel sd od v opts = apply_opts pkg fuel sd (with_sequence od opts) v.
Proof. exact with_is_apply. Qed.
Print Assumptions C13_with_is_defaults_then_options.

(* for ALL option sequences: With succeeds and every option field holds the value of
   the last option on it, else its default, else what it held before *)
Theorem C13_with_all_sequences : forall pkg fl fuel sd fs hn v opts,
  flatten pkg fl fuel sd = COk (fs, hn) ->
  c02_guard pkg fuel sd = true ->
  let nd := make_new sd hn fs in
  let od := make_opt fl sd nd in
  (forall e, In e (filter oentry fs) -> exists y, lookup v (f_path e) = Ok y) ->
  (forall o, In o opts -> In (opt_field o) (nd_all nd)) ->
  exists v', with_ pkg fuel sd od v opts = Ok v' /\
    forall e, In e (filter oentry fs) ->
      lookup v' (f_path e) = match last_opt (f_name e) (with_sequence od opts) with
                             | Some x => Ok x
                             | None => lookup v (f_path e)
                             end.
Proof. exact with_all_sequences. Qed.
Print Assumptions C13_with_all_sequences.

(* the general form, for any value and any fields whose paths do not overlap *)
Theorem C13_with_last_wins : forall pkg fuel sd od v opts v' f q,
  with_ pkg fuel sd od v opts = Ok v' ->
  resolve pkg fuel sd f = Some q ->
  fields_apart pkg fuel sd (f :: map opt_field (with_sequence od opts)) ->
  lookup v' q = match last_opt f (with_sequence od opts) with
                | Some x => Ok x
                | None => lookup v q
                end.
Proof. exact with_last_wins. Qed.
Print Assumptions C13_with_last_wins.

(* NewT's result is a value on which every option sequence succeeds *)
Theorem C13_new_value_readable : forall pkg fl fuel sd fs hn args,
  flatten pkg fl fuel sd = COk (fs, hn) ->
  c02_guard pkg fuel sd = true ->
  exists v, eval_new pkg fuel sd (nd_body (make_new sd hn fs)) args = Ok v /\
            forall e, In e (filter oentry fs) -> exists y, lookup v (f_path e) = Ok y.
Proof. exact new_value_readable. Qed.
Print Assumptions C13_new_value_readable.

(* shoot.NewWith as the runtime runs it -- new(T), then the SetDefault that *T's METHOD SET
   contains (T's own, or one promoted from an embedded struct by Go's selector rule), then the
   options -- equals new(T).With(opts) inside the guard (which excludes embedded structs with
   defaults of their own: K_opt_promoted_setdefault, refuted below) *)
Theorem C13_new_with_is_with : forall pkg fl fuel sd fs hn short opts,
  flatten pkg fl fuel sd = COk (fs, hn) ->
  c13_guard short pkg fuel sd = true ->
  new_with_real pkg fl fuel sd opts =
  with_ pkg fuel sd (make_opt fl sd (make_new sd hn fs)) (VPtr (zero_struct pkg fuel (self_inst sd))) opts.
Proof. exact new_with_real_is_with. Qed.
Print Assumptions C13_new_with_is_with.

(* the type has a SetDefault (and With calls it) exactly when its declaration carries a default
   on a field that is not excluded *)
Theorem C13_has_default_iff_declared : forall pkg fl fuel sd fs hn,
  flatten pkg fl fuel sd = COk (fs, hn) ->
  c02_guard pkg fuel sd = true ->
  od_has_default (make_opt fl sd (make_new sd hn fs)) = decl_has_def sd.
Proof. exact has_default_iff_decl. Qed.
Print Assumptions C13_has_default_iff_declared.

(* nothing else changes, for whole sequences: a path overlapping none of the assigned fields
   reads the same before and after With, whatever the sequence *)
Theorem C13_with_changes_nothing_else : forall pkg fuel sd od v opts v' q,
  with_ pkg fuel sd od v opts = Ok v' ->
  (forall o p, In o (with_sequence od opts) -> resolve pkg fuel sd (opt_field o) = Some p -> diverge p q = true) ->
  lookup v' q = lookup v q.
Proof. exact with_changes_nothing_else. Qed.
Print Assumptions C13_with_changes_nothing_else.

(* ... instantiated: EVERY leaf of the struct graph (shadowed promoted fields and excluded
   fields included) that is not the field of an option / default of the sequence is unchanged *)
Theorem C13_with_frame_all_leaves : forall pkg fl fuel sd fs hn v opts v' q,
  flatten pkg fl fuel sd = COk (fs, hn) ->
  c02_guard pkg fuel sd = true ->
  let nd := make_new sd hn fs in
  let od := make_opt fl sd nd in
  with_ pkg fuel sd od v opts = Ok v' ->
  (forall o, In o opts -> In (opt_field o) (nd_all nd)) ->
  In q (leaf_paths pkg fuel (self_inst sd) []) ->
  (forall o, In o (with_sequence od opts) -> resolve pkg fuel sd (opt_field o) <> Some q) ->
  lookup v' q = lookup v q.
Proof. exact with_frame_all_leaves. Qed.
Print Assumptions C13_with_frame_all_leaves.

(* ------------------------------------------------------------------ examples *)
Definition fd (n : list ident) (t : ty) : fdecl := {| fd_names := n; fd_ty := t; fd_doc := ""; fd_tag := None |}.
Definition fdd (n : list ident) (t : ty) (doc : string) : fdecl :=
  {| fd_names := n; fd_ty := t; fd_doc := doc; fd_tag := None |}.
Definition st (n : ident) (fs : list fdecl) : sdecl :=
  {| sd_pkg := ""; sd_name := n; sd_tparams := []; sd_doc := ""; sd_fields := fs |}.
Definition nl : string := String (ascii_of_nat 10) "".
Definition opt_flags : ctor_flags :=
  {| fl_getset := false; fl_json := false; fl_tagcase := TagCamel; fl_opt := true; fl_exp := false; fl_short := false |}.

(* the golden Conf plus an embedded pointer: defaults first, the later option wins *)
Definition ex_base := st "Base" [fd ["z"] (TBasic "int")].
Definition ex_conf := st "Conf" [fdd ["name"] (TBasic "string") ("shoot: new" ++ nl); fd ["host"] (TSlice (TBasic "string"));
                                 fdd ["port"] (TBasic "int") ("shoot: def=80" ++ nl); fd [] (TPtr (TNamed "" "Base" []))].
Definition ex_pkg : pkg_spec := [ex_base; ex_conf].

Example C13_example_guard : c13_guard false ex_pkg 5 ex_conf = true.
Proof. vm_compute. reflexivity. Qed.

Example C13_example_run :
  exists nd od v0 v1,
    opt_of ex_pkg opt_flags 5 ex_conf = COk (nd, od) /\
    map fst (map fst (od_options od)) = ["NameOfConf"; "HostOfConf"; "PortOfConf"; "ZOfConf"] /\
    od_defaults od = [("port", "80")] /\
    eval_new ex_pkg 5 ex_conf (nd_body nd) (fun _ => VSent 0) = Ok v0 /\
    with_ ex_pkg 5 ex_conf od v0 [OptV "port" (VSent 1); OptV "z" (VSent 2); OptV "port" (VSent 3)] = Ok v1 /\
    lookup v1 ["port"] = Ok (VSent 3) /\ lookup v1 ["Base"; "z"] = Ok (VSent 2) /\
    lookup v1 ["name"] = Ok (VSent 0) /\
    (* without an option on it the default replaces what NewT stored *)
    (exists v2, with_ ex_pkg 5 ex_conf od v0 [OptV "z" (VSent 2)] = Ok v2 /\ lookup v2 ["port"] = Ok (VDef "80")).
Proof.
  do 4 eexists. split; [vm_compute; reflexivity|]. split; [reflexivity|]. split; [reflexivity|].
  split; [vm_compute; reflexivity|]. split; [vm_compute; reflexivity|].
  split; [reflexivity|]. split; [reflexivity|]. split; [reflexivity|].
  eexists. split; [vm_compute; reflexivity|]. reflexivity.
Qed.

(* K_opt_nil_embed: an option for a field promoted through an embedded pointer panics
   on new(T) (NewWith) although it is one of the type's options *)
Theorem C13_refuted_K_opt_nil_embed :
  exists nd od,
    opt_of ex_pkg opt_flags 5 ex_conf = COk (nd, od) /\ In "z" (nd_all nd) /\
    new_with_real ex_pkg opt_flags 5 ex_conf [OptV "z" (VSent 1)] = Panic /\
    (exists v, new_with_real ex_pkg opt_flags 5 ex_conf [OptV "host" (VSent 1)] = Ok v).
Proof.
  do 2 eexists. split; [vm_compute; reflexivity|]. split; [vm_compute; tauto|].
  split; [vm_compute; reflexivity|]. eexists. vm_compute. reflexivity.
Qed.
Print Assumptions C13_refuted_K_opt_nil_embed.

(* K_opt_promoted_setdefault: Order{ Base } where Base declares a default: *Order has
   Base's SetDefault promoted, so NewWith (has_method = true) and With (no defaults of
   Order's own) differ *)
Definition w_base := st "Base" [fdd ["z"] (TBasic "int") ("shoot: def=7" ++ nl); fd ["w"] (TBasic "string")].
Definition w_order := st "Order" [fd [] (TNamed "" "Base" []); fd ["n"] (TBasic "int")].
Theorem C13_refuted_K_opt_promoted_setdefault :
  no_promoted_setdefault [w_base; w_order] 5 w_order = false /\
  setdefault_target [w_base; w_order] 5 w_order = Some (["Base"], w_base) /\
  exists nd od v1 v2,
    opt_of [w_base; w_order] opt_flags 5 w_order = COk (nd, od) /\ od_has_default od = false /\
    new_with_real [w_base; w_order] opt_flags 5 w_order [] = Ok v1 /\ lookup v1 ["Base"; "z"] = Ok (VDef "7") /\
    with_ [w_base; w_order] 5 w_order od (VPtr (zero_struct [w_base; w_order] 5 (self_inst w_order))) [] = Ok v2 /\
    lookup v2 ["Base"; "z"] = Ok VZero.
Proof.
  split; [vm_compute; reflexivity|]. split; [vm_compute; reflexivity|].
  do 4 eexists. split; [vm_compute; reflexivity|]. split; [reflexivity|].
  split; [vm_compute; reflexivity|]. split; [reflexivity|]. split; [vm_compute; reflexivity|]. reflexivity.
Qed.
Print Assumptions C13_refuted_K_opt_promoted_setdefault.

(* K_opt_excluded_field: "every field gets an option": a new:"-" (or _) field gets none *)
Definition w_conf7 := st "Conf" [fd ["name"] (TBasic "string");
                                 {| fd_names := ["secret"]; fd_ty := TBasic "string"; fd_doc := ""; fd_tag := Some "`new:""-""`" |}].
Theorem C13_refuted_K_opt_excluded_field :
  no_excluded_own w_conf7 = false /\
  In ["secret"] (leaf_paths [w_conf7] 5 (self_inst w_conf7) []) /\
  exists nd od, opt_of [w_conf7] opt_flags 5 w_conf7 = COk (nd, od) /\ map (fun o => snd (fst o)) (od_options od) = ["name"].
Proof. split; [reflexivity|]. split; [vm_compute; tauto|]. do 2 eexists. split; vm_compute; reflexivity. Qed.
Print Assumptions C13_refuted_K_opt_excluded_field.

(* K_opt_generic: for a generic struct the option function name carries the type
   parameter names: not an identifier *)
Definition w_r := {| sd_pkg := ""; sd_name := "R"; sd_tparams := [{| tp_names := ["T"]; tp_con := CIdent "any" |}];
                     sd_doc := ""; sd_fields := [fd ["v"] (TParam "T")] |}.
Theorem C13_refuted_K_opt_generic :
  not_generic w_r = false /\
  exists nd od, opt_of [w_r] opt_flags 5 w_r = COk (nd, od) /\ map fst (map fst (od_options od)) = ["VOfR[T]"].
Proof. split; [reflexivity|]. do 2 eexists. split; vm_compute; reflexivity. Qed.
Print Assumptions C13_refuted_K_opt_generic.
