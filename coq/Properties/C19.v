(* C19 runtime: NewRest / Register / RestConf and the middleware chain order.
   Only the property theorems; each is closed by [exact] of a lemma of
   Proofs/RestRuntimeProofs.v and followed by Print Assumptions.

   Domains: option sequences are arbitrary lists over the five option
   constructors with arbitrary arguments (strings, Z, bool, header maps, any
   type M of middleware values); histories are arbitrary lists of
   Register/NewRest operations over type ids in nat and arbitrary
   constructor functions; middleware lists are arbitrary lists. *)
From Coq Require Import List ZArith Bool String Lia.
From Shoot Require Import Model.RestRuntime Proofs.RestRuntimeProofs.
From Shoot Require Import Model.Retry Model.RetryStack Model.ChainSem Proofs.RetryStackProofs Proofs.ChainSemProofs.
Import ListNotations.

(* ---- RestConf holds exactly the supplied options, later options win.
   [last_arg sel zero os a]: a is the argument of the last option of os that
   sets the field (no later option sets it), or the zero value if none does. *)
Theorem C19_conf_holds_exactly_the_options : forall (M : Type) (os : list (opt M)),
  last_arg sel_base EmptyString os (c_base (apply_opts os)) /\
  last_arg sel_timeout 0%Z os (c_timeout (apply_opts os)) /\
  last_arg sel_logging false os (c_logging (apply_opts os)) /\
  last_arg sel_headers None os (c_headers (apply_opts os)) /\
  c_mws (apply_opts os) = uses os.
Proof. exact (@conf_of_options). Qed.
Print Assumptions C19_conf_holds_exactly_the_options.

(* last_arg determines the value (it is the function the correspondence's
   boolean property uses) *)
Theorem C19_last_arg_determines : forall (M A : Type) (sel : opt M -> option A) zero os a,
  last_arg sel zero os a -> a = last_of sel zero os.
Proof. exact (@last_arg_fn). Qed.
Print Assumptions C19_last_arg_determines.

(* ---- the registry, for every history (from the empty registry): the outcome
   of the operation after any prefix [pre] is [outcome_spec pre o] ... *)
Theorem C19_history_outcome : forall (M Client : Type) (pre : list (op M Client)) o post,
  nth_error (snd (run Client [] (pre ++ o :: post))) (List.length pre)
  = Some (outcome_spec Client pre o).
Proof. exact (@history_outcome). Qed.
Print Assumptions C19_history_outcome.

(* ... where: Register t panics iff t was registered before, *)
Theorem C19_register_twice_panics : forall (M Client : Type) (pre : list (op M Client)) t c,
  outcome_spec Client pre (Register t c) = PanicDup t <-> exists c', In (Register t c') pre.
Proof. exact (@register_panics_iff). Qed.
Print Assumptions C19_register_twice_panics.

Theorem C19_register_first_succeeds : forall (M Client : Type) (pre : list (op M Client)) t c,
  outcome_spec Client pre (Register t c) = Registered <-> forall c', ~ In (Register t c') pre.
Proof. exact (@register_ok_iff). Qed.
Print Assumptions C19_register_first_succeeds.

(* NewRest t panics iff t was never registered, *)
Theorem C19_newrest_unregistered_panics : forall (M Client : Type) (pre : list (op M Client)) t os,
  outcome_spec Client pre (NewRest t os) = PanicNotReg t <-> forall c, ~ In (Register t c) pre.
Proof. exact (@newrest_panics_iff). Qed.
Print Assumptions C19_newrest_unregistered_panics.

(* and otherwise returns what the constructor registered for t (the first, and
   by the theorems above only successful, registration) makes of exactly the
   conf built from the options *)
Theorem C19_newrest_applies_registered_ctor : forall (M Client : Type) (p1 p2 : list (op M Client)) t c os,
  (forall c', ~ In (Register t c') p1) ->
  outcome_spec Client (p1 ++ Register t c :: p2) (NewRest t os) = Built (c (apply_opts os)).
Proof. exact (@newrest_builds). Qed.
Print Assumptions C19_newrest_applies_registered_ctor.

(* the registry never holds a type twice *)
Theorem C19_registry_nodup : forall (M Client : Type) (pre : list (op M Client)) (r : registry M Client),
  NoDup (map fst r) -> NoDup (map fst (fst (run Client r pre))).
Proof. exact (@registry_nodup). Qed.
Print Assumptions C19_registry_nodup.

(* ---- the chain: for ANY list of middlewares (arbitrary functions),
   BuildMiddleware's reverse loop yields m1 (m2 (... (mk base))), logging
   around it: the first added is outermost, logging outside all *)
Theorem C19_chain_first_added_outermost : forall (mws : list mw) (logging : bool) (base : rt),
  build mws logging base =
  if logging then log_mw (compose_chain mws base) else compose_chain mws base.
Proof. exact build_compose. Qed.
Print Assumptions C19_chain_first_added_outermost.

(* for tagging middlewares: the executed trace is properly nested ... *)
Theorem C19_chain_trace : forall (tags : list nat) (logging : bool),
  build (map tag_mw tags) logging [EBase] = nested_trace logging tags.
Proof. exact build_tags_trace. Qed.
Print Assumptions C19_chain_trace.

(* ... and the wrappers are entered in the order [Log]? ++ tags ++ [Base] *)
Theorem C19_chain_invocation_order : forall (tags : list nat) (logging : bool),
  entries (build (map tag_mw tags) logging [EBase]) =
  (if logging then [ELogIn] else []) ++ map EIn tags ++ [EBase].
Proof. exact build_tags_invocation_order. Qed.
Print Assumptions C19_chain_invocation_order.

(* ---- the generated client's timeout.  THE PROPERTY'S SENTENCE "the client's HTTP timeout equals the
   configured timeout" IS FALSE OF /repo (open finding K_rest_timeout, golden-locked): the template
   multiplies the configured time.Duration by time.Second in int64.  What is proved is the exact
   extent of the defect (next two theorems); the model's repaired branch is the identity by
   definition, stated only so that the combined theorem below can speak about both trees. *)
Theorem C19_repaired_branch_is_identity : forall (M : Type) (F : fenv) (r : conf M),
  F K_rest_timeout = false -> client_timeout F r = c_timeout r.
Proof. exact (@client_timeout_ideal). Qed.
Print Assumptions C19_repaired_branch_is_identity.

(* with the defect present (Duration(conf.Timeout()) * time.Second in int64)
   the client's timeout equals the configured one only for Timeout(0) *)
Theorem C19_client_timeout_with_defect : forall t : Z,
  in_int64 t = true -> (wrap64 (t * second) = t <-> t = 0%Z).
Proof. exact wrap64_times_second_fix. Qed.
Print Assumptions C19_client_timeout_with_defect.

Theorem C19_refuted_K_rest_timeout :
  let r := @apply_opts nat [OTimeout (10 * second)] in     (* shoot.Timeout(10 * time.Second) *)
  in_int64 (c_timeout r) = true /\
  client_timeout all_defects r <> c_timeout r /\
  (client_timeout all_defects r < 0)%Z.                     (* wraps: no timeout at all *)
Proof. exact timeout_refuted_witness. Qed.
Print Assumptions C19_refuted_K_rest_timeout.

(* ---- everything together, for a generated client: in any history in which
   the template's constructor is the first registered for t, NewRest t os
   returns that implementation, holding exactly apply_opts os, with the chain
   trace of the Use arguments in order and (repaired branch) the configured
   timeout *)
Theorem C19_newrest_generated_client : forall (F : fenv) (g t : nat)
    (p1 p2 : list (op nat (gclient nat))) (os : list (opt nat)),
  (forall c', ~ In (Register t c') p1) ->
  outcome_spec (gclient nat) (p1 ++ Register t (gen_ctor F tag_mw [EBase] g) :: p2) (NewRest t os) =
  Built {| g_iface := g;
           g_conf := apply_opts os;
           g_timeout := client_timeout F (apply_opts os);
           g_transport := nested_trace (last_of sel_logging false os) (uses os) |}.
Proof. exact newrest_generated_client. Qed.
Print Assumptions C19_newrest_generated_client.

(* ---- the chain has a meaning, not only a shape (Model/ChainSem.v): BuildMiddleware's loop over ANY
   carrier T of RoundTrippers composes the middlewares left to right, logging outside; the trace-level
   chain above is this loop at T = list event *)
Theorem C19_chain_semantic : forall (T : Type) (logmw : T -> T) (mws : list (T -> T)) (logging : bool) (base : T),
  build_sem T logmw mws logging base =
  if logging then logmw (compose_sem T mws base) else compose_sem T mws base.
Proof. exact build_sem_compose. Qed.
Print Assumptions C19_chain_semantic.

Theorem C19_trace_chain_is_semantic_chain : forall (mws : list mw) (logging : bool) (base : rt),
  build mws logging base = build_sem rt log_mw mws logging base.
Proof. exact build_is_sem. Qed.
Print Assumptions C19_trace_chain_is_semantic_chain.

(* instantiated with the behavioural RoundTrippers of C20: the client NewRest builds from
   Use(RetryMiddleware(n, d)), Use(RetryMiddleware(m, d)) [, EnableLogging(true)] sends through
   log (retry n (retry m base)), and whatever the options, a chain of retries calls a base transport
   that makes at most k wire calls per request at most (prod (n_i + 1)) * k times per request *)
Theorem C19_retry_chain_two : forall (n m : Z) (logging : bool) (base : tr),
  retry_chain [n; m] logging base =
  if logging then log_tr (retry_tr n (retry_tr m base)) else retry_tr n (retry_tr m base).
Proof. exact retry_chain_two. Qed.
Print Assumptions C19_retry_chain_two.

Theorem C19_retry_chain_budget : forall (ns : list Z) (logging : bool) (base : tr) (k : nat),
  bounded base k -> bounded (retry_chain ns logging base) (budget ns * k).
Proof. exact retry_chain_bounded. Qed.
Print Assumptions C19_retry_chain_budget.

Example C19_example_retry_chain :
  retry_chain [1; 1]%Z true (wire (script_of
     [RErr 1 None; RResp {| r_id := 2; r_status := 503 |}; RErr 3 (Some {| r_id := 3; r_status := 200 |});
      RErr 4 (Some {| r_id := 4; r_status := 200 |})] (RErr 0 None))) 0%nat
  = ([ECall 0; ESleep; ECall 1; ESleep; ECall 2; ESleep; ECall 3], (None, Some 4%nat), 4%nat)
  /\ budget [1; 1]%Z = 4%nat.
Proof. split; vm_compute; reflexivity. Qed.

(* ---- non-vacuity *)
Example C19_example_options :
  let os := [OUse 1; OBaseURL "a"; OTimeout 5; OUse 2; OBaseURL "b"; OLogging true; OUse 1]%string in
  @apply_opts nat os =
  {| c_base := "b"; c_timeout := 5; c_logging := true; c_headers := None; c_mws := [1; 2; 1] |}
  /\ build_conf tag_mw (apply_opts os) [EBase] =
     [ELogIn; EIn 1; EIn 2; EIn 1; EBase; EOut 1; EOut 2; EOut 1; ELogOut].
Proof. split; reflexivity. Qed.

(* a history meeting the hypothesis of C19_newrest_applies_registered_ctor in
   a non-trivial way: an unrelated registration and a failed NewRest precede,
   a duplicate registration follows *)
Example C19_example_history :
  let c1 : ctor nat nat := fun r => 1 in
  let c2 : ctor nat nat := fun r => 2 in
  snd (run nat [] [Register 7 c2; NewRest 5 []; Register 5 c1; Register 5 c2; NewRest 5 [OLogging true]])
  = [Registered; PanicNotReg 5; Registered; PanicDup 5; Built 1].
Proof. reflexivity. Qed.

Example C19_example_int64 : in_int64 (3 * second) = true /\ wrap64 (3 * second * second) <> (3 * second)%Z.
Proof. split; [reflexivity|vm_compute; discriminate]. Qed.
