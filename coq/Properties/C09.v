(* C09  map: ToX/FromX never panic and FromX fully resets its receiver.

   Model/MapperEval.v gives the generated ToX/FromX their meaning on values
   with nil pointers, nil slices and nil elements; dereferencing nil is the
   outcome [Panic].  Model/MapperSafe.v defines the decidable check
   [plans_safe] on a pair's plans: every statement's read guard is exactly the
   chain of embedded pointers of the field it reads (parents first), every
   embedded pointer above a written field is in the allocation list and the
   list allocates parents first, sub-struct strategies fit the field types.

   C09_no_panic_to/from: safe plans never panic, for EVERY well-typed input
   (all nil patterns, all slice lengths, all recursion depths, any user code).
   C09_generated_plans_safe: inside [gen_guard] -- a decidable condition on the
   INPUTS of `shoot map` (Model/MapperGen.v: plain struct types, embedded fields
   named after their type, no field named like an embedded struct, zero values
   exist, every sub-struct pair of two name-matching fields has its own job) --
   EVERY plan the analysis model produces passes [plans_safe]
   (Proofs/MapperSafeGenProofs.v), so C09_no_panic_to_gen/from_gen are
   statements about the generator model for every job of that class, not about
   a per-pair certificate.  The correspondence run still evaluates the check
   itself on the plans of every pair, and [gen_guard] next to it. *)
From Coq Require Import String List ZArith Bool.
From Shoot Require Import Base.Str Model.MapVal Model.Mapper Model.MapperEval Model.MapperSpec Model.MapperSafe
     Model.MapperGen Proofs.MapperValProofs Proofs.MapperSafeProofs Proofs.MapperSafeGenProofs Proofs.MapperProgressProofs Corr.MapperCorr Proofs.MapperExamples Proofs.MapperExampleProofs.
Import ListNotations.
Local Open Scope string_scope.
Local Open Scope list_scope.

(* ---- ToX never panics *)
Theorem C09_no_panic_to : forall e zf U pe,
  plans_safe e zf pe = true ->
  forall fuel tn recv,
    has_ty e recv (TPtr (TNamed PSrc tn)) ->
    eval_to e zf U pe fuel tn recv <> Panic.
Proof. exact eval_to_no_panic. Qed.
Print Assumptions C09_no_panic_to.

(* ---- FromX never panics, whatever the receiver *)
Theorem C09_no_panic_from : forall e zf U pe,
  plans_safe e zf pe = true ->
  forall fuel tn tp recv arg,
    find_plans pe tn = Some tp ->
    has_ty e arg (TPtr (TNamed PDst (tp_dst tp))) ->
    eval_from e zf U pe fuel tn recv arg <> Panic.
Proof. exact eval_from_no_panic. Qed.
Print Assumptions C09_no_panic_from.

(* ---- generator level: inside gen_guard the analysis only produces safe plans,
   whatever the iteration order [sigma] of Go's map ranges ... *)
Theorem C09_generated_plans_safe : forall sigma e F jobs pe,
  (forall m x, In x (sigma m) <-> In x m) ->
  (forall jb, In jb jobs -> j_env jb = e /\ j_fuel jb = F) ->
  gen_guard e F jobs = true ->
  penv_of sigma jobs = Some pe ->
  plans_safe e (S F) pe = true.
Proof. exact analyse_plans_safe. Qed.
Print Assumptions C09_generated_plans_safe.

(* ... hence the generated ToX / FromX of such jobs never dereference nil *)
Theorem C09_no_panic_to_gen : forall sigma e F jobs pe U,
  (forall m x, In x (sigma m) <-> In x m) ->
  (forall jb, In jb jobs -> j_env jb = e /\ j_fuel jb = F) ->
  gen_guard e F jobs = true ->
  penv_of sigma jobs = Some pe ->
  forall fuel tn recv,
    has_ty e recv (TPtr (TNamed PSrc tn)) ->
    eval_to e (S F) U pe fuel tn recv <> Panic.
Proof.
  intros sigma e F jobs pe U Sg JE G PE fuel tn recv T.
  apply eval_to_no_panic; auto. eapply analyse_plans_safe; eauto.
Qed.
Print Assumptions C09_no_panic_to_gen.

Theorem C09_no_panic_from_gen : forall sigma e F jobs pe U,
  (forall m x, In x (sigma m) <-> In x m) ->
  (forall jb, In jb jobs -> j_env jb = e /\ j_fuel jb = F) ->
  gen_guard e F jobs = true ->
  penv_of sigma jobs = Some pe ->
  forall fuel tn tp recv arg,
    find_plans pe tn = Some tp ->
    has_ty e arg (TPtr (TNamed PDst (tp_dst tp))) ->
    eval_from e (S F) U pe fuel tn recv arg <> Panic.
Proof.
  intros sigma e F jobs pe U Sg JE G PE fuel tn tp recv arg FP T.
  eapply eval_from_no_panic; eauto. eapply analyse_plans_safe; eauto.
Qed.
Print Assumptions C09_no_panic_from_gen.

(* the plans the correspondence evaluates are those of the theorem *)
Lemma C09_plans_of_is_penv_of : forall ps, plans_of ps = penv_of (fun m => m) (ps_jobs ps).
Proof. reflexivity. Qed.

(* non-vacuity of the class: the example pairs ex1..ex4 (embedded pointers to
   depth 2, sub-structs in all forms, mapper funcs, tags) are inside gen_guard *)
Example C09_example_gen_guard :
  forallb (fun ps => gen_guard (ps_env ps) (ps_fuel ps) (ps_jobs ps)) [ex1; ex2; ex3; ex4] = true.
Proof. vm_compute. reflexivity. Qed.

(* ---- `<> Panic` alone would also hold for a model that gets STUCK (the third
   outcome of the evaluator: "the plan does not fit the value", or no fuel).  A
   safe plan on a well-typed input is never stuck once the fuel covers the size of
   the input, so the generated methods RUN TO COMPLETION.  Stuck-freedom is proved
   from the embedded STRUCTURE of the written value only (user mapper methods and
   conversions need not preserve typing): Proofs/MapperProgressProofs.v. *)
Theorem C09_runs_to_completion_to : forall e zf U pe,
  plans_safe e zf pe = true ->
  forall fuel tn tp recv,
    find_plans pe tn = Some tp ->
    has_ty e recv (TPtr (TNamed PSrc tn)) ->
    vsize recv <= fuel ->
    exists v, eval_to e zf U pe fuel tn recv = Ok v.
Proof. exact eval_to_completes. Qed.
Print Assumptions C09_runs_to_completion_to.

Theorem C09_runs_to_completion_from : forall e zf U pe,
  plans_safe e zf pe = true ->
  forall fuel tn tp recv arg,
    find_plans pe tn = Some tp ->
    has_ty e arg (TPtr (TNamed PDst (tp_dst tp))) ->
    vsize arg <= fuel ->
    exists v, eval_from e zf U pe fuel tn recv arg = Ok v.
Proof. exact eval_from_completes. Qed.
Print Assumptions C09_runs_to_completion_from.

(* ... at generator level *)
Theorem C09_runs_to_completion_to_gen : forall sigma e F jobs pe U,
  (forall m x, In x (sigma m) <-> In x m) ->
  (forall jb, In jb jobs -> j_env jb = e /\ j_fuel jb = F) ->
  gen_guard e F jobs = true ->
  penv_of sigma jobs = Some pe ->
  forall fuel tn tp recv,
    find_plans pe tn = Some tp ->
    has_ty e recv (TPtr (TNamed PSrc tn)) -> vsize recv <= fuel ->
    exists v, eval_to e (S F) U pe fuel tn recv = Ok v.
Proof.
  intros sigma e F jobs pe U Sg JE G PE fuel tn tp recv FP T Sz.
  eapply eval_to_completes; eauto. eapply analyse_plans_safe; eauto.
Qed.
Print Assumptions C09_runs_to_completion_to_gen.

Theorem C09_runs_to_completion_from_gen : forall sigma e F jobs pe U,
  (forall m x, In x (sigma m) <-> In x m) ->
  (forall jb, In jb jobs -> j_env jb = e /\ j_fuel jb = F) ->
  gen_guard e F jobs = true ->
  penv_of sigma jobs = Some pe ->
  forall fuel tn tp recv arg,
    find_plans pe tn = Some tp ->
    has_ty e arg (TPtr (TNamed PDst (tp_dst tp))) -> vsize arg <= fuel ->
    exists v, eval_from e (S F) U pe fuel tn recv arg = Ok v.
Proof.
  intros sigma e F jobs pe U Sg JE G PE fuel tn tp recv arg FP T Sz.
  eapply eval_from_completes; eauto. eapply analyse_plans_safe; eauto.
Qed.
Print Assumptions C09_runs_to_completion_from_gen.

(* ---- a nil receiver / nil argument yields nil *)
Theorem C09_nil_receiver_gives_nil : forall e zf U pe fuel tn tp,
  find_plans pe tn = Some tp -> eval_to e zf U pe (S fuel) tn VNil = Ok VNil.
Proof. exact eval_to_nil. Qed.
Print Assumptions C09_nil_receiver_gives_nil.

Theorem C09_nil_argument_gives_nil : forall e zf U pe fuel tn tp recv,
  find_plans pe tn = Some tp -> eval_from e zf U pe (S fuel) tn recv VNil = Ok VNil.
Proof. exact eval_from_nil. Qed.
Print Assumptions C09_nil_argument_gives_nil.

(* ---- "FromX on a non-nil receiver first resets it".  The model threads the
   receiver: FromX starts from the receiver's previous content unless the plan
   resets ([pl_reset]: the `*s = S{}` / `*s = *NewS(...)` the template prints
   unconditionally, so `analyse` sets it).  For every plan that resets, the
   result does not depend on the receiver's previous CONTENT ... (with a
   constructor the arguments are evaluated before the reset, on the old
   receiver; a mapper method selected through a pointer-embedded mapper then
   looks at the old content, hence the side condition) *)
Theorem C09_receiver_content_irrelevant : forall e zf U pe fuel tn tp recv recv' arg,
  find_plans pe tn = Some tp -> pl_reset (tp_from tp) = true ->
  pl_ctor (tp_from tp) = None \/ tp_mapper_hop tp = None ->
  (recv = VNil <-> recv' = VNil) ->
  eval_from e zf U pe fuel tn recv arg = eval_from e zf U pe fuel tn recv' arg.
Proof. exact eval_from_receiver. Qed.
Print Assumptions C09_receiver_content_irrelevant.

(* ... and for a source type without constructor (every plain struct; the class of
   C09_no_panic_from) a nil receiver behaves like any other *)
Theorem C09_receiver_irrelevant : forall e zf U pe fuel tn tp recv recv' arg,
  find_plans pe tn = Some tp -> pl_reset (tp_from tp) = true -> pl_ctor (tp_from tp) = None ->
  eval_from e zf U pe fuel tn recv arg = eval_from e zf U pe fuel tn recv' arg.
Proof. exact eval_from_receiver_plain. Qed.
Print Assumptions C09_receiver_irrelevant.

(* every plan of the analysis resets *)
Theorem C09_analysis_resets : forall sigma jb a, analyse sigma jb = Some a -> pl_reset (a_from a) = true.
Proof.
  intros sigma jb a H. unfold analyse in H. destruct (prepare jb); [|discriminate]. inversion H. reflexivity.
Qed.
Print Assumptions C09_analysis_resets.

(* the flag matters: the FromX plan of ex2 without the reset (and without the
   statement for Name) keeps the receiver's previous Name, with it it does not *)
Theorem C09_reset_is_needed :
  let pe := map no_reset (pe_of ex2) in
  let run r := eval_from (ps_env ex2) (ps_fuel ex2) (usem_of ex2) pe run_fuel "T" r (VPtr ex2_v) in
  (exists s, run (VPtr ex2_dirty) = Ok (VPtr s) /\ get_path s ["Name"] = Ok (VStr "previous"))
  /\ (exists s, run VNil = Ok (VPtr s) /\ get_path s ["Name"] = Ok (VStr ""))
  /\ run (VPtr ex2_dirty) <> run VNil.
Proof. exact ex2_reset_matters. Qed.
Print Assumptions C09_reset_is_needed.

(* ---- a mapper type embedded BY POINTER (`type T struct{ *Mapper; ... }`, accepted
   by loadTypeMapperPkg) with value-receiver methods: `t.F(x)` dereferences
   t.Mapper.  FromX has just set it to nil (its own reset), so FromX panics for
   EVERY receiver at the first field mapped by a mapper method; ToX panics when
   the receiver's Mapper is nil.  Open finding K_map_mapper_ptr_embedded (found by
   the independent review; replayed every run).  The class is outside gen_guard
   (plain_gen) and pair_guard (strategies_ok), and the safety check rejects it. *)
Theorem C09_refuted_K_map_mapper_ptr_embedded :
  run_from ex9 VNil (VPtr ex9_d) = Panic
  /\ run_from ex9 (VPtr ex9_dirty) (VPtr ex9_d) = Panic
  /\ run_to ex9 (VPtr ex9_v_nil) = Panic
  /\ (exists d, run_to ex9 (VPtr ex9_v) = Ok (VPtr d))
  /\ has_ty (ps_env ex9) (VPtr ex9_v_nil) (TPtr (TNamed PSrc "T"))
  /\ has_ty (ps_env ex9) (VPtr ex9_d) (TPtr (TNamed PDst "T"))
  /\ plans_safe (ps_env ex9) (ps_fuel ex9) (pe_of ex9) = false
  /\ pair_guard (ps_env ex9) (ps_fuel ex9) (ps_jobs ex9) = false.
Proof. exact ex9_mapper_ptr. Qed.
Print Assumptions C09_refuted_K_map_mapper_ptr_embedded.

(* With a constructor whose argument goes through a mapper method, FromX on a NIL
   receiver panics: `s.F(x)` is evaluated before `s` is replaced, and selecting the
   method through the embedded Mapper value dereferences s.  Open finding
   K_map_ctor_func_nil_receiver (found by the C15 comparison; replayed every run). *)
Theorem C09_refuted_K_map_ctor_func_nil_receiver :
  run_from ex5 VNil (VPtr ex5_d) = Panic
  /\ (exists s, run_from ex5 (VPtr ex5_dirty) (VPtr ex5_d) = Ok (VPtr s)).
Proof. exact ex5_nil_receiver. Qed.
Print Assumptions C09_refuted_K_map_ctor_func_nil_receiver.

(* ---- the building blocks: a path operation panics only strictly below a nil
   value, and a write changes the nil-status of no position outside its path *)
Theorem C09_read_panics_only_below_nil : forall p v, get_path v p = Panic ->
  exists q r, p = q ++ r /\ r <> [] /\ get_path v q = Ok VNil.
Proof. exact get_path_panic. Qed.
Print Assumptions C09_read_panics_only_below_nil.

Theorem C09_write_panics_only_below_nil : forall p v x, set_path v p x = Panic ->
  exists q r, p = q ++ r /\ r <> [] /\ get_path v q = Ok VNil.
Proof. exact set_path_panic. Qed.
Print Assumptions C09_write_panics_only_below_nil.

(* ---- the decidable type check used to validate inputs is sound *)
Theorem C09_type_check_sound : forall e fuel v t, has_ty_b e fuel v t = true -> has_ty e v t.
Proof. exact has_ty_b_sound. Qed.
Print Assumptions C09_type_check_sound.

(* ---- non-vacuity: the plans of ex1 (embedded pointers to depth 2, sub-structs
   in all forms) and ex2 are safe; a nil-saturated, well-typed input exists *)
Example C09_example_safe :
  plans_safe (ps_env ex1) (ps_fuel ex1) (pe_of ex1) = true
  /\ plans_safe (ps_env ex2) (ps_fuel ex2) (pe_of ex2) = true
  /\ has_ty (ps_env ex1) (VPtr ex1_v_nils) (TPtr (TNamed PSrc "T")).
Proof. exact (conj ex1_safe (conj ex2_safe ex1_v_nils_typed)). Qed.

(* ---- the check is not vacuous: without the read guards ex1's ToX is rejected
   and does panic on that input; without the allocations ex2's FromX is rejected
   and panics *)
Example C09_guards_are_needed :
  plans_safe (ps_env ex1) (ps_fuel ex1) (map strip_guards (pe_of ex1)) = false
  /\ eval_to (ps_env ex1) (ps_fuel ex1) (usem_of ex1) (map strip_guards (pe_of ex1)) run_fuel "T" (VPtr ex1_v_nils) = Panic.
Proof. exact ex1_unguarded. Qed.

Example C09_allocations_are_needed :
  plans_safe (ps_env ex2) (ps_fuel ex2) (map strip_allocs (pe_of ex2)) = false
  /\ eval_from (ps_env ex2) (ps_fuel ex2) (usem_of ex2) (map strip_allocs (pe_of ex2)) run_fuel "T" VNil (VPtr ex2_v) = Panic.
Proof. exact ex2_unallocated. Qed.
