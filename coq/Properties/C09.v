(* C09  map: ToX/FromX never panic and FromX fully resets its receiver.

   Model/MapperEval.v gives the generated ToX/FromX their meaning on values
   with nil pointers, nil slices and nil elements; dereferencing nil is the
   outcome [Panic].  Model/MapperSafe.v defines the decidable check
   [plans_safe] on a pair's plans: every statement's read guard is exactly the
   chain of embedded pointers of the field it reads (parents first), every
   embedded pointer above a written field is in the allocation list and the
   list allocates parents first, sub-struct strategies fit the field types.

   C09_no_panic_to/from: safe plans never panic, for EVERY well-typed input
   (all nil patterns, all slice lengths, all recursion depths, any user code).
   The check itself is evaluated inside Coq on the plans of every pair of the
   correspondence run (and on the Examples below); that `analyse` produces safe
   plans for EVERY job of the grammar is not proved in general (it is established
   per pair by evaluating the check): this is the one missing link of C09. *)
From Coq Require Import String List ZArith Bool.
From Shoot Require Import Base.Str Model.MapVal Model.Mapper Model.MapperEval Model.MapperSpec Model.MapperSafe
     Proofs.MapperValProofs Proofs.MapperSafeProofs Corr.MapperCorr Proofs.MapperExamples Proofs.MapperExampleProofs.
Import ListNotations.
Local Open Scope string_scope.
Local Open Scope list_scope.

(* ---- ToX never panics *)
Theorem C09_no_panic_to : forall e zf U pe,
  plans_safe e zf pe = true ->
  forall fuel tn recv,
    has_ty e recv (TPtr (TNamed PSrc tn)) ->
    eval_to e zf U pe fuel tn recv <> Panic.
Proof. exact eval_to_no_panic. Qed.
Print Assumptions C09_no_panic_to.

(* ---- FromX never panics, whatever the receiver *)
Theorem C09_no_panic_from : forall e zf U pe,
  plans_safe e zf pe = true ->
  forall fuel tn tp recv arg,
    find_plans pe tn = Some tp ->
    has_ty e arg (TPtr (TNamed PDst (tp_dst tp))) ->
    eval_from e zf U pe fuel tn recv arg <> Panic.
Proof. exact eval_from_no_panic. Qed.
Print Assumptions C09_no_panic_from.

(* ---- a nil receiver / nil argument yields nil *)
Theorem C09_nil_receiver_gives_nil : forall e zf U pe fuel tn tp,
  find_plans pe tn = Some tp -> eval_to e zf U pe (S fuel) tn VNil = Ok VNil.
Proof. exact eval_to_nil. Qed.
Print Assumptions C09_nil_receiver_gives_nil.

Theorem C09_nil_argument_gives_nil : forall e zf U pe fuel tn tp recv,
  find_plans pe tn = Some tp -> eval_from e zf U pe (S fuel) tn recv VNil = Ok VNil.
Proof. exact eval_from_nil. Qed.
Print Assumptions C09_nil_argument_gives_nil.

(* ---- FromX first resets its receiver (`*s = S{}`, or `*s = *NewS(...)`): the
   result never depends on the receiver's previous CONTENT ... *)
Theorem C09_receiver_content_irrelevant : forall e zf U pe fuel tn recv recv' arg,
  (recv = VNil <-> recv' = VNil) ->
  eval_from e zf U pe fuel tn recv arg = eval_from e zf U pe fuel tn recv' arg.
Proof. exact eval_from_receiver. Qed.
Print Assumptions C09_receiver_content_irrelevant.

(* ... and for a source type without constructor (every plain struct; the class of
   C09_no_panic_from) a nil receiver behaves like any other *)
Theorem C09_receiver_irrelevant : forall e zf U pe fuel tn tp recv recv' arg,
  find_plans pe tn = Some tp -> pl_ctor (tp_from tp) = None ->
  eval_from e zf U pe fuel tn recv arg = eval_from e zf U pe fuel tn recv' arg.
Proof. exact eval_from_receiver_plain. Qed.
Print Assumptions C09_receiver_irrelevant.

(* With a constructor whose argument goes through a mapper method, FromX on a NIL
   receiver panics: `s.F(x)` is evaluated before `s` is replaced, and selecting the
   method through the embedded Mapper value dereferences s.  Open finding
   K_map_ctor_func_nil_receiver (found by the C15 comparison; replayed every run). *)
Theorem C09_refuted_K_map_ctor_func_nil_receiver :
  run_from ex5 VNil (VPtr ex5_d) = Panic
  /\ (exists s, run_from ex5 (VPtr ex5_dirty) (VPtr ex5_d) = Ok (VPtr s)).
Proof. exact ex5_nil_receiver. Qed.
Print Assumptions C09_refuted_K_map_ctor_func_nil_receiver.

(* ---- the building blocks: a path operation panics only strictly below a nil
   value, and a write changes the nil-status of no position outside its path *)
Theorem C09_read_panics_only_below_nil : forall p v, get_path v p = Panic ->
  exists q r, p = q ++ r /\ r <> [] /\ get_path v q = Ok VNil.
Proof. exact get_path_panic. Qed.
Print Assumptions C09_read_panics_only_below_nil.

Theorem C09_write_panics_only_below_nil : forall p v x, set_path v p x = Panic ->
  exists q r, p = q ++ r /\ r <> [] /\ get_path v q = Ok VNil.
Proof. exact set_path_panic. Qed.
Print Assumptions C09_write_panics_only_below_nil.

(* ---- the decidable type check used to validate inputs is sound *)
Theorem C09_type_check_sound : forall e fuel v t, has_ty_b e fuel v t = true -> has_ty e v t.
Proof. exact has_ty_b_sound. Qed.
Print Assumptions C09_type_check_sound.

(* ---- non-vacuity: the plans of ex1 (embedded pointers to depth 2, sub-structs
   in all forms) and ex2 are safe; a nil-saturated, well-typed input exists *)
Example C09_example_safe :
  plans_safe (ps_env ex1) (ps_fuel ex1) (pe_of ex1) = true
  /\ plans_safe (ps_env ex2) (ps_fuel ex2) (pe_of ex2) = true
  /\ has_ty (ps_env ex1) (VPtr ex1_v_nils) (TPtr (TNamed PSrc "T")).
Proof. exact (conj ex1_safe (conj ex2_safe ex1_v_nils_typed)). Qed.

(* ---- the check is not vacuous: without the read guards ex1's ToX is rejected
   and does panic on that input; without the allocations ex2's FromX is rejected
   and panics *)
Example C09_guards_are_needed :
  plans_safe (ps_env ex1) (ps_fuel ex1) (map strip_guards (pe_of ex1)) = false
  /\ eval_to (ps_env ex1) (ps_fuel ex1) (usem_of ex1) (map strip_guards (pe_of ex1)) run_fuel "T" (VPtr ex1_v_nils) = Panic.
Proof. exact ex1_unguarded. Qed.

Example C09_allocations_are_needed :
  plans_safe (ps_env ex2) (ps_fuel ex2) (map strip_allocs (pe_of ex2)) = false
  /\ eval_from (ps_env ex2) (ps_fuel ex2) (usem_of ex2) (map strip_allocs (pe_of ex2)) run_fuel "T" VNil (VPtr ex2_v) = Panic.
Proof. exact ex2_unallocated. Qed.
