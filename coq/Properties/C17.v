(* C17 (stub while the pipeline is brought up) *)
From Coq Require Import String List.
From Shoot Require Import Model.Fs Proofs.FsProofs.
Import ListNotations.

Theorem C17_exec_app : forall s a b, exec s (a ++ b) = exec (exec s a) b.
Proof. exact exec_app. Qed.
Print Assumptions C17_exec_app.
