(* C17: writes are confined, atomic and never delete hand-written files.

   Model: Model/Fs.v (inode-level directory, the operations of one run in the
   order main/notedownSrc/Clean issue them).  A crash point is a prefix [p] of
   the operation list [plan c init outs]; [prefix_of p l] holds exactly for the
   lists [firstn k l] (C17_crash_points).  Quantifiers: every directory state
   [init] (names, hard links = shared inodes, contents), every list of outputs
   in every order (main ranges over a Go map), every chunking of every write
   (partial writes), every choice of temporary names accepted by O_EXCL, all
   four subcommands (c_cmd), Dir = "." or not (c_dirdot), Clean active or not.

   [good c init outs] collects the guards:
     g_nofds, g_wf   the shoot process starts without open files; inode numbers in use are below [next]
     g_ok            output names are distinct (keys of a Go map); temp names are distinct, did not
                     exist (O_EXCL) and are not output names  - C17_real_names_meet_the_guards shows
                     that the names shoot really uses satisfy this
     g_spares        Clean does not select what this run wrote.  The current code (c_fixed = true:
                     Clean compares base names, /repo commit 31cd4c3) meets it for every Dir and every
                     spelling of the star: C17_current_code_meets_all_guards.  The code before that
                     commit (c_fixed = false, finding K_clean_own_output, fixed) did not:
                     C17_refuted_K_clean_own_output.
   That rename(2) rebinds the destination in one step is the semantics of
   [Rename] in the model, not a theorem.

   What is NOT proved as the property text words it:
   - "removes only superseded files": the current Clean removes every matching file that carries
     the header of the same subcommand and is not an all-in-one file (C17_victims_are_the_selected_files),
     whether or not the new all-in-one file provides what the old file provided.  [superseded] states
     the text's notion; it holds for a repaired Clean (C17_repaired_cleanup_removes_only_superseded)
     and, for the current one, exactly off the input class of the open finding K_clean_not_superseded
     (C17_removes_only_superseded_partial, C17_refuted_K_clean_not_superseded).
   - "never a hand-written file": proved for "a file whose first line is not a
     Code-generated-by-shoot-<cmd> ... DO NOT EDIT. header of the same subcommand"; a hand-written
     file that carries such a line cannot be told from a generated one.
   - failing system calls: C17_no_temp_left and C17_plan_never_fails are about the run in which every
     call succeeds (exit 0); C17_after_a_failing_call and C17_no_temp_left_unless_the_rename_failed
     cover a run in which one call fails (I/O error) and main.go's recovery. *)
From Coq Require Import String Ascii List Bool Arith Permutation.
From Shoot Require Import Model.Fs Proofs.FsProofs Corr.FsCorr Proofs.FsCorrProofs.
Import ListNotations.
Local Open Scope string_scope.

(* ---- atomic replacement: at every crash point every output name shows the
   complete old file (or is still absent) or the complete new one *)
Theorem C17_atomic_at_every_crash_point : forall c init outs p o,
  good c init outs -> prefix_of p (plan c init outs) -> In o outs ->
  visible (exec init p) (o_name o) = visible init (o_name o) \/
  visible (exec init p) (o_name o) = Some (new_bytes o).
Proof. intros c init outs p o G. exact (atomic (reached c outs) init outs (good_reached c init outs G) p o). Qed.
Print Assumptions C17_atomic_at_every_crash_point.

(* ---- confinement: a name that is neither an output, nor one of this run's
   temporaries, nor selected by Clean keeps its inode and its bytes at every
   crash point *)
Theorem C17_frame : forall c init outs p n,
  good c init outs -> prefix_of p (plan c init outs) ->
  ~ In n (names outs) -> ~ In n (temps outs) ->
  ~ In n (removed c init outs) ->
  lookup n (dir (exec init p)) = lookup n (dir init) /\ visible (exec init p) n = visible init n.
Proof. intros c init outs p n G. exact (frame (reached c outs) init outs (good_reached c init outs G) p n). Qed.
Print Assumptions C17_frame.

(* a file selected by Clean is, at every crash point, complete and unchanged or gone *)
Theorem C17_victim_old_or_gone : forall c init outs p n,
  good c init outs -> prefix_of p (plan c init outs) ->
  In n (removed c init outs) ->
  visible (exec init p) n = visible init n \/ visible (exec init p) n = None.
Proof. intros c init outs p n G. exact (victim_old_or_gone (reached c outs) init outs (good_reached c init outs G) p n). Qed.
Print Assumptions C17_victim_old_or_gone.

(* ... and it is gone only once it is superseded: if at some crash point a selected file
   is already removed, every output already shows its complete new content (Clean runs
   after the write loop) *)
Theorem C17_removed_only_when_superseded : forall c init outs p n o,
  good c init outs -> prefix_of p (plan c init outs) ->
  In n (removed c init outs) -> lookup n (dir (exec init p)) = None ->
  In o outs -> visible (exec init p) (o_name o) = Some (new_bytes o).
Proof. intros c init outs p n o G. exact (removed_only_when_superseded (reached c outs) init outs p n o (good_reached c init outs G)). Qed.
Print Assumptions C17_removed_only_when_superseded.

(* no file appears under a name that is not an output or a temporary *)
Theorem C17_only_outputs_and_temps_appear : forall c init outs p n,
  good c init outs -> prefix_of p (plan c init outs) ->
  lookup n (dir (exec init p)) <> None -> lookup n (dir init) = None ->
  In n (names outs) \/ In n (temps outs).
Proof. intros c init outs p n G. exact (new_names_are_outputs_or_temps (reached c outs) init outs (good_reached c init outs G) p n). Qed.
Print Assumptions C17_only_outputs_and_temps_appear.

(* ---- no pre-existing inode is ever written: whatever name (hard link) or open
   descriptor refers to it keeps seeing the old bytes *)
Theorem C17_old_inodes_keep_their_bytes : forall c init outs p j,
  good c init outs -> prefix_of p (plan c init outs) -> j < next init ->
  data (exec init p) j = data init j.
Proof. intros c init outs p j G. exact (old_inodes_keep_bytes (reached c outs) init outs (good_reached c init outs G) p j). Qed.
Print Assumptions C17_old_inodes_keep_their_bytes.

Theorem C17_hard_link_keeps_old_output : forall c init outs p o l i,
  good c init outs -> prefix_of p (plan c init outs) -> In o outs ->
  lookup (o_name o) (dir init) = Some i -> lookup l (dir init) = Some i ->
  ~ In l (names outs) -> ~ In l (temps outs) ->
  ~ In l (removed c init outs) ->
  visible (exec init p) l = visible init (o_name o).
Proof. intros c init outs p o l i G. exact (hard_link_keeps_old (reached c outs) init outs (good_reached c init outs G) p o l i). Qed.
Print Assumptions C17_hard_link_keeps_old_output.

(* ---- concurrent reader: the inode a reader obtained by opening any name other
   than a temporary, at any instant, is never written afterwards *)
Theorem C17_reader_stability : forall c init outs p r n i,
  good c init outs -> prefix_of (p ++ r)%list (plan c init outs) ->
  ~ In n (temps outs) -> lookup n (dir (exec init p)) = Some i ->
  data (exec init (p ++ r)) i = data (exec init p) i.
Proof. intros c init outs p r n i G. exact (reader_stability (reached c outs) init outs (good_reached c init outs G) p r n i). Qed.
Print Assumptions C17_reader_stability.

(* ---- normal termination: every output holds its new content, no temporary
   name remains, no descriptor is open, the selected files are gone and
   everything else is as before *)
Theorem C17_no_temp_left : forall c init outs,
  good c init outs ->
  let s := exec init (plan c init outs) in
  (forall o, In o outs -> visible s (o_name o) = Some (new_bytes o)) /\
  (forall t, In t (temps outs) -> lookup t (dir s) = None) /\
  (forall n, In n (removed c init outs) -> lookup n (dir s) = None) /\
  (forall n, ~ In n (names outs) -> ~ In n (temps outs) ->
             ~ In n (removed c init outs) ->
             lookup n (dir s) = lookup n (dir init) /\ visible s n = visible init n) /\
  nofds s.
Proof. intros c init outs G. exact (final_state (reached c outs) init outs (good_reached c init outs G)). Qed.
Print Assumptions C17_no_temp_left.

(* the model's run never hits a failing system call *)
Theorem C17_plan_never_fails : forall c init outs,
  good c init outs -> keys_nodup (dir init) -> all_ok init (plan c init outs) = true.
Proof. intros c init outs G K. exact (plan_all_ok (reached c outs) init outs (good_reached c init outs G) K). Qed.
Print Assumptions C17_plan_never_fails.

(* ---- the all-in-one cleanup: which files are selected, stated on the
   directory as it was before the run.  NOTE: this characterises what the code removes; it
   does not say the removed files are superseded (see below) *)
Theorem C17_victims_are_the_selected_files : forall c init outs n,
  good c init outs -> ~ In n (names outs) ->
  (In n (removed c init outs) <-> victim_spec (reached c outs) init n = true).
Proof. intros c init outs n G. exact (victims_char (reached c outs) init outs (good_reached c init outs G) n). Qed.
Print Assumptions C17_victims_are_the_selected_files.

(* selected = the run is an all-in-one run, the name matches *.shoot<cmd>*.go, the
   first line starts with the header of the same subcommand and is not an
   all-in-one header *)
Theorem C17_selected_means : forall c init n, victim_spec c init n = true ->
  c_clean c = true /\ glob (c_cmd c) n = true /\
  exists b, visible init n = Some b /\ is_aio (first_line b) = false /\
            exists r, first_line b = gen_prefix (c_cmd c) ++ r.
Proof. exact victim_spec_sound. Qed.
Print Assumptions C17_selected_means.

(* "never a hand-written file", as far as it can be stated: a file whose first line is NOT the
   header of the same subcommand keeps its name, inode and bytes at every crash point (unless it
   sits on an output name).  Hand-written is taken to mean exactly that; the theorem is the
   consequence for the whole run (every crash point), the criterion itself is the code's. *)
Theorem C17_files_without_the_header_are_never_removed : forall c init outs p n b,
  good c init outs -> prefix_of p (plan c init outs) -> ~ In n (names outs) ->
  visible init n = Some b -> is_gen (c_cmd c) (first_line b) = false ->
  lookup n (dir (exec init p)) = lookup n (dir init) /\ visible (exec init p) n = Some b.
Proof.
  intros c init outs p n b G Hp Hn V Hg.
  destruct (not_selected_untouched (reached c outs) init outs p n (good_reached c init outs G) Hp Hn) as [L V'].
  - unfold visible in V. destruct (lookup n (dir init)); congruence.
  - exact (hand_written_not_selected (reached c outs) init n b V Hg).
  - split; [exact L|congruence].
Qed.
Print Assumptions C17_files_without_the_header_are_never_removed.

(* ---- "removes only superseded files".  [superseded c b]: every type the file with content b
   was generated for (c_tags, the receivers of its marker methods) is among the types this run
   generated (c_covered).  A Clean that asks this question (c_supfix = true) removes only
   superseded files: *)
Theorem C17_repaired_cleanup_removes_only_superseded : forall c init n,
  c_supfix c = true -> victim_spec c init n = true ->
  exists b, visible init n = Some b /\ superseded c b = true.
Proof. exact repaired_only_superseded. Qed.
Print Assumptions C17_repaired_cleanup_removes_only_superseded.

(* the current Clean (c_supfix = false) does so on the directory states in which every file it
   selects is for types of this run, i.e. off the input class of K_clean_not_superseded; the
   guard IS that class's complement, so this is a partial result, not the property *)
Theorem C17_removes_only_superseded_partial : forall c init n,
  all_selected_superseded c init -> victim_spec c init n = true ->
  exists b, visible init n = Some b /\ superseded c b = true.
Proof. exact only_superseded_partial. Qed.
Print Assumptions C17_removes_only_superseded_partial.

(* nor an all-in-one file, nor a file of another name pattern, nor anything when
   the run is not an all-in-one run *)
Theorem C17_not_selected_untouched : forall c init outs p n,
  good c init outs -> prefix_of p (plan c init outs) ->
  ~ In n (names outs) -> lookup n (dir init) <> None -> victim_spec (reached c outs) init n = false ->
  lookup n (dir (exec init p)) = lookup n (dir init) /\ visible (exec init p) n = visible init n.
Proof. intros c init outs p n G. exact (not_selected_untouched (reached c outs) init outs p n (good_reached c init outs G)). Qed.
Print Assumptions C17_not_selected_untouched.

(* ---- names: what fileName produces matches *.shoot<cmd>*.go, for every source
   file name and type name; conversely a matching name has that shape; the
   temporaries of CreateTemp never match *)
Theorem C17_output_names_match_pattern : forall cmd gofile T, glob cmd (file_name cmd gofile T) = true.
Proof. exact file_name_glob. Qed.
Print Assumptions C17_output_names_match_pattern.

Theorem C17_pattern_means : forall cmd n, glob cmd n = true ->
  exists X Y, n = X ++ ".shoot" ++ cmd ++ Y ++ ".go".
Proof.
  intros cmd n H. destruct (glob_sound cmd n H) as (X & Y & E). exists X, Y.
  rewrite E. unfold glob_mid. now rewrite !sapp_assoc.
Qed.
Print Assumptions C17_pattern_means.

Theorem C17_temp_names_never_match : forall cmd f r,
  all_digits r = true -> r <> "" -> glob cmd (tmp_name f r) = false.
Proof. exact tmp_name_not_glob. Qed.
Print Assumptions C17_temp_names_never_match.

(* ... and they are single path components: dir/name lies directly in the package
   directory (the source file name is a base name, the type name an identifier) *)
Theorem C17_output_names_stay_in_the_directory : forall cmd gofile T,
  noslash cmd = true -> noslash gofile = true -> noslash T = true ->
  noslash (file_name cmd gofile T) = true.
Proof. exact file_name_noslash. Qed.
Print Assumptions C17_output_names_stay_in_the_directory.

Theorem C17_temp_names_stay_in_the_directory : forall f r,
  noslash f = true -> all_digits r = true -> noslash (tmp_name f r) = true.
Proof. exact tmp_name_noslash. Qed.
Print Assumptions C17_temp_names_stay_in_the_directory.

(* the guard g_ok holds for the names shoot uses: outputs named by the pattern,
   temporaries .<output>_<digits> that did not exist *)
Theorem C17_real_names_meet_the_guards : forall cmd init outs,
  NoDup (names outs) -> (forall o, In o outs -> shaped cmd o) ->
  (forall t, In t (temps outs) -> lookup t (dir init) = None) ->
  okouts init outs.
Proof. exact shaped_okouts. Qed.
Print Assumptions C17_real_names_meet_the_guards.

(* g_spares: Clean's own-file test succeeds when Dir is "." and, with the base-name
   comparison of the current code (c_fixed), for every Dir *)
Theorem C17_guard_holds_from_the_package_dir_or_after_repair : forall c o,
  (c_dirdot c || c_fixed c) = true -> o_name o = c_genfile c -> spares c o = true.
Proof. exact own_spares. Qed.
Print Assumptions C17_guard_holds_from_the_package_dir_or_after_repair.

(* the current code: when Clean is active (-type=* without -sep) main's srcMap has the
   single key fileName("") = genfile [aio_shape]; then [good] needs nothing about Clean:
   all theorems above hold for every [dir] argument and however the star is spelled *)
Theorem C17_current_code_meets_all_guards : forall c init outs,
  c_fixed c = true -> aio_shape c outs -> nofds init -> dir_wf init -> okouts init outs ->
  good c init outs.
Proof. exact current_code_good. Qed.
Print Assumptions C17_current_code_meets_all_guards.

(* every directory state given as a list of (name, inode, bytes) meets g_nofds, g_wf *)
Theorem C17_states_meet_the_guards : forall files,
  nofds (mk_init files) /\ dir_wf (mk_init files) /\ keys_nodup (dir (mk_init files)).
Proof. exact mk_init_wf. Qed.
Print Assumptions C17_states_meet_the_guards.

Theorem C17_crash_points : forall (l p : list op) k,
  prefix_of (firstn k l) l /\ (prefix_of p l -> p = firstn (length p) l).
Proof. intros l p k. split; [apply prefix_of_firstn|apply prefix_is_firstn]. Qed.
Print Assumptions C17_crash_points.

(* ---- one failing system call (I/O error).  [faulted plan k]: call number k of the plan fails;
   main.go then stops (Fatal), after Close + Remove(temp) when the failing call is a write.
   Everything said about crash points still holds in the state the run leaves: *)
Theorem C17_after_a_failing_call : forall c init outs k,
  good c init outs ->
  let s := exec init (faulted (plan c init outs) k) in
  (forall o, In o outs -> visible s (o_name o) = visible init (o_name o) \/ visible s (o_name o) = Some (new_bytes o)) /\
  (forall n, ~ In n (names outs) -> ~ In n (temps outs) -> ~ In n (removed c init outs) ->
     lookup n (dir s) = lookup n (dir init) /\ visible s n = visible init n) /\
  (forall n, In n (removed c init outs) -> visible s n = visible init n \/ visible s n = None) /\
  (forall j, j < next init -> data s j = data init j).
Proof. intros c init outs k G. exact (faulted_invariants (reached c outs) init outs (good_reached c init outs G) k). Qed.
Print Assumptions C17_after_a_failing_call.

(* and no temporary file is left, unless the failing call is the rename itself (the code does
   not remove the temporary then: C17_example_rename_failure_leaves_the_temp; recorded by the
   C18 check as K_rename_fail_after_write).  The result of Close is ignored by the code. *)
Theorem C17_no_temp_left_unless_the_rename_failed : forall c init outs k x t,
  good c init outs ->
  nth_error (plan c init outs) k = Some x -> can_fail x = true -> is_rename x = false ->
  In t (temps outs) -> lookup t (dir (exec init (faulted (plan c init outs) k))) = None.
Proof. intros c init outs k x t G. exact (faulted_no_temp_left (reached c outs) init outs (good_reached c init outs G) k x t). Qed.
Print Assumptions C17_no_temp_left_unless_the_rename_failed.

(* ---- nothing generated: main prints its warning and returns BEFORE g.Clean(); no system call is
   issued and no file is selected, whatever the mode and whatever stale outputs the directory holds
   (the earlier model cleaned here; found by the translation tie coq/Bridge/WriteProtoBridge.v) *)
Theorem C17_nothing_generated_nothing_touched : forall c init,
  plan c init [] = [] /\ removed c init [] = [].
Proof. intros c init. split; [apply plan_nothing_generated|apply removed_nothing_generated]. Qed.
Print Assumptions C17_nothing_generated_nothing_touched.

(* ---- main ranges over a Go map: the order in which the outputs are written does
   not influence what the directory shows after the run *)
Theorem C17_output_order_is_irrelevant : forall c init outs outs',
  Permutation outs outs' -> good c init outs -> good c init outs' ->
  forall n, visible (exec init (plan c init outs)) n = visible (exec init (plan c init outs')) n.
Proof. exact order_independent_plan. Qed.
Print Assumptions C17_output_order_is_irrelevant.

(* ---- histories: what a killed run leaves behind (descriptors gone, directory as it
   was at the crash point) is again a directory state meeting the guards, so all of
   the above applies to the next run; leftover temporaries are ordinary foreign files
   for it (C17_frame: they are never touched, hence never cleaned up) *)
Theorem C17_crash_state_is_a_state : forall init p,
  dir_wf init -> keys_nodup (dir init) ->
  let s := reboot (exec init p) in
  nofds s /\ dir_wf s /\ keys_nodup (dir s) /\ (forall n, visible s n = visible (exec init p) n).
Proof. exact crash_state_is_a_state. Qed.
Print Assumptions C17_crash_state_is_a_state.

(* ---- the boolean property evaluated on observations (Corr/FsCorr.v [Pb]) is the theorems'
   statement: if the traced operations of a case are the model's plan (for guards that
   hold) and the directory seen after the run is the model's final state, then the
   conjuncts P_atomic and P_stable of [Pb] are true.  A run that agrees with the model
   cannot be reported as a violation of atomicity, and a reported one cannot agree. *)
Theorem C17_Pb_atomic_is_the_theorem : forall (k : case) outs,
  k_ops k = plan (cfg_of k) (init_of k) outs -> good (cfg_of k) (init_of k) outs ->
  (forall n, In n (names_of k) -> ~ In n (temps outs)) ->
  (forall n, In n (names_of k) -> after_visible k n = visible (exec (init_of k) (k_ops k)) n) ->
  P_atomic k = true.
Proof. exact agree_atomic. Qed.
Print Assumptions C17_Pb_atomic_is_the_theorem.

Theorem C17_Pb_stable_is_the_theorem : forall (k : case) outs,
  k_ops k = plan (cfg_of k) (init_of k) outs -> good (cfg_of k) (init_of k) outs ->
  (forall n, In n (names_of k) -> ~ In n (temps outs)) ->
  P_stable k = true.
Proof. exact agree_stable. Qed.
Print Assumptions C17_Pb_stable_is_the_theorem.

(* ------------------------------------------------------------ non-vacuity *)
(* An all-in-one run of `shoot new -type=*` in a directory with an old
   all-in-one output that has a hard link, a superseded per-type output, a
   hand-written look-alike, an all-in-one file of another generate line and a
   temporary left by an earlier crash; the new file is written in two chunks. *)
Definition hdr (rest : string) : string := "// Code generated by ""shoot new " ++ rest ++ """; DO NOT EDIT. (v0.7.0)".
Definition ex_nl : string := String nl "".
Definition ex_init : fs := mk_init [
  ("a.go", 0, "package p");
  ("a.shootnew.go", 1, hdr "-type=*" ++ ex_nl ++ "old");
  ("bak.orig", 1, hdr "-type=*" ++ ex_nl ++ "old");
  ("a.shootnew.foo.go", 2, hdr "-type=Foo" ++ ex_nl ++ "stale");
  ("notes.shootnewish.go", 3, "package p" ++ ex_nl ++ "// hand written");
  ("_keep.shootnew.go", 4, hdr "-getset -type=*" ++ ex_nl);
  (".a.shootnew.go_99", 5, "// Code gen")
].
Definition ex_out : output :=
  {| o_name := "a.shootnew.go"; o_tmp := ".a.shootnew.go_4242";
     o_chunks := [hdr "-type=*" ++ ex_nl; "new"] |}.
Definition ex_cfg : cfg :=
  {| c_cmd := "new"; c_clean := true; c_dirdot := true; c_fixed := false; c_supfix := false; c_tags := fun _ => []; c_covered := []; c_genfile := "a.shootnew.go"; c_fd := 3 |}.

Example C17_example_good : good ex_cfg ex_init [ex_out].
Proof.
  destruct (mk_init_wf [("a.go", 0, "package p");
    ("a.shootnew.go", 1, hdr "-type=*" ++ ex_nl ++ "old");
    ("bak.orig", 1, hdr "-type=*" ++ ex_nl ++ "old");
    ("a.shootnew.foo.go", 2, hdr "-type=Foo" ++ ex_nl ++ "stale");
    ("notes.shootnewish.go", 3, "package p" ++ ex_nl ++ "// hand written");
    ("_keep.shootnew.go", 4, hdr "-getset -type=*" ++ ex_nl);
    (".a.shootnew.go_99", 5, "// Code gen")]) as (H1 & H2 & _).
  split; [exact H1|exact H2| |].
  - apply (shaped_okouts "new").
    + repeat constructor. intros [].
    + intros o [<-|[]]. split; [reflexivity|]. exists "4242". repeat split. discriminate.
    + intros t [<-|[]]. reflexivity.
  - intros o [<-|[]]. reflexivity.
Qed.

(* the run of the example: the stale per-type file is selected, the others are not;
   mid-run (after the first chunk) the old file is still visible and a temporary exists *)
Example C17_example_run :
  victims ex_cfg (exec ex_init (write_ops 3 [ex_out])) = ["a.shootnew.foo.go"] /\
  length (plan ex_cfg ex_init [ex_out]) = 11 /\
  visible (exec ex_init (firstn 2 (plan ex_cfg ex_init [ex_out]))) "a.shootnew.go" = visible ex_init "a.shootnew.go" /\
  visible (exec ex_init (firstn 2 (plan ex_cfg ex_init [ex_out]))) ".a.shootnew.go_4242" = Some (hdr "-type=*" ++ ex_nl) /\
  let s := exec ex_init (plan ex_cfg ex_init [ex_out]) in
  visible s "a.shootnew.go" = Some (hdr "-type=*" ++ ex_nl ++ "new") /\
  visible s "bak.orig" = Some (hdr "-type=*" ++ ex_nl ++ "old") /\
  visible s "a.shootnew.foo.go" = None /\
  visible s "notes.shootnewish.go" = visible ex_init "notes.shootnewish.go" /\
  visible s "_keep.shootnew.go" = visible ex_init "_keep.shootnew.go" /\
  visible s ".a.shootnew.go_99" = Some "// Code gen" /\
  visible s ".a.shootnew.go_4242" = None.
Proof. vm_compute. repeat split. Qed.

(* the example run killed after the first chunk, then run again (new temporary name): the
   guards hold in the crash state, the second run completes, the temporary of the first
   run stays where it was *)
Definition ex_crash : fs := reboot (exec ex_init (firstn 2 (plan ex_cfg ex_init [ex_out]))).
Definition ex_out' : output :=
  {| o_name := "a.shootnew.go"; o_tmp := ".a.shootnew.go_777"; o_chunks := [hdr "-type=*" ++ ex_nl ++ "new"] |}.
Example C17_example_rerun_after_crash :
  good ex_cfg ex_crash [ex_out'] /\
  let s := exec ex_crash (plan ex_cfg ex_crash [ex_out']) in
  visible s "a.shootnew.go" = Some (hdr "-type=*" ++ ex_nl ++ "new") /\
  visible s ".a.shootnew.go_4242" = Some (hdr "-type=*" ++ ex_nl) /\
  visible s ".a.shootnew.go_777" = None /\
  visible s "a.shootnew.foo.go" = None /\
  visible s "bak.orig" = Some (hdr "-type=*" ++ ex_nl ++ "old").
Proof.
  split.
  - pose proof C17_example_good as [_ H2 _ _].
    destruct (crash_state_is_a_state ex_init (firstn 2 (plan ex_cfg ex_init [ex_out])) H2) as (K1 & K2 & _).
    { destruct (mk_init_wf [("a.go", 0, "package p");
        ("a.shootnew.go", 1, hdr "-type=*" ++ ex_nl ++ "old");
        ("bak.orig", 1, hdr "-type=*" ++ ex_nl ++ "old");
        ("a.shootnew.foo.go", 2, hdr "-type=Foo" ++ ex_nl ++ "stale");
        ("notes.shootnewish.go", 3, "package p" ++ ex_nl ++ "// hand written");
        ("_keep.shootnew.go", 4, hdr "-getset -type=*" ++ ex_nl);
        (".a.shootnew.go_99", 5, "// Code gen")]) as (_ & _ & K). exact K. }
    split; [exact K1|exact K2| |].
    + apply (shaped_okouts "new").
      * repeat constructor. intros [].
      * intros o [<-|[]]. split; [reflexivity|]. exists "777". repeat split. discriminate.
      * intros t [<-|[]]. reflexivity.
    + intros o [<-|[]]. reflexivity.
  - vm_compute. repeat split.
Qed.

(* `shoot new -type=*` in the example directory when the package has no eligible type: the stale
   per-type file, which an all-in-one run that generates something removes, stays *)
Example C17_example_nothing_generated :
  plan ex_cfg ex_init [] = [] /\
  visible (exec ex_init (plan ex_cfg ex_init [])) "a.shootnew.foo.go" = visible ex_init "a.shootnew.foo.go" /\
  In "a.shootnew.foo.go" (removed ex_cfg ex_init [ex_out]).
Proof. vm_compute. repeat split. now left. Qed.

(* the example run with a failing second write (no space left): Close, Remove(temp); the old file,
   the hard link and the stale file are as before, no temporary is left *)
Example C17_example_write_failure :
  nth_error (plan ex_cfg ex_init [ex_out]) 2 = Some (Write 3 "new") /\
  faulted (plan ex_cfg ex_init [ex_out]) 2 =
    [CreateTemp 3 ".a.shootnew.go_4242"; Write 3 (hdr "-type=*" ++ ex_nl); Close 3; Unlink ".a.shootnew.go_4242"] /\
  let s := exec ex_init (faulted (plan ex_cfg ex_init [ex_out]) 2) in
  visible s "a.shootnew.go" = visible ex_init "a.shootnew.go" /\
  visible s ".a.shootnew.go_4242" = None /\
  visible s "a.shootnew.foo.go" = visible ex_init "a.shootnew.foo.go".
Proof. vm_compute. repeat split. Qed.

(* ... and with a failing rename: the temporary stays (the exception in the theorem is real) *)
Example C17_example_rename_failure_leaves_the_temp :
  nth_error (plan ex_cfg ex_init [ex_out]) 4 = Some (Rename ".a.shootnew.go_4242" "a.shootnew.go") /\
  let s := exec ex_init (faulted (plan ex_cfg ex_init [ex_out]) 4) in
  visible s "a.shootnew.go" = visible ex_init "a.shootnew.go" /\
  visible s ".a.shootnew.go_4242" = Some (hdr "-type=*" ++ ex_nl ++ "new").
Proof. vm_compute. repeat split. Qed.

(* two outputs in one run (-type=A,B): separate files, Clean inactive *)
Definition ex_outs2 : list output :=
  [ {| o_name := "a.shootnew.foo.go"; o_tmp := ".a.shootnew.foo.go_17"; o_chunks := [hdr "-type=Foo,Bar" ++ ex_nl ++ "foo"] |};
    {| o_name := "b.shootnew.bar.go"; o_tmp := ".b.shootnew.bar.go_18"; o_chunks := [hdr "-type=Foo,Bar" ++ ex_nl ++ "bar"] |} ].
Definition ex_cfg2 : cfg := {| c_cmd := "new"; c_clean := false; c_dirdot := false; c_fixed := false; c_supfix := false; c_tags := fun _ => []; c_covered := []; c_genfile := ""; c_fd := 3 |}.
Example C17_example_good2 : good ex_cfg2 ex_init ex_outs2.
Proof.
  pose proof C17_example_good as [H1 H2 _ _].
  split; [exact H1|exact H2| |].
  - apply (shaped_okouts "new").
    + repeat constructor; cbn; intuition discriminate.
    + intros o [<-|[<-|[]]]; (split; [reflexivity|]); [exists "17"|exists "18"]; repeat split; discriminate.
    + intros t [<-|[<-|[]]]; reflexivity.
  - intros o [<-|[<-|[]]]; reflexivity.
Qed.

(* an output name that pre-exists as a symbolic link to a hand-written file of the directory, and
   another that is a second name (hard link) of a hand-written file: the names are rebound to the
   new files, the link's target and the other name keep inode and bytes at every crash point *)
Definition ex_init_links : fs := mk_init [
  ("a.go", 0, "package p");
  ("hw_inside.txt", 1, "package p" ++ ex_nl ++ "// hand written");
  ("a.shootnew.foo.go", 2, "symlink:hw_inside.txt");
  ("NOTES_hw.txt", 3, "notes, hand written");
  ("b.shootnew.bar.go", 3, "notes, hand written")
].
Example C17_example_output_names_that_are_links :
  good ex_cfg2 ex_init_links ex_outs2 /\
  forall k,
    let s := exec ex_init_links (firstn k (plan ex_cfg2 ex_init_links ex_outs2)) in
    visible s "hw_inside.txt" = visible ex_init_links "hw_inside.txt" /\
    visible s "NOTES_hw.txt" = visible ex_init_links "NOTES_hw.txt" /\
    (visible s "a.shootnew.foo.go" = Some "symlink:hw_inside.txt" \/
     visible s "a.shootnew.foo.go" = Some (hdr "-type=Foo,Bar" ++ ex_nl ++ "foo")) /\
    data s 1 = data ex_init_links 1 /\ data s 2 = "symlink:hw_inside.txt" /\ data s 3 = "notes, hand written".
Proof.
  assert (G : good ex_cfg2 ex_init_links ex_outs2).
  { destruct (mk_init_wf [("a.go", 0, "package p");
      ("hw_inside.txt", 1, "package p" ++ ex_nl ++ "// hand written");
      ("a.shootnew.foo.go", 2, "symlink:hw_inside.txt");
      ("NOTES_hw.txt", 3, "notes, hand written");
      ("b.shootnew.bar.go", 3, "notes, hand written")]) as (H1 & H2 & _).
    split; [exact H1|exact H2| |].
    - apply (shaped_okouts "new").
      + repeat constructor; cbn; intuition discriminate.
      + intros o [<-|[<-|[]]]; (split; [reflexivity|]); [exists "17"|exists "18"]; repeat split; discriminate.
      + intros t [<-|[<-|[]]]; reflexivity.
    - intros o [<-|[<-|[]]]; reflexivity. }
  split; [exact G|]. intros k. cbn zeta.
  pose proof (prefix_of_firstn k (plan ex_cfg2 ex_init_links ex_outs2)) as Hp.
  assert (Hv : forall n, ~ In n (victims ex_cfg2 (exec ex_init_links (write_ops (c_fd ex_cfg2) ex_outs2)))) by (intros n []).
  destruct (frame ex_cfg2 ex_init_links ex_outs2 G _ "hw_inside.txt" Hp) as [_ E1];
    [cbn; intuition discriminate|cbn; intuition discriminate|apply Hv|].
  destruct (frame ex_cfg2 ex_init_links ex_outs2 G _ "NOTES_hw.txt" Hp) as [_ E2];
    [cbn; intuition discriminate|cbn; intuition discriminate|apply Hv|].
  split; [exact E1|]. split; [exact E2|]. split.
  - destruct (atomic ex_cfg2 ex_init_links ex_outs2 G _ _ Hp (or_introl eq_refl)) as [E|E]; [left|right]; exact E.
  - assert (K : forall j, j < 4 -> data (exec ex_init_links (firstn k (plan ex_cfg2 ex_init_links ex_outs2))) j = data ex_init_links j).
    { intros j Hj. apply (old_inodes_keep_bytes ex_cfg2 ex_init_links ex_outs2 G _ _ Hp). exact Hj. }
    split; [apply K; repeat constructor|]. split; [rewrite K by repeat constructor; reflexivity|].
    rewrite K by repeat constructor. reflexivity.
Qed.


(* ---- finding K_clean_own_output (fixed by /repo commit 31cd4c3): in the defect branch
   (c_fixed = false), with a [dir] argument and the star passed as a separate argument,
   the guard g_spares fails and the run deletes what it wrote.  The same run in the
   current-code branch keeps it (C17_current_code_keeps_the_witness_output). *)
Definition kf_out : output :=
  {| o_name := "a.shootnew.go"; o_tmp := ".a.shootnew.go_1";
     o_chunks := ["// Code generated by ""shoot new -type * ./p""; DO NOT EDIT. (v0.7.0)" ++ ex_nl] |}.
Definition kf_cfg : cfg :=
  {| c_cmd := "new"; c_clean := true; c_dirdot := false; c_fixed := false; c_supfix := false; c_tags := fun _ => []; c_covered := []; c_genfile := "a.shootnew.go"; c_fd := 3 |}.
Definition kf_init : fs := mk_init [("a.go", 0, "package p")].

Theorem C17_refuted_K_clean_own_output :
  exists c init outs o,
    nofds init /\ dir_wf init /\ okouts init outs /\ In o outs /\
    spares c o = false /\
    (* all other guards hold, yet after normal termination the output is not there *)
    visible (exec init (plan c init outs)) (o_name o) = None /\
    visible (exec init (plan c init outs)) (o_name o) <> Some (new_bytes o).
Proof.
  exists kf_cfg, kf_init, [kf_out], kf_out.
  destruct (mk_init_wf [("a.go", 0, "package p")]) as (H1 & H2 & _).
  split; [exact H1|]. split; [exact H2|]. split.
  - apply (shaped_okouts "new").
    + repeat constructor. intros [].
    + intros o [<-|[]]. split; [reflexivity|]. exists "1". repeat split. discriminate.
    + intros t [<-|[]]. reflexivity.
  - split; [now left|]. split; [reflexivity|]. split; [reflexivity|]. vm_compute. discriminate.
Qed.
Print Assumptions C17_refuted_K_clean_own_output.

Example C17_current_code_keeps_the_witness_output :
  let c := {| c_cmd := "new"; c_clean := true; c_dirdot := false; c_fixed := true; c_supfix := false; c_tags := fun _ => []; c_covered := [];
              c_genfile := "a.shootnew.go"; c_fd := 3 |} in
  good c kf_init [kf_out] /\
  visible (exec kf_init (plan c kf_init [kf_out])) "a.shootnew.go" = Some (new_bytes kf_out).
Proof.
  cbn zeta. split; [|reflexivity].
  destruct (mk_init_wf [("a.go", 0, "package p")]) as (H1 & H2 & _).
  apply current_code_good; auto.
  - intros _ o [<-|[]]. reflexivity.
  - apply (shaped_okouts "new").
    + repeat constructor. intros [].
    + intros o [<-|[]]. split; [reflexivity|]. exists "1". repeat split. discriminate.
    + intros t [<-|[]]. reflexivity.
Qed.

(* ---- open finding K_clean_not_superseded: `shoot map -type=OrderPO -to=Order` wrote
   a.shootmap.orderpo.go; a later `shoot map -type=*` run generates Item only (the package has
   no destination type named OrderPO), yet removes a.shootmap.orderpo.go.  All guards hold, the
   removed file is selected by the current Clean and is not superseded. *)
Definition ns_hdr (rest : string) : string := "// Code generated by ""shoot map " ++ rest ++ """; DO NOT EDIT. (v0.7.0)".
Definition ns_old : bytes := ns_hdr "-path=../domain -type=OrderPO -to=Order" ++ ex_nl ++ "orderpo".
Definition ns_new : bytes := ns_hdr "-path=../domain -type=*" ++ ex_nl ++ "item".
Definition ns_cfg : cfg :=
  {| c_cmd := "map"; c_clean := true; c_dirdot := true; c_fixed := true; c_supfix := false;
     c_tags := fun b => if String.eqb b ns_old then ["OrderPO"] else if String.eqb b ns_new then ["Item"] else [];
     c_covered := ["Item"]; c_genfile := "a.shootmap.go"; c_fd := 3 |}.
Definition ns_init : fs := mk_init [("a.go", 0, "package q"); ("a.shootmap.orderpo.go", 1, ns_old)].
Definition ns_out : output :=
  {| o_name := "a.shootmap.go"; o_tmp := ".a.shootmap.go_5"; o_chunks := [ns_new] |}.

Theorem C17_refuted_K_clean_not_superseded :
  exists c init outs n b,
    c_supfix c = false /\ good c init outs /\
    visible init n = Some b /\ superseded c b = false /\
    In n (removed c init outs) /\
    visible (exec init (plan c init outs)) n = None.
Proof.
  exists ns_cfg, ns_init, [ns_out], "a.shootmap.orderpo.go", ns_old.
  split; [reflexivity|]. split.
  - destruct (mk_init_wf [("a.go", 0, "package q"); ("a.shootmap.orderpo.go", 1, ns_old)]) as (H1 & H2 & _).
    apply current_code_good; auto.
    + intros _ o [<-|[]]. reflexivity.
    + apply (shaped_okouts "map").
      * repeat constructor. intros [].
      * intros o [<-|[]]. split; [reflexivity|]. exists "5". repeat split. discriminate.
      * intros t [<-|[]]. reflexivity.
  - split; [reflexivity|]. split; [reflexivity|]. split; [vm_compute; now left|reflexivity].
Qed.
Print Assumptions C17_refuted_K_clean_not_superseded.

(* the same directory with a Clean that asks whether the file is superseded: it is kept *)
Example C17_repaired_cleanup_keeps_the_witness_file :
  let c := {| c_cmd := "map"; c_clean := true; c_dirdot := true; c_fixed := true; c_supfix := true;
              c_tags := c_tags ns_cfg; c_covered := ["Item"]; c_genfile := "a.shootmap.go"; c_fd := 3 |} in
  visible (exec ns_init (plan c ns_init [ns_out])) "a.shootmap.orderpo.go" = Some ns_old /\
  visible (exec ns_init (plan c ns_init [ns_out])) "a.shootmap.go" = Some ns_new.
Proof. vm_compute. split; reflexivity. Qed.
