(* C06 rest: each call of a generated client method sends exactly the request its
   directive describes.

   Model: Model/Directive.v (the directive parsers), Model/Rest.v (cook_method = the
   analysis code of shoot rest, exec = one generated method), Model/RestSpec.v (the
   declarative request of the property, the guards).  This file contains only the
   theorem statements; each is closed by [exact] of a lemma of Proofs/RestProofs.v /
   Proofs/RestExamples.v and followed by Print Assumptions.

   Standard-library behaviour enters as universally quantified functions (fmt_v,
   join_path, json_marshal, url_query): the theorems hold for all of them.  Go map
   iteration enters as oracles (any function returning a permutation of its argument):
   sigma for the alias map, sigma_h for the headers map, sigma_d for the map argument. *)
From Coq Require Import String Ascii List Bool Arith ZArith Permutation Sorted.
From Shoot Require Import Base.Str Model.Directive Model.Rest Model.RestSpec Model.RestStd
     Proofs.RestBase Proofs.RestProofs Proofs.RestExamples Proofs.RestParse.
Import ListNotations.
Local Open Scope string_scope.
Local Open Scope list_scope.

(* ------------------------------------------------------------ the main theorem *)
(* For every interface method whose doc comment parses to the structured directive [ms] and
   whose parameters classify as [s_params ms] (hypothesis [linked]), inside the guards
   [wf_mspec] / [args_in_guard], for every iteration order of the three Go maps involved and
   every standard-library instance: the generator accepts the method, and calling the generated
   method does exactly what the declarative request says -- one request with the directive's
   verb, the path with every placeholder replaced by the alias-resolved argument joined to the
   base URL, the query / body / headers / context of the property (or the same error). *)
Theorem C06_request_is_the_declared_one :
  forall fmt_v join_path json_marshal url_query sigma_d (sigma sigma_h : oracle) E I m ms base args,
  is_oracle sigma -> is_oracle sigma_h ->
  linked E m ms -> wf_mspec ms = true -> args_in_guard fmt_v ms args = true ->
  exists d, cook_method sigma E m = COk d /\
    exec fmt_v join_path json_marshal url_query sigma_d (iface_headers sigma_h I (d_verb d)) d base args
    = spec_request fmt_v join_path json_marshal url_query sigma_d ms (iface_directive I) base args.
Proof. exact request_is_declared. Qed.
Print Assumptions C06_request_is_the_declared_one.

(* ------------------------------------------------- parse of render (the hypothesis [linked]) *)
(* The doc comment that is the canonical rendering of a directive --
       shoot: <Verb>(<path> or "<path>")          Verb in Get/GET/get, Post/..., Put/..., Patch/..., Delete/...
       shoot: alias={k1:v1},{k2:v2},...          absent without aliases
   -- is parsed by the model's parsePath / parseAlias (the literal regular expressions of cook.go run by the
   backtracking matcher) to exactly that directive, for ALL token lists and alias lists that pass the decidable
   syntactic conditions [directive_ok] ... *)
Theorem C06_canonical_directive_parses :
  forall v quoted ts al,
  directive_ok v quoted ts al = true ->
  parse_path (canonical_doc v quoted ts al) = PathOk (upper v) (render_toks ts) (holes ts) /\
  parse_alias (canonical_doc v quoted ts al) = al.
Proof. exact canonical_parses. Qed.
Print Assumptions C06_canonical_directive_parses.

(* ... so [linked] holds for every method documented that way, and the main theorem applies to it *)
Theorem C06_linked_for_canonical_rendering :
  forall E m v quoted ts al ps,
  directive_ok v quoted ts al = true ->
  env_ok E = true ->
  md_doc m = Some (canonical_doc v quoted ts al) ->
  typed_params E (upper v) m = map (fun pk => (fst pk, Some (snd pk))) ps ->
  linked E m {| s_verb := upper v; s_toks := ts; s_alias := al; s_params := ps |}.
Proof. exact canonical_linked. Qed.
Print Assumptions C06_linked_for_canonical_rendering.

Theorem C06_request_for_canonical_rendering :
  forall fmt_v join_path json_marshal url_query sigma_d (sigma sigma_h : oracle) E I m v quoted ts al ps base args,
  is_oracle sigma -> is_oracle sigma_h ->
  directive_ok v quoted ts al = true ->
  env_ok E = true ->
  md_doc m = Some (canonical_doc v quoted ts al) ->
  typed_params E (upper v) m = map (fun pk => (fst pk, Some (snd pk))) ps ->
  wf_mspec {| s_verb := upper v; s_toks := ts; s_alias := al; s_params := ps |} = true ->
  args_in_guard fmt_v {| s_verb := upper v; s_toks := ts; s_alias := al; s_params := ps |} args = true ->
  exists d, cook_method sigma E m = COk d /\
    exec fmt_v join_path json_marshal url_query sigma_d (iface_headers sigma_h I (d_verb d)) d base args
    = spec_request fmt_v join_path json_marshal url_query sigma_d
        {| s_verb := upper v; s_toks := ts; s_alias := al; s_params := ps |} (iface_directive I) base args.
Proof. exact request_for_canonical. Qed.
Print Assumptions C06_request_for_canonical_rendering.

Example C06_example_canonical_getuser :
  directive_ok "Get" true [PLit "/users/"; PHole "id"] [("userID", "id")] = true /\
  canonical_doc "Get" true [PLit "/users/"; PHole "id"] [("userID", "id")]
  = ("shoot: Get(""/users/{id}"")" ++ nls ++ "shoot: alias={userID:id}" ++ nls)%string.
Proof. exact canonical_example_getuser. Qed.
Example C06_example_canonical_queryusers :
  directive_ok "Get" true [PLit "/users"] [("pageSize", "size"); ("pageIdx", "page_idx")] = true /\
  canonical_doc "Get" true [PLit "/users"] [("pageSize", "size"); ("pageIdx", "page_idx")]
  = ("shoot: Get(""/users"")" ++ nls ++ "shoot: alias={pageSize:size},{pageIdx:page_idx}" ++ nls)%string.
Proof. exact canonical_example_queryusers. Qed.

(* what the declarative request says when a request is sent.  "Exactly one request" is a convention of the
   model ([OSent r] stands for one c.client.Do(req_), errors for none); it is checked by the driver of the
   correspondence (requests counted per call), not proved.  "Joined to the base URL" is [join_path base path_]
   for an uninterpreted join_path; what url.JoinPath does to unescaped argument text is the open finding
   K_rest_path_percent (C06_refuted_K_rest_path_percent below). verb, path, URL, headers, context, body (POST/PUT/PATCH), query (GET/DELETE) *)
Theorem C06_declared_request_reads :
  forall fmt_v join_path json_marshal url_query sigma_d ms hd base args r,
  spec_request fmt_v join_path json_marshal url_query sigma_d ms hd base args = OSent r ->
  rq_verb r = s_verb ms /\
  spec_path fmt_v ms args = Some (rq_path r) /\
  join_path base (rq_path r) = Some (rq_url r) /\
  rq_headers r = spec_headers (s_verb ms) hd /\
  (match last_of_kind is_ctx (s_params ms) with
   | None => rq_ctx r = None
   | Some p => exists c, arg_get args p = Some (ACtx (Some c)) /\ rq_ctx r = Some c
   end) /\
  (body_verb (s_verb ms) = true ->
     rq_query r = None /\
     exists p a, last_of_kind is_struct (s_params ms) = Some p /\ arg_get args p = Some a /\
                 json_marshal a = rq_body r /\ rq_body r <> None) /\
  (body_verb (s_verb ms) = false ->
     rq_body r = None /\
     if has_query_source ms
     then exists ws, spec_writes fmt_v sigma_d ms args = WOk ws /\ rq_query r = Some (set_all (url_query (rq_url r)) ws)
     else rq_query r = None).
Proof. exact spec_sent_inv. Qed.
Print Assumptions C06_declared_request_reads.

(* the interface level (cook.go:56-178).  NOTE: the first statement holds by construction of the model
   (cook_methods is written per method; that the Go maps keyed by method name do not leak is what the L2
   comparison of mixed interfaces checks); the second one has content (every well-formed method is accepted).
   Every method is analysed on its own -- its context,
   body and dictionary parameters never leak into another method (the repaired K_rest_ctx_global
   was the template testing the context map of the whole interface) -- and every method of an
   interface whose methods are all well-formed gets its client method *)
Theorem C06_methods_are_independent :
  forall sigma E I, no_fatal sigma E I -> cook_methods sigma E I = COk (cooked_list sigma E I).
Proof. exact cook_methods_list. Qed.
Print Assumptions C06_methods_are_independent.

Theorem C06_every_method_is_generated :
  forall (sigma : oracle) E I,
  is_oracle sigma ->
  (forall m, In (IMethod m) I -> exists ms, linked E m ms /\ wf_mspec ms = true) ->
  exists l, cook_methods sigma E I = COk l /\
            map fst l = flat_map (fun it => match it with IMethod m => [md_name m] | IEmbed _ => [] end) I /\
            forall m, In (IMethod m) I -> exists d, cook_method sigma E m = COk d /\ In (md_name m, d) l.
Proof. exact cook_methods_all. Qed.
Print Assumptions C06_every_method_is_generated.

(* ------------------------------------------------------------------- the path *)
(* restclient.tmpl:24-32 on strings: one strings.Replace(path_, "{h}", value, 1) per placeholder,
   each applied to the result of the previous one, fills in every placeholder (repeated ones
   too) -- for any token list, provided no literal piece and no value contains a brace *)
Theorem C06_path_substitution :
  forall val ts pre,
  no_char "{" pre = true -> lits_no_brace ts = true ->
  (forall h, In h (holes ts) -> no_char "{" (val h) = true) ->
  subst_seq val (holes ts) (pre ++ render_toks ts)%string = (pre ++ fill val ts)%string.
Proof. exact subst_seq_fill. Qed.
Print Assumptions C06_path_substitution.

(* cook.go:103-118: with distinct alias targets the placeholder {h} is bound to the parameter
   aliased to h (else to the parameter called h), whatever the iteration order of the alias map *)
Theorem C06_alias_resolution :
  forall (sigma : oracle) al pps,
  is_oracle sigma -> NoDup (map snd al) ->
  real_path_params (revers_map sigma al) pps = map (resolve al) pps.
Proof. exact real_path_params_resolve. Qed.
Print Assumptions C06_alias_resolution.

Theorem C06_alias_oracle_independent :
  forall (s1 s2 : oracle) E m,
  is_oracle s1 -> is_oracle s2 ->
  (forall doc, md_doc m = Some doc -> NoDup (map snd (parse_alias doc))) ->
  cook_method s1 E m = cook_method s2 E m.
Proof. exact alias_oracle_independent. Qed.
Print Assumptions C06_alias_oracle_independent.

(* ------------------------------------------------------------------ the query *)
(* url.Values.Set: on pairwise distinct names every parameter travels exactly once, in order ... *)
Theorem C06_query_distinct_names : forall ws, NoDup (map fst ws) -> set_all [] ws = ws.
Proof. exact set_all_distinct. Qed.
Print Assumptions C06_query_distinct_names.

(* ... in general the last write to a name wins (the map argument is written last), names that
   are never written keep the value of the base URL, and no other name appears *)
Theorem C06_query_last_write_wins :
  forall q0 ws1 k v ws2, ~ In k (map fst ws2) -> map_get (set_all q0 (ws1 ++ (k, v) :: ws2)) k = Some v.
Proof. exact set_all_last_wins. Qed.
Print Assumptions C06_query_last_write_wins.

Theorem C06_query_nothing_else :
  forall q0 ws k,
  (~ In k (map fst ws) -> map_get (set_all q0 ws) k = map_get q0 k) /\
  (In k (map fst (set_all q0 ws)) <-> In k (map fst q0) \/ In k (map fst ws)).
Proof. intros q0 ws k. exact (conj (set_all_untouched q0 ws k) (set_all_keys q0 ws k)). Qed.
Print Assumptions C06_query_nothing_else.

(* the iteration order of the map argument does not change any query parameter *)
Theorem C06_query_map_order_irrelevant :
  forall fmt_v (s1 s2 : list (string * sval) -> list (string * sval)) ms args ws1,
  is_oracle s1 -> is_oracle s2 ->
  (forall p es, arg_get args p = Some (AMap es) -> NoDup (map fst es)) ->
  spec_writes fmt_v s1 ms args = WOk ws1 ->
  exists ws2, spec_writes fmt_v s2 ms args = WOk ws2 /\
              forall q0 k, map_get (set_all q0 ws1) k = map_get (set_all q0 ws2) k.
Proof. exact map_order_irrelevant. Qed.
Print Assumptions C06_query_map_order_irrelevant.

(* ---------------------------------------------------------------- the headers *)
(* what the generated method Adds (template range = key order) is the verb's default map
   overridden / extended by the interface's headers= directive, for every iteration order *)
Theorem C06_headers :
  forall (sigma : oracle) I verb,
  is_oracle sigma -> sort_kv (iface_headers sigma I verb) = spec_headers verb (iface_directive I).
Proof. exact headers_ok. Qed.
Print Assumptions C06_headers.

Theorem C06_headers_lookup :
  forall I verb k,
  map_get (iface_headers (fun l => l) I verb) k =
  match map_get (iface_directive I) k with Some v => Some v | None => map_get (default_headers verb) k end.
Proof. exact headers_lookup. Qed.
Print Assumptions C06_headers_lookup.

Theorem C06_headers_sorted_arrangement :
  forall verb hd,
  Sorted key_le (spec_headers verb hd) /\ Permutation (spec_headers verb hd) (set_list hd (default_headers verb)).
Proof. exact spec_headers_sorted. Qed.
Print Assumptions C06_headers_sorted_arrangement.

(* ------------------------------------------------- non-vacuity of the hypotheses *)
(* GetUser of /repo/cmd/test/restclient/rest.go; a GET with pointer-to-struct, pointer scalar,
   aliases, map and interface headers; a PUT with a struct body and no context *)
Example C06_example_get :
  linked E0 m_get s_get /\ wf_mspec s_get = true /\ args_in_guard fmt_demo s_get a_get = true.
Proof. exact (conj ex_get_linked ex_get_guards). Qed.
Example C06_example_query :
  linked E0 m_query s_query /\ wf_mspec s_query = true /\ args_in_guard fmt_demo s_query a_query = true.
Proof. exact (conj ex_query_linked ex_query_guards). Qed.
Example C06_example_put :
  linked E0 m_put s_put /\ wf_mspec s_put = true /\ args_in_guard fmt_demo s_put a_put = true.
Proof. exact (conj ex_put_linked ex_put_guards). Qed.
Example C06_example_query_request :
  exists d, cook_method revo E0 m_query = COk d /\
  exec fmt_demo join_demo json_demo noq idd (iface_headers revo I_query (d_verb d)) d "B" a_query
  = OSent {| rq_verb := "GET"; rq_path := "/orgs/acme/users"; rq_url := "B|/orgs/acme/users";
             rq_query := Some [("page_idx", "3"); ("name", "override"); ("pageIdx", "0"); ("secret", "s3"); ("sort", "asc")];
             rq_headers := [("Accept", "text/plain"); ("X-Api", "k1")]; rq_body := None; rq_ctx := Some (1, false) |}.
Proof. exact ex_query_request. Qed.

(* ------------------------------------- the open findings, outside the guards *)
(* K_rest_alias_dup: without the guard "alias targets distinct" the result depends on the oracle *)
Theorem C06_refuted_K_rest_alias_dup :
  is_oracle ido /\ is_oracle revo /\
  (exists d1 d2, cook_method ido E0 m_dup = COk d1 /\ cook_method revo E0 m_dup = COk d2 /\
                 d_path_params d1 = ["b"] /\ d_path_params d2 = ["a"]).
Proof. exact refuted_alias_dup. Qed.
Print Assumptions C06_refuted_K_rest_alias_dup.

(* K_rest_nil_struct_ptr: inside the grammar, well-typed arguments, a nil pointer-to-struct on GET:
   the generated method panics although the property asks for nil pointers to be omitted
   (args_in_guard excludes exactly this) *)
Theorem C06_refuted_K_rest_nil_struct_ptr :
  linked E0 m_query s_query /\ wf_mspec s_query = true /\ args_typed s_query a_query_nil = true /\
  exists d, cook_method ido E0 m_query = COk d /\
            exec fmt_demo join_demo json_demo noq idd (default_headers "GET") d "B" a_query_nil = OPanic.
Proof. exact refuted_nil_struct_ptr. Qed.
Print Assumptions C06_refuted_K_rest_nil_struct_ptr.

(* K_rest_ptr_map: the generator accepts the method and emits code that is not valid Go (wf_mspec
   excludes the shape) *)
Theorem C06_refuted_K_rest_ptr_map :
  exists d, cook_method ido E0 m_ptrmap = COk d /\ static_ok d = false.
Proof. exact refuted_ptr_map. Qed.
Print Assumptions C06_refuted_K_rest_ptr_map.
(* by construction of the model (exec starts with the static_ok test) *)
Theorem C06_static_not_ok_does_not_compile :
  forall fmt_v join_path json_marshal url_query sigma_d hdrs d base args,
  static_ok d = false -> exec fmt_v join_path json_marshal url_query sigma_d hdrs d base args = ONoCompile.
Proof. exact static_not_ok_no_compile. Qed.
Print Assumptions C06_static_not_ok_does_not_compile.

(* K_rest_subst_rescan: an argument text with a brace is substituted again *)
Theorem C06_refuted_K_rest_subst_rescan :
  lits_no_brace toks_rescan = true /\
  subst_seq val_rescan (holes toks_rescan) (render_toks toks_rescan) = "/u/nm/{name}" /\
  fill val_rescan toks_rescan = "/u/{name}/nm".
Proof. exact refuted_subst_rescan. Qed.
Print Assumptions C06_refuted_K_rest_subst_rescan.

(* ------------------------------------------------------ repaired findings *)
(* K_rest_body_no_struct (fixed): an accepted POST/PUT/PATCH method always has its body parameter;
   the former witness is refused with a diagnostic *)
Theorem C06_accepted_body_verb_has_body :
  forall sigma E m d, cook_method sigma E m = COk d -> body_verb (d_verb d) = true -> d_body d <> None.
Proof. exact cook_ok_has_body. Qed.
Print Assumptions C06_accepted_body_verb_has_body.
Example C06_fixed_K_rest_body_no_struct :
  cook_method ido E0 m_nobody = CFatal "a body verb needs a struct parameter as request body".
Proof. exact body_verb_without_struct_refused. Qed.
(* K_rest_two_maps (fixed): a second map parameter of a GET/DELETE method is refused *)
Example C06_fixed_K_rest_two_maps : cook_method ido E0 m_twomaps = CFatal "ambiguous query map binding".
Proof. exact second_map_refused. Qed.
(* K_rest_header_value_trim (fixed): directive values keep leading non-word characters *)
Example C06_fixed_K_rest_header_value_trim :
  parse_headers (doc_lines ["shoot: headers={Accept:*/*},{X-Sig: (a)}"]) = [("Accept", "*/*"); ("X-Sig", "(a)")].
Proof. exact header_value_kept. Qed.

(* K_rest_path_percent (open): the generated code does not url.PathEscape the argument text.  With the
   reference instance of url.JoinPath (Model/RestStd.v join_decoded, compared with the real function on
   every run) a well-typed call inside the grammar whose path argument is ".." is sent to the base path;
   path_text_safe in args_in_guard excludes exactly the texts that JoinPath unescapes, cleans or drops *)
Theorem C06_refuted_K_rest_path_percent :
  linked E0 m_get s_get /\ wf_mspec s_get = true /\ args_typed s_get a_get_dots = true /\
  exists d r, cook_method ido E0 m_get = COk d /\
    exec fmt_demo (fun b p => Some (join_decoded b p)) json_demo noq idd (default_headers "GET") d "/api" a_get_dots = OSent r /\
    rq_path r = "/users/.." /\ rq_url r = "/api" /\ join_plain "/api" (rq_path r) = "/api/users/..".
Proof. exact refuted_path_unescaped. Qed.
Print Assumptions C06_refuted_K_rest_path_percent.

(* repaired in the review round *)
Example C06_fixed_K_rest_unnamed_param : cook_method ido E0 m_unnamed = CFatal "parameters must be named".
Proof. exact unnamed_param_refused. Qed.
Example C06_fixed_K_rest_ptr_path_param : cook_method ido E0 m_ptrpath = CFatal "a path parameter must not be a pointer".
Proof. exact ptr_path_param_refused. Qed.
Example C06_example_qualified_scalar : linked E_time m_dur s_dur /\ wf_mspec s_dur = true.
Proof. exact ex_dur_linked. Qed.
